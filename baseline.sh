#!/bin/bash
# Runs the repository's pinned test suite with the verification guard OFF
# (no feature is enabled) and compares the passing set with BASELINE.json.
# exit 0 iff every stable-pass test of the baseline passes.
set -u
cd /repo || exit 2
mkdir -p /verif/target
export CARGO_NET_OFFLINE=true
if [ -f /w/lib/nextest.toml ] && command -v cargo-nextest >/dev/null; then
  cargo nextest run --workspace --no-fail-fast --tool-config-file pb:/w/lib/nextest.toml \
     --profile pb --test-threads 8 --offline >/verif/target/baseline.log 2>&1
  JUNIT=/repo/target/nextest/pb/junit.xml
else
  echo "nextest config missing" >&2; exit 2
fi
python3 - "$JUNIT" <<'PY'
import json,sys,xml.etree.ElementTree as ET
b=json.load(open('/root/.vp/BASELINE.json'))
want=set(b['stable_pass'])
passed=set();failed=set()
for tc in ET.parse(sys.argv[1]).getroot().iter('testcase'):
    tid=(tc.get('classname') or '')+'::'+(tc.get('name') or '')
    if tc.find('failure') is not None or tc.find('error') is not None: failed.add(tid)
    else: passed.add(tid)
passed-=failed
missing=sorted(want-passed)
print(f"baseline: wanted={len(want)} passed_now={len(passed)} missing={len(missing)}")
for m in missing[:30]: print("  MISSING",m)
sys.exit(1 if missing else 0)
PY
