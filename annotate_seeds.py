#!/usr/bin/env python3
"""Adds property / needs_to_manifest / what_i_ran to seeded/*/meta.json (round 2 and 3 seeds)."""
import json, os, glob
NEEDS = {
 "C01b_nounset_length": "set -u, the length form ${#x}, and x unset",
 "C02b_return_status_dropped": "`return n` executed inside a subshell-like environment (( ), pipeline element, $( ), &) within a function",
 "C03b_signed_octal_variable": "a variable whose value is a signed octal/hexadecimal constant (-010, +0x10) used by name in $(( ))",
 "C04b_rfind_multibyte": "longest/shortest suffix removal on a subject containing multi-byte characters",
 "C05b_literal_backslash_arms_escape": "a field with a literal (quoted or expanded) backslash directly before a pattern character",
 "C06b_nonascii_digit_param": "`$` immediately followed by a non-ASCII numeric character such as ² or a fullwidth digit",
 "C07b_rtmax_offset": "a trap on a real-time signal in the upper half of the range, whose listing is re-evaluated",
 "C08b_subshell_signal_to_group": "a subshell whose final exit status means killed-by-signal, started without job control (shares the parent's process group)",
 "C09b_noclobber_fd_leak": "noclobber on and a plain > redirection refused because the target is an existing regular file",
 "C10b_trap_divert_overrides_abort": "a signal trap whose action ends in return/break/continue, caught during the very command that aborts (errexit or shell error)",
 "C11b_sigint_batch_drops_signal": "interactive shell, a blocked built-in, and a trapped signal delivered in the same batch as the interrupting SIGINT",
 "C12b_same_pid_insert": "a new job inserted with the process ID of a finished job that is the current or previous job",
 "C13b_stopped_foreground_child": "no job control, a synchronously awaited child that is stopped by a signal and continued later",
 "C14b_all_newline_output": "a command substitution whose output consists of newlines only",
 "C15b_step_stops_at_finished_task": "a task woken during the poll in which it completes, with another woken task queued behind it",
 "C16b_env_hidden_exported": "an exported variable hidden by a non-exported local while an external program / exec is run",
 "C17b_tab_ending_alias": "an alias value ending in a tab followed by a word that is itself an alias name",
 "C18b_parse_mode_hoisted": "`set -o portable` / `set +o portable` on one line and syntax that depends on it on a later line of the same input",
 "C19b_stopped_killed_keeps_fds": "a child that is stopped, then killed while stopped, and is the last holder of a pipe end another process waits on",
 "C20b_double_separator": "the operand `--` directly after the `--` separator",
 "C08c_async_ignore_not_installed": "a SIGINT/SIGQUIT trap that was set and reset (entry with default action), then an asynchronous list without job control",
 "C11c_stale_pending_kept": "a signal caught by an internal handler while untrapped, then `trap 'cmd' SIG` before the pending flag is consumed",
 "C13c_bang_reset_on_empty_joblist": "`cmd & wait $!` (job list becomes empty) followed by another expansion of $!",
 "C05c_quoted_leading_period": "a directory-scanned component whose leading period is quoted or follows a quoted region (`'.'*`, `\"d/\".*`)",
 "C06c_global_alias_recursion": "a global alias whose replacement mentions itself (directly or through another global alias), used on a later line; reachable through the parser API only",
 "C07c_umask_symbolic_clauses": "`umask -S` listing (three = clauses) evaluated in a shell whose mask differs in the user or group class",
 "C10c_errexit_exemption_stops_at_subshell": "errexit on, a subshell/substitution/pipeline element started inside an exempt context, and a failing non-final command inside it",
 "C12c_remove_current_fallback": "removing the current job when >= 2 jobs remain, no other suspended job, and the old previous job has the lowest index",
 "C14c_pipe_reader_on_fd1": "a pipeline of >= 3 commands started while descriptor 1 is closed (the previous pipe's reading end lands on fd 1)",
 "C15c_batch_run_until_stalled": "run_until_stalled with two queued tasks where the earlier one wakes the later one again (or re-enters the executor) during the same run",
 "C17c_negation_lost_before_alias": "`!` followed by a word that is an alias name",
 "C18c_line_chunk_splits_utf8": "a command line longer than 4096 bytes, read through a file descriptor, with a multi-byte character across the 4096-byte boundary",
 "C01c_nested_quote_resets_will_split": "a nested double-quoted part inside a braced expansion inside outer double quotes, followed by $* in the same outer quotes, with >= 2 positional parameters",
 "C02c_loop_status_after_continue": "a while/until loop in which an earlier iteration ends with a non-zero status and the last iteration ends through `continue`",
 "C03c_shift_additive_precedence": "<< or >> next to a binary + or - without parentheses",
 "C04c_case_broken_alternative": "a case item whose earlier alternative is a pattern that does not compile and whose later alternative matches",
 "C09c_dot_script_fd_not_cloexec": "descriptors 3..9 all open when a script is sourced with `.`",
 "C16c_readonly_local_in_function": "`readonly NAME[=VALUE]` executed inside a function, then the function returns and the name is looked up, assigned or unset",
 "C20c_kill_attached_sig_prefix": "kill -s/-n with the signal attached to the option letter and carrying the SIG prefix (-sSIGINT)",
 "C01d_trim_pattern_escapes_dropped": "a trim modifier whose pattern contains an unquoted expansion whose value has a backslash before another character",
 "C02d_negation_lost_before_alias": "`!` followed by a word that is an alias defined on an earlier line (independent rediscovery of the C17c mechanism)",
 "C03d_arith_assign_local_scope": "an arithmetic assignment / ++ / -- evaluated inside a function on a variable that is not local to it (also: a read-only global)",
 "C04d_range_ending_with_bracket": "a bracket expression with a range whose end point is an ordinary `[` ([A-[])",
 "C05d_glob_interrupted_by_any_signal": "interactive shell, a field with a wildcard, and a trapped signal other than SIGINT arriving during the directory scan",
 "C06d_redirected_word_as_function_name": "a one-word simple command with a redirection directly followed by `()` (invalid text: `foo >bar () { :; }`)",
 "C07d_export_p_array_attribute": "an exported variable holding an array, listed by `export -p`",
 "C08d_cmdsubst_interrupt_leaks_reader": "interactive shell with default SIGINT, and a command substitution whose subshell is killed by SIGINT",
 "C09d_move_fd_internal_leaks_on_failure": "the shell opens a descriptor for itself (`. file`, tty) while no descriptor >= 10 can be allocated (`ulimit -n 10`)",
 "C10d_errexit_skipped_without_command_name": "errexit on and a failing simple command without a command name (`a=$(false)`, `</nonexistent`)",
 "C11d_wait_trap_runs_twice": "a trapped signal delivered while the `wait` built-in is blocking on a running job",
 "C12d_set_current_accepts_finished_job": "a suspended job exists and `bg %n` names another job that has finished but is still in the table",
 "C13d_cmdsubst_waits_before_reading": "a command substitution whose command writes more than the pipe holds (1024 bytes in the simulator) before exiting",
 "C14d_heredoc_dash_counts_all_tabs": "a `<<-` here-document with a body line that contains a tab beyond its leading tabs",
 "C15d_receiver_keeps_first_waker": "a Receiver polled once by one task, then awaited by another, before the value is sent",
 "C16d_unset_local_only": "a function-local variable hiding an outer one, `unset` of it inside the function, then a lookup",
 "C17d_alias_in_noncommand_words": "a word spelled like a (non-global) alias in a for-loop name/value list, case subject or pattern, or array value",
 "C18d_undo_redirs_oldest_first": "script read from stdin and a non-forking command that redirects descriptor 0 twice (same change as round 1's C09_undo_order, found independently from the C18 side)",
 "C19d_fork_inherits_pending_signals": "a trapped signal arrives while the shell reads a command substitution and the shell forks again in the same command",
 "C20d_set_option_name_nonascii": "`set -o NAME` where NAME has a non-ASCII alphanumeric character plus an upper-case letter or punctuation and is an option name without it",
 "C19c_append_after_truncate": "an O_APPEND descriptor kept open, written, the file truncated through another open, then written again",
}
for d in sorted(glob.glob('/verif/seeded/*/')):
    name = os.path.basename(d.rstrip('/'))
    p = d + 'meta.json'
    if not os.path.exists(p):
        continue
    m = json.load(open(p))
    m['property'] = name[:3]
    m['round'] = {'b': 2, 'c': 3, 'd': 4}.get(name[3], 1)
    if name in NEEDS:
        m['needs_to_manifest'] = NEEDS[name]
    m.setdefault('what_i_ran', [
        "verify_seeds.sh: pinned suite with the change in a scratch worktree of /repo HEAD (0 baseline tests missing), demonstration with and without the change",
        "seed_matrix.sh: git -C /repo apply patch.diff; ./check <property> --tier quick; git -C /repo checkout -- .",
    ])
    json.dump(m, open(p, 'w'), indent=1)
print("annotated")
