//! The "virtual shell": the full yash-rs shell (yash_cli start-up + yash_builtin)
//! running on `Rc<Concurrent<VirtualSystem>>` under a controlled executor that
//! owns the choice of the next runnable simulated process, plus the
//! deviation-bounded stateless schedule explorer and probe built-ins.

use std::cell::{Cell, RefCell};
use std::collections::{BTreeMap, BTreeSet, HashMap};
use std::future::Future;
use std::ops::ControlFlow::{Break, Continue};
use std::pin::Pin;
use std::rc::Rc;
use std::sync::{Arc, Mutex};
use std::task::{Context, Poll, Wake, Waker};
use std::time::Instant;

use yash_env::Env;
use yash_env::builtin::{Builtin, Type};
use yash_env::io::Fd;
use yash_env::job::{Pid, ProcessState};
use yash_env::semantics::{Divert, ExitStatus, Field};
use yash_env::system::Concurrent;
use yash_env::system::Mode;
use yash_env::system::r#virtual::{
    Executor, FileBody, Inode, OpenFileDescription, SystemState, VerifTap, VirtualSystem,
};
use yash_env::variable::Scope;
use yash_semantics::read_eval_loop;
use yash_semantics::trap::run_exit_trap;

pub type Task = Pin<Box<dyn Future<Output = ()>>>;
pub type VS = Rc<Concurrent<VirtualSystem>>;
pub type BuiltinFuture<'a> = Pin<Box<dyn Future<Output = yash_env::builtin::Result> + 'a>>;

// ---------------------------------------------------------------- scheduler

#[derive(Default)]
struct Shared {
    woken: Mutex<BTreeSet<usize>>,
}
struct TaskWaker {
    id: usize,
    shared: Arc<Shared>,
}
impl Wake for TaskWaker {
    fn wake(self: Arc<Self>) {
        self.shared.woken.lock().unwrap().insert(self.id);
    }
}

/// One decision taken during a run.
#[derive(Clone, Copy, Debug, PartialEq, Eq)]
pub struct Dec {
    pub choice: usize,
    pub n: usize,
    pub is_tap: bool,
}

#[derive(Clone, Debug, Default)]
pub struct Inject {
    /// deliver `signal` to process `pid` at its k-th syscall tap (0-based)
    pub at: Vec<(usize, i32)>, // (tap index counted on the target pid, signal number)
    pub pid: i32,
}

#[derive(Default)]
pub struct Sched {
    tasks: RefCell<Vec<Option<Task>>>,
    shared: Arc<Shared>,
    running: RefCell<Vec<usize>>,
    prefix: RefCell<Vec<usize>>,
    decisions: RefCell<Vec<Dec>>,
    taps: Cell<usize>,
    use_taps: Cell<bool>,
    suppress: Cell<u32>,
    steps: Cell<usize>,
    discarded: Cell<bool>,
    diverged: Cell<bool>,
    inject: RefCell<Option<Inject>>,
    /// beyond the replay prefix, cooperative decisions take the last alternative instead of the first
    policy_last: Cell<bool>,
    target_taps: Cell<usize>,
    tap_log: RefCell<Option<Vec<(i32, &'static str)>>>,
    state: RefCell<Option<Rc<RefCell<SystemState>>>>,
    execed: RefCell<BTreeSet<i32>>,
}
impl std::fmt::Debug for Sched {
    fn fmt(&self, f: &mut std::fmt::Formatter<'_>) -> std::fmt::Result {
        write!(f, "Sched")
    }
}
impl Executor for Sched {
    fn spawn(&self, task: Task) -> Result<(), Box<dyn std::error::Error>> {
        let mut tasks = self.tasks.borrow_mut();
        let id = tasks.len();
        tasks.push(Some(task));
        self.shared.woken.lock().unwrap().insert(id);
        Ok(())
    }
}
impl Sched {
    fn runnable(&self) -> Vec<usize> {
        let w = self.shared.woken.lock().unwrap();
        let tasks = self.tasks.borrow();
        let running = self.running.borrow();
        w.iter()
            .copied()
            .filter(|&i| tasks[i].is_some() && !running.contains(&i))
            .collect()
    }
    fn decide(&self, n: usize, is_tap: bool) -> usize {
        let mut d = self.decisions.borrow_mut();
        let i = d.len();
        let p = self.prefix.borrow();
        let mut c = if i < p.len() {
            p[i]
        } else if self.policy_last.get() && !is_tap {
            n - 1
        } else {
            0
        };
        if c >= n {
            // replay divergence: hard machinery error, reported by the caller
            self.diverged.set(true);
            c = 0;
        }
        d.push(Dec { choice: c, n, is_tap });
        c
    }
    fn poll_task(&self, id: usize) {
        self.steps.set(self.steps.get() + 1);
        self.shared.woken.lock().unwrap().remove(&id);
        let Some(mut task) = self.tasks.borrow_mut()[id].take() else {
            return;
        };
        self.running.borrow_mut().push(id);
        let waker = Waker::from(Arc::new(TaskWaker {
            id,
            shared: self.shared.clone(),
        }));
        let mut cx = Context::from_waker(&waker);
        let r = task.as_mut().poll(&mut cx);
        self.running.borrow_mut().pop();
        if r.is_pending() {
            self.tasks.borrow_mut()[id] = Some(task);
        }
    }
    /// Records (once per process) the program a process has exec'ed, as a trace entry.
    fn note_exec(&self, pid: Pid) {
        if self.execed.borrow().contains(&pid.0) {
            return;
        }
        let Some(state) = self.state.borrow().clone() else {
            return;
        };
        let st = state.borrow();
        let Some(p) = st.processes.get(&pid) else {
            return;
        };
        if let Some((_path, args, envs)) = p.last_exec().clone() {
            self.execed.borrow_mut().insert(pid.0);
            let args: Vec<String> = args.iter().map(|a| a.to_string_lossy().into_owned()).collect();
            let mut envs: Vec<String> = envs.iter().map(|a| a.to_string_lossy().into_owned()).collect();
            envs.sort();
            let wanted: Vec<String> = if args.first().map(|s| s.as_str()) == Some("envp") {
                args[1..].to_vec()
            } else {
                envs.iter()
                    .filter_map(|e| e.split_once('=').map(|(n, _)| n.to_string()))
                    .filter(|n| n.len() == 1)
                    .collect()
            };
            let shown: Vec<String> = envs
                .iter()
                .filter(|e| e.split_once('=').is_some_and(|(n, _)| wanted.iter().any(|w| w == n)))
                .cloned()
                .collect();
            drop(st);
            trace(pid, format!("execpath:{}", _path.to_string_lossy()));
            trace(pid, format!("exec[{}]", shown.join(",")));
            if args.first().map(|s| s.as_str()) == Some("ext") {
                trace(pid, format!("fds exec {}", fd_table(&state, pid)));
            }
            // `sigs`: the signal state the program would start with (mask and dispositions)
            if args.first().map(|s| s.as_str()) == Some("sigs") {
                let st = state.borrow();
                if let Some(p) = st.processes.get(&pid) {
                    let mut blocked: Vec<i32> = p.blocked_signals().iter().map(|s| s.as_raw()).collect();
                    blocked.sort();
                    let disp: Vec<String> = SIGNALS.iter().map(|(name, n)| format!("{name}:{:?}", p.disposition(signum(*n)))).collect();
                    drop(st);
                    trace(pid, format!("sigs exec blocked={blocked:?} {}", disp.join(",")));
                }
            }
        }
    }
    fn tap(&self, pid: Pid, name: &'static str) {
        if self.suppress.get() > 0 {
            return;
        }
        self.note_exec(pid);
        self.taps.set(self.taps.get() + 1);
        if let Some(log) = self.tap_log.borrow_mut().as_mut() {
            log.push((pid.0, name));
        }
        // signal injection at syscall boundaries
        let inj = self.inject.borrow().clone();
        if let Some(inj) = inj {
            if inj.pid == pid.0 {
                let k = self.target_taps.get();
                self.target_taps.set(k + 1);
                for &(at, signo) in &inj.at {
                    if at == k {
                        if let Some(state) = self.state.borrow().as_ref() {
                            raise_on(state, pid, signo);
                        }
                    }
                }
            }
        }
        if !self.use_taps.get() {
            return;
        }
        if self.steps.get() > MAX_STEPS {
            return;
        }
        let runnable = self.runnable();
        if runnable.is_empty() {
            return;
        }
        let c = self.decide(runnable.len() + 1, true);
        if c > 0 {
            self.poll_task(runnable[c - 1]);
            // A nested (preempting) process cannot stop its preempted caller
            // mid-call; such executions are not representable: discard.
            if let Some(state) = self.state.borrow().as_ref() {
                let st = state.borrow();
                if let Some(p) = st.processes.get(&pid) {
                    if p.state() != ProcessState::Running {
                        self.discarded.set(true);
                    }
                }
            }
        }
    }
}

pub const MAX_STEPS: usize = 200_000;

/// (name, number in the simulated system) of the signals shown in snapshots
pub const SIGNALS: &[(&str, i32)] = &[
    ("HUP", 1),
    ("INT", 2),
    ("QUIT", 3),
    ("KILL", 9),
    ("TERM", 15),
    ("CHLD", 102),
    ("CONT", 103),
    ("PIPE", 110),
    ("STOP", 116),
    ("TSTP", 120),
    ("TTIN", 121),
    ("TTOU", 122),
    ("USR1", 124),
    ("USR2", 125),
];

fn signum(n: i32) -> yash_env::signal::Number {
    yash_env::signal::Number::from_raw_unchecked(std::num::NonZero::new(n).unwrap())
}

/// Delivers a signal to a process the way `VirtualSystem::kill` does
/// (raise + SIGCHLD to the parent on a state change).
pub fn raise_on(state: &Rc<RefCell<SystemState>>, pid: Pid, signo: i32) {
    let mut st = state.borrow_mut();
    let Some(p) = st.processes.get_mut(&pid) else {
        return;
    };
    let r = p.raise_signal(signum(signo));
    if r.process_state_changed {
        let ppid = p.ppid();
        if let Some(pp) = st.processes.get_mut(&ppid) {
            let _ = pp.raise_signal(yash_env::system::r#virtual::SIGCHLD);
        }
    }
}

// ---------------------------------------------------------------- run context (probes)

#[derive(Clone, Debug, PartialEq, Eq, Hash)]
pub struct TraceEntry {
    pub pid: i32,
    pub text: String,
    /// number of system calls the injection target had made when this entry was written
    pub at_tap: usize,
}

#[derive(Default)]
struct RunCtx {
    trace: Vec<TraceEntry>,
    state: Option<Rc<RefCell<SystemState>>>,
    // weak references: identity without keeping descriptions (pipe ends!) alive
    ofds: Vec<std::rc::Weak<RefCell<OpenFileDescription>>>,
    inodes: Vec<std::rc::Weak<RefCell<Inode>>>,
    sched: Option<Rc<Sched>>,
    final_fds: Option<String>,
}

thread_local! {
    static RUN: RefCell<RunCtx> = RefCell::new(RunCtx::default());
}

fn trace(pid: Pid, text: String) {
    RUN.with(|r| {
        let mut r = r.borrow_mut();
        let at_tap = r.sched.as_ref().map_or(0, |s| s.target_taps.get());
        r.trace.push(TraceEntry { pid: pid.0, text, at_tap });
    });
}

/// Appends a marker to the trace on behalf of the calling shell process.
pub fn probe_trace(env: &Env<VS>, text: &str) {
    use yash_env::system::GetPid;
    trace(env.system.getpid(), text.to_string());
}

fn with_suppressed_taps<T>(f: impl FnOnce() -> T) -> T {
    let sched = RUN.with(|r| r.borrow().sched.clone());
    if let Some(s) = &sched {
        s.suppress.set(s.suppress.get() + 1);
    }
    let r = f();
    if let Some(s) = &sched {
        s.suppress.set(s.suppress.get() - 1);
    }
    r
}

fn ofd_id(ofd: &Rc<RefCell<OpenFileDescription>>) -> usize {
    RUN.with(|r| {
        let mut r = r.borrow_mut();
        if let Some(i) = r.ofds.iter().position(|o| std::ptr::eq(o.as_ptr(), Rc::as_ptr(ofd))) {
            return i;
        }
        r.ofds.push(Rc::downgrade(ofd));
        r.ofds.len() - 1
    })
}
fn inode_id(ino: &Rc<RefCell<Inode>>) -> usize {
    RUN.with(|r| {
        let mut r = r.borrow_mut();
        if let Some(i) = r.inodes.iter().position(|o| std::ptr::eq(o.as_ptr(), Rc::as_ptr(ino))) {
            return i;
        }
        r.inodes.push(Rc::downgrade(ino));
        r.inodes.len() - 1
    })
}

/// Descriptor table of a process: fd -> description identity, mode, flags, offset.
pub fn fd_table(state: &Rc<RefCell<SystemState>>, pid: Pid) -> String {
    let st = state.borrow();
    let Some(p) = st.processes.get(&pid) else {
        return "<no process>".into();
    };
    let mut out = String::new();
    for (fd, body) in p.fds() {
        let id = ofd_id(&body.open_file_description);
        let (r, w, off, ino, kind) = {
            let mut o = body.open_file_description.borrow_mut();
            let off = o
                .seek(std::io::SeekFrom::Current(0))
                .map(|n| n as i64)
                .unwrap_or(-1);
            let ino = inode_id(o.inode());
            let kind = match &o.inode().borrow().body {
                FileBody::Regular { .. } => 'f',
                FileBody::Directory { .. } => 'd',
                FileBody::Fifo { .. } => 'p',
                FileBody::Symlink { .. } => 'l',
                FileBody::Terminal { .. } => 't',
                _ => '?',
            };
            (o.is_readable(), o.is_writable(), off, ino, kind)
        };
        out.push_str(&format!(
            "{}=o{}{}{}{}@{}i{}{} ",
            fd.0,
            id,
            if r { "r" } else { "" },
            if w { "w" } else { "" },
            if body.flags.is_empty() { "" } else { "x" },
            off,
            ino,
            kind
        ));
    }
    out
}

/// Replaces every offset in a descriptor-table string by 0 (offsets of the
/// standard error file move whenever a diagnostic is printed).
pub fn strip_offsets(table: &str) -> String {
    table
        .split_whitespace()
        .map(|tok| match (tok.find('@'), tok.rfind('i')) {
            (Some(a), Some(b)) if a < b => format!("{}@0{}", &tok[..a], &tok[b..]),
            _ => tok.to_string(),
        })
        .collect::<Vec<_>>()
        .join(" ")
}

fn trap_state_str(t: &yash_env::trap::TrapState) -> String {
    use yash_env::trap::{Action, Origin};
    let a = match &t.action {
        Action::Default => "default".to_string(),
        Action::Ignore => "ignore".to_string(),
        Action::Command(c) => format!("cmd({c})"),
    };
    let o = match &t.origin {
        Origin::Inherited => "inh",
        Origin::Subshell => "sub",
        Origin::User(_) => "user",
    };
    format!("{a}/{o}{}", if t.pending { "/pending" } else { "" })
}

/// Serialises the shell execution environment (sections separated by '|').
pub fn snapshot(env: &mut Env<VS>) -> BTreeMap<&'static str, String> {
    use yash_env::system::{GetPid, Umask};
    let mut m = BTreeMap::new();
    let pid = env.system.getpid();
    // variables
    let mut vars: Vec<String> = env
        .variables
        .iter(Scope::Global)
        .filter(|(n, _)| !matches!(*n, "LINENO" | "RANDOM" | "SECONDS" | "PPID" | "OPTIND"))
        .map(|(n, v)| {
            format!(
                "{n}={:?}{}{}",
                v.value,
                if v.is_exported { " x" } else { "" },
                if v.read_only_location.is_some() { " ro" } else { "" }
            )
        })
        .collect();
    vars.sort();
    m.insert("vars", vars.join(";"));
    m.insert(
        "params",
        format!("{:?}", env.variables.positional_params().values),
    );
    let mut funcs: Vec<String> = env
        .functions
        .iter()
        .map(|f| {
            // the printed body and, because the same printer produces every listing, a digest of
            // the tree itself (Debug rendering with the source locations erased)
            let tree = crate::props::c06::erase_locations(&format!("{:?}", f.body));
            let digest = tree.bytes().fold(0xcbf29ce484222325u64, |h, b| (h ^ b as u64).wrapping_mul(0x100000001b3));
            format!(
                "{}(){}#{digest:016x}{}",
                f.name,
                f.body,
                if f.read_only_location.is_some() { " ro" } else { "" }
            )
        })
        .collect();
    funcs.sort();
    m.insert("funcs", funcs.join(";"));
    let mut aliases: Vec<String> = env
        .aliases
        .iter()
        .map(|a| format!("{}={:?}{}", a.0.name, a.0.replacement, if a.0.global { " g" } else { "" }))
        .collect();
    aliases.sort();
    m.insert("aliases", aliases.join(";"));
    let opts: Vec<String> = yash_env::option::Option::iter()
        .filter(|o| env.options.get(*o) == yash_env::option::State::On)
        .map(|o| o.to_string())
        .collect();
    m.insert("options", opts.join(","));
    let traps: Vec<String> = env
        .traps
        .iter()
        .map(|(c, cur, _parent)| format!("{c:?}:{}", trap_state_str(cur)))
        .collect();
    m.insert("traps", traps.join(";"));
    let state = RUN.with(|r| r.borrow().state.clone()).unwrap();
    let umask = with_suppressed_taps(|| {
        let old = env.system.umask(Mode::empty());
        env.system.umask(old);
        old
    });
    m.insert("umask", format!("{:o}", umask.bits()));
    {
        let st = state.borrow();
        let p = &st.processes[&pid];
        m.insert("cwd", format!("{:?}", p.getcwd()));
        let mut disp = String::new();
        for (name, n) in SIGNALS {
            disp.push_str(&format!("{}:{:?},", name, p.disposition(signum(*n))));
        }
        m.insert("dispositions", disp);
        let mut blocked: Vec<i32> = p.blocked_signals().iter().map(|s| s.as_raw()).collect();
        blocked.sort();
        m.insert("blocked", format!("{blocked:?}"));
    }
    m.insert("fds", fd_table(&state, pid));
    m.insert("status", format!("{}", env.exit_status.0));
    m.insert("lastbg", format!("{}", env.jobs.last_async_pid().0));
    let jobs: Vec<String> = env
        .jobs
        .iter()
        .map(|(i, j)| format!("{i}:{}:{:?}", j.pid.0, j.state))
        .collect();
    m.insert("jobs", jobs.join(";"));
    m
}

pub fn snapshot_string(env: &mut Env<VS>) -> String {
    snapshot(env)
        .iter()
        .map(|(k, v)| format!("{k}={{{v}}}"))
        .collect::<Vec<_>>()
        .join("|")
}

/// Parses a snapshot string back into sections.
pub fn parse_snapshot(s: &str) -> BTreeMap<String, String> {
    let mut m = BTreeMap::new();
    for part in s.split("}|") {
        if let Some((k, v)) = part.split_once("={") {
            m.insert(k.to_string(), v.trim_end_matches('}').to_string());
        }
    }
    m
}

// ---------------------------------------------------------------- probe built-ins

fn bi(f: yash_env::builtin::Main<VS>) -> Builtin<VS> {
    Builtin::new(Type::Mandatory, f)
}

fn pid_of(env: &Env<VS>) -> Pid {
    use yash_env::system::GetPid;
    env.system.getpid()
}

fn echo_main(env: &mut Env<VS>, args: Vec<Field>) -> BuiltinFuture<'_> {
    use yash_env::system::concurrency::WriteAll;
    Box::pin(async move {
        let msg = args
            .iter()
            .map(|f| f.value.clone())
            .collect::<Vec<_>>()
            .join(" ")
            + "\n";
        match env.system.write_all(Fd::STDOUT, msg.as_bytes()).await {
            Ok(_) => ExitStatus::SUCCESS.into(),
            Err(_) => ExitStatus::FAILURE.into(),
        }
    })
}

/// `p K [status]`: appends `K:$?` to the trace and returns `status` (default 0).
fn p_main(env: &mut Env<VS>, args: Vec<Field>) -> BuiltinFuture<'_> {
    Box::pin(async move {
        let k = args.first().map(|f| f.value.clone()).unwrap_or_default();
        trace(pid_of(env), format!("{k}:{}", env.exit_status.0));
        let st = args
            .get(1)
            .and_then(|f| f.value.parse::<i32>().ok())
            .unwrap_or(0);
        ExitStatus(st).into()
    })
}

/// `s N`: returns status N silently.
fn s_main(_env: &mut Env<VS>, args: Vec<Field>) -> BuiltinFuture<'_> {
    Box::pin(async move {
        let st = args
            .first()
            .and_then(|f| f.value.parse::<i32>().ok())
            .unwrap_or(0);
        ExitStatus(st).into()
    })
}

/// `args ...`: traces the fields it received.
fn args_main(env: &mut Env<VS>, args: Vec<Field>) -> BuiltinFuture<'_> {
    Box::pin(async move {
        let s: String = args.iter().map(|f| format!("[{}]", f.value)).collect();
        trace(pid_of(env), format!("args{s}"));
        ExitStatus::SUCCESS.into()
    })
}

fn snap_main(env: &mut Env<VS>, args: Vec<Field>) -> BuiltinFuture<'_> {
    Box::pin(async move {
        let tag = args.first().map(|f| f.value.clone()).unwrap_or_default();
        let st = env.exit_status;
        let s = snapshot_string(env);
        trace(pid_of(env), format!("snap {tag} {s}"));
        st.into()
    })
}

fn fds_main(env: &mut Env<VS>, args: Vec<Field>) -> BuiltinFuture<'_> {
    Box::pin(async move {
        let tag = args.first().map(|f| f.value.clone()).unwrap_or_default();
        let state = RUN.with(|r| r.borrow().state.clone()).unwrap();
        let pid = pid_of(env);
        trace(pid, format!("fds {tag} {}", fd_table(&state, pid)));
        ExitStatus::SUCCESS.into()
    })
}

/// `nb TAG`: traces the descriptors of the calling shell whose open file description has
/// O_NONBLOCK set (the shell sets the flag around its own reads and writes and must clear it again).
fn nb_main(env: &mut Env<VS>, args: Vec<Field>) -> BuiltinFuture<'_> {
    Box::pin(async move {
        let tag = args.first().map(|f| f.value.clone()).unwrap_or_default();
        let state = RUN.with(|r| r.borrow().state.clone()).unwrap();
        let pid = pid_of(env);
        let list: Vec<i32> = {
            let st = state.borrow();
            st.processes.get(&pid).map(|p| p.fds().iter().filter(|(_, b)| b.open_file_description.borrow().is_nonblocking()).map(|(fd, _)| fd.0).collect()).unwrap_or_default()
        };
        trace(pid, format!("nb {tag} {list:?}"));
        ExitStatus::SUCCESS.into()
    })
}

pub fn pattern_byte(i: usize) -> u8 {
    b'a' + (i % 23) as u8
}

/// The generator payload: N pattern bytes (a newline at every E-th position if
/// E > 0) followed by T newlines.
pub fn payload(n: usize, t: usize, e: usize) -> Vec<u8> {
    // E = 7777 / 7778 / 7779: N bytes of a 2- / 3- / 4-byte character (after N mod width ASCII
    // bytes), so that characters straddle every buffer boundary
    if (7777..=7779).contains(&e) {
        let ch = ["é", "€", "😀"][e - 7777];
        let w = ch.len();
        let mut data = vec![b'a'; n % w];
        for _ in 0..n / w {
            data.extend_from_slice(ch.as_bytes());
        }
        data.extend(std::iter::repeat_n(b'\n', t));
        return data;
    }
    // E = 7780: bytes 0x80..0xFE, which are not valid UTF-8 in any arrangement
    if e == 7780 {
        let mut data: Vec<u8> = (0..n).map(|i| 0x80 + (i % 0x7F) as u8).collect();
        data.extend(std::iter::repeat_n(b'\n', t));
        return data;
    }
    let mut data: Vec<u8> = (0..n)
        .map(|i| if e > 0 && i % e == e - 1 { b'\n' } else { pattern_byte(i) })
        .collect();
    data.extend(std::iter::repeat_n(b'\n', t));
    data
}

pub fn fnv(data: &[u8]) -> u64 {
    let mut h: u64 = 0xcbf29ce484222325;
    for b in data {
        h ^= *b as u64;
        h = h.wrapping_mul(0x100000001b3);
    }
    h
}

/// `gen N [T [E]]`: writes the payload to stdout.
fn gen_main(env: &mut Env<VS>, args: Vec<Field>) -> BuiltinFuture<'_> {
    use yash_env::system::concurrency::WriteAll;
    Box::pin(async move {
        let n: usize = args.first().and_then(|a| a.value.parse().ok()).unwrap_or(0);
        let t: usize = args.get(1).and_then(|a| a.value.parse().ok()).unwrap_or(0);
        let e: usize = args.get(2).and_then(|a| a.value.parse().ok()).unwrap_or(0);
        let data = payload(n, t, e);
        match env.system.write_all(Fd::STDOUT, &data).await {
            Ok(_) => ExitStatus::SUCCESS.into(),
            Err(_) => ExitStatus::FAILURE.into(),
        }
    })
}

/// `sink [bufsize]`: reads stdin to EOF, verifying the generator pattern.
fn sink_main(env: &mut Env<VS>, args: Vec<Field>) -> BuiltinFuture<'_> {
    use yash_env::system::Read;
    Box::pin(async move {
        let bs: usize = args.first().and_then(|a| a.value.parse().ok()).unwrap_or(700);
        let mut buf = vec![0u8; bs.max(1)];
        let (mut total, mut nl, mut ok) = (0usize, 0usize, true);
        loop {
            match env.system.read(Fd::STDIN, &mut buf).await {
                Ok(0) => break,
                Ok(n) => {
                    for b in &buf[..n] {
                        if *b == b'\n' {
                            nl += 1;
                        } else {
                            if nl > 0 || *b != pattern_byte(total) {
                                ok = false;
                            }
                            total += 1;
                        }
                    }
                }
                Err(e) => {
                    trace(pid_of(env), format!("sink error {e:?}"));
                    return ExitStatus::FAILURE.into();
                }
            }
        }
        trace(pid_of(env), format!("sink n={total} nl={nl} ok={ok}"));
        ExitStatus::SUCCESS.into()
    })
}

/// `hsink [bufsize]`: reads stdin to EOF; traces length and hash of what it read.
fn hsink_main(env: &mut Env<VS>, args: Vec<Field>) -> BuiltinFuture<'_> {
    use yash_env::system::Read;
    Box::pin(async move {
        let bs: usize = args.first().and_then(|a| a.value.parse().ok()).unwrap_or(700);
        let mut buf = vec![0u8; bs.max(1)];
        let mut all = vec![];
        loop {
            match env.system.read(Fd::STDIN, &mut buf).await {
                Ok(0) => break,
                Ok(n) => all.extend_from_slice(&buf[..n]),
                Err(e) => {
                    trace(pid_of(env), format!("hsink error {e:?}"));
                    return ExitStatus::FAILURE.into();
                }
            }
        }
        trace(pid_of(env), format!("hsink n={} h={:x}", all.len(), fnv(&all)));
        ExitStatus::SUCCESS.into()
    })
}

/// `chk WORD`: traces length and hash of its first argument.
fn chk_main(env: &mut Env<VS>, args: Vec<Field>) -> BuiltinFuture<'_> {
    Box::pin(async move {
        let v = args.first().map(|f| f.value.clone()).unwrap_or_default();
        trace(pid_of(env), format!("chk n={} h={:x} argc={}", v.len(), fnv(v.as_bytes()), args.len()));
        ExitStatus::SUCCESS.into()
    })
}

/// `cat [bufsize]`: copies stdin to stdout.
fn cat_main(env: &mut Env<VS>, args: Vec<Field>) -> BuiltinFuture<'_> {
    use yash_env::system::Read;
    use yash_env::system::concurrency::WriteAll;
    Box::pin(async move {
        let bs: usize = args.first().and_then(|a| a.value.parse().ok()).unwrap_or(300);
        let mut buf = vec![0u8; bs.max(1)];
        loop {
            match env.system.read(Fd::STDIN, &mut buf).await {
                Ok(0) => return ExitStatus::SUCCESS.into(),
                Ok(n) => {
                    if env.system.write_all(Fd::STDOUT, &buf[..n]).await.is_err() {
                        return ExitStatus::FAILURE.into();
                    }
                }
                Err(_) => return ExitStatus::FAILURE.into(),
            }
        }
    })
}

/// `tick VAR N`: increments $VAR; succeeds while the new value is <= N.
fn tick_main(env: &mut Env<VS>, args: Vec<Field>) -> BuiltinFuture<'_> {
    Box::pin(async move {
        let name = args.first().map(|f| f.value.clone()).unwrap_or("_t".into());
        let n: i64 = args.get(1).and_then(|a| a.value.parse().ok()).unwrap_or(1);
        let cur: i64 = env
            .variables
            .get_scalar(&name)
            .and_then(|s| s.parse().ok())
            .unwrap_or(0);
        let new = cur + 1;
        let _ = env
            .variables
            .get_or_new(name, Scope::Global)
            .assign(new.to_string(), None);
        if new <= n {
            ExitStatus::SUCCESS.into()
        } else {
            ExitStatus::FAILURE.into()
        }
    })
}

/// `tock VAR N`: increments $VAR; fails while the new value is <= N.
fn tock_main(env: &mut Env<VS>, args: Vec<Field>) -> BuiltinFuture<'_> {
    Box::pin(async move {
        let r = tick_main(env, args).await;
        if r.exit_status() == ExitStatus::SUCCESS {
            ExitStatus::FAILURE.into()
        } else {
            ExitStatus::SUCCESS.into()
        }
    })
}

/// `pos [fd]`: traces the current offset of fd (default 0).
fn pos_main(env: &mut Env<VS>, args: Vec<Field>) -> BuiltinFuture<'_> {
    use yash_env::system::Seek;
    Box::pin(async move {
        let fd: i32 = args.first().and_then(|a| a.value.parse().ok()).unwrap_or(0);
        let r = with_suppressed_taps(|| env.system.lseek(Fd(fd), std::io::SeekFrom::Current(0)));
        trace(pid_of(env), format!("pos {r:?}"));
        env.exit_status.into()
    })
}

/// `jl TAG`: traces the shell's job list (without changing it) and the exit status of the
/// preceding command, and writes the separator line `--TAG--` to standard output.
fn jl_main(env: &mut Env<VS>, args: Vec<Field>) -> BuiltinFuture<'_> {
    use yash_env::system::concurrency::WriteAll;
    Box::pin(async move {
        let tag = args.first().map(|f| f.value.clone()).unwrap_or_default();
        let mut t = format!(
            "jl {tag} st={} bang={} cur={:?} prev={:?} |",
            env.exit_status.0,
            env.jobs.last_async_pid().0,
            env.jobs.current_job(),
            env.jobs.previous_job()
        );
        for (i, j) in env.jobs.iter() {
            t.push_str(&format!(
                "\x1e{i}\x1f{}\x1f{:?}\x1f{}\x1f{}\x1f{}",
                j.pid.0, j.state, j.state_changed, j.job_controlled, j.name
            ));
        }
        trace(pid_of(env), t);
        let _ = env.system.write_all(Fd::STDOUT, format!("--{tag}--\n").as_bytes()).await;
        env.exit_status.into()
    })
}

/// `mkpipe R W`: creates a pipe whose reading end is descriptor R and writing end W (both kept
/// open by the calling shell, so a reader of R blocks for ever).
fn mkpipe_main(env: &mut Env<VS>, args: Vec<Field>) -> BuiltinFuture<'_> {
    use yash_env::system::{Close, Dup, Pipe};
    Box::pin(async move {
        let n = |i: usize, d: i32| args.get(i).and_then(|f| f.value.parse::<i32>().ok()).unwrap_or(d);
        let (rd, wr) = (Fd(n(0, 8)), Fd(n(1, 9)));
        let Ok((r, w)) = env.system.pipe() else {
            return ExitStatus::FAILURE.into();
        };
        let _ = env.system.dup2(r, rd);
        let _ = env.system.dup2(w, wr);
        if r != rd && r != wr {
            let _ = env.system.close(r);
        }
        if w != wr && w != rd {
            let _ = env.system.close(w);
        }
        ExitStatus::SUCCESS.into()
    })
}

/// `stopself`: sends SIGSTOP to the calling process only.
fn stopself_main(env: &mut Env<VS>, _args: Vec<Field>) -> BuiltinFuture<'_> {
    use yash_env::system::{GetPid, SendSignal};
    Box::pin(async move {
        let pid = env.system.getpid();
        let _ = env.system.kill(pid, Some(signum(116))).await;
        ExitStatus::SUCCESS.into()
    })
}

/// `hang`: blocks until a signal terminates the process.
fn hang_main(env: &mut Env<VS>, _args: Vec<Field>) -> BuiltinFuture<'_> {
    Box::pin(async move {
        trace(pid_of(env), "hang".into());
        loop {
            env.wait_for_signals().await;
        }
    })
}

pub fn register_probes(env: &mut Env<VS>) {
    env.builtins.insert("jl", bi(jl_main));
    env.builtins.insert("hang", bi(hang_main));
    env.builtins.insert("stopself", bi(stopself_main));
    env.builtins.insert("mkpipe", bi(mkpipe_main));
    env.builtins.insert("echo", bi(echo_main));
    env.builtins.insert("p", bi(p_main));
    env.builtins.insert("s", bi(s_main));
    env.builtins.insert("args", bi(args_main));
    env.builtins.insert("snap", bi(snap_main));
    env.builtins.insert("fds", bi(fds_main));
    env.builtins.insert("nb", bi(nb_main));
    env.builtins.insert("gen", bi(gen_main));
    env.builtins.insert("sink", bi(sink_main));
    env.builtins.insert("cat", bi(cat_main));
    env.builtins.insert("hsink", bi(hsink_main));
    env.builtins.insert("chk", bi(chk_main));
    env.builtins.insert("tick", bi(tick_main));
    env.builtins.insert("tock", bi(tock_main));
    env.builtins.insert("pos", bi(pos_main));
}

// ---------------------------------------------------------------- the shell process

/// The shell process: `yash_cli`'s own `run_as_shell_process` (start-up arguments, environment
/// configuration, input, read-eval loop, EXIT trap), reached through the `verif-hooks` feature of
/// yash-cli with the argument vector of the case and an empty environment. The probe built-ins are
/// registered once the start-up configuration is done, before the input is opened.
async fn shell_main(env: &mut Env<VS>, args: Vec<String>, hook: Option<Rc<dyn Fn(&mut Env<VS>)>>) {
    let before_input = Box::new(move |any: &mut dyn std::any::Any| {
        let env = any.downcast_mut::<Env<VS>>().expect("the environment of the virtual shell");
        register_probes(env);
        env.variables
            .get_or_new("PATH", Scope::Global)
            .assign("/bin", None)
            .ok();
        if let Some(h) = hook {
            h(env);
        }
    });
    yash_cli::verif::run_as_shell_process(env, args, vec![], before_input).await;
}

/// How to prepare the virtual machine before the shell starts.
#[derive(Clone, Default)]
pub struct Setup {
    pub argv: Vec<String>,
    /// (path, content, mode)
    pub files: Vec<(String, Vec<u8>, u32)>,
    pub dirs: Vec<String>,
    pub symlinks: Vec<(String, String)>,
    /// content of /dev/stdin (a regular file on fd 0)
    pub stdin: Option<Vec<u8>>,
    /// If set, fd 0 of the shell is a pipe fed by a separate process writing these chunks
    pub stdin_pipe_chunks: Option<Vec<Vec<u8>>>,
    pub cwd: Option<String>,
    pub ignored_signals: Vec<i32>,
    pub env_hook: Option<Rc<dyn Fn(&mut Env<VS>)>>,
    pub state_hook: Option<Rc<dyn Fn(&mut SystemState)>>,
    /// when nothing else can run, an outside actor sends SIGCONT to every stopped process
    pub auto_continue: bool,
    /// the file system has no /dev/null (opening it fails)
    pub no_dev_null: bool,
}

impl Setup {
    pub fn script(s: &str) -> Setup {
        Setup {
            argv: vec!["yash".into(), "-c".into(), s.into()],
            ..Default::default()
        }
    }
    pub fn with_file(mut self, path: &str, content: &str) -> Self {
        self.files.push((path.into(), content.as_bytes().to_vec(), 0o644));
        self
    }
}

#[derive(Clone, Default)]
pub struct RunOpts {
    pub prefix: Vec<usize>,
    pub taps: bool,
    pub inject: Option<Inject>,
    pub log_taps: bool,
    /// deterministic scheduling policy: last runnable process instead of the first
    pub policy_last: bool,
}

#[derive(Clone, Debug, PartialEq, Eq)]
pub enum End {
    /// main shell process halted with this exit status (ExitStatus number)
    Exited(i32),
    /// main shell process killed by a signal
    Signaled(i32),
    /// nothing runnable, no timer, some process alive
    Deadlock,
    /// step horizon exceeded
    Livelock,
    /// main process still "running" although all tasks finished (should not happen)
    Other(String),
}

pub struct Run {
    pub stdout: String,
    pub stderr: String,
    pub end: End,
    pub decisions: Vec<Dec>,
    pub trace: Vec<TraceEntry>,
    pub state: Rc<RefCell<SystemState>>,
    pub taps: usize,
    pub target_taps: usize,
    pub tap_log: Vec<(i32, &'static str)>,
    pub discarded: bool,
    pub diverged: bool,
    pub steps: usize,
    /// children of any process whose state change was never collected (zombies) + alive ones
    pub unreaped: Vec<i32>,
    pub alive: Vec<i32>,
    pub panic: Option<String>,
    /// descriptor table of the main shell when the script ended (None if it never got there)
    pub final_fds: Option<String>,
}

pub const STUBS: &[&str] = &["true", "false", "pwd", "ext", "ext2", "envp", "sigs"];

fn mkfile(content: Vec<u8>, mode: u32, native: bool) -> Rc<RefCell<Inode>> {
    let mut inode = Inode::new([]);
    inode.body = FileBody::Regular {
        content,
        is_native_executable: native,
    };
    inode.permissions = Mode::from_bits_truncate(mode as _);
    Rc::new(RefCell::new(inode))
}

pub fn read_file(state: &Rc<RefCell<SystemState>>, path: &str) -> Option<Vec<u8>> {
    let st = state.borrow();
    let f = st.file_system.get(path).ok()?;
    let f = f.borrow();
    match &f.body {
        FileBody::Regular { content, .. } => Some(content.clone()),
        _ => None,
    }
}

pub fn run_once(setup: &Setup, opts: &RunOpts) -> Run {
    let _guard = crate::common::case_guard(
        serde_json::json!({"argv": setup.argv, "prefix": opts.prefix, "taps": opts.taps,
            "inject": opts.inject.as_ref().map(|i| i.at.clone()),
            "stdin": setup.stdin.as_ref().map(|s| String::from_utf8_lossy(s).into_owned())})
        .to_string(),
    );
    let system = VirtualSystem::new();
    let state = Rc::clone(&system.state);
    let sched = Rc::new(Sched::default());
    *sched.prefix.borrow_mut() = opts.prefix.clone();
    sched.use_taps.set(opts.taps);
    *sched.inject.borrow_mut() = opts.inject.clone();
    sched.policy_last.set(opts.policy_last);
    *sched.state.borrow_mut() = Some(Rc::clone(&state));
    if opts.log_taps {
        *sched.tap_log.borrow_mut() = Some(vec![]);
    }
    RUN.with(|r| {
        *r.borrow_mut() = RunCtx {
            trace: vec![],
            state: Some(Rc::clone(&state)),
            ofds: vec![],
            inodes: vec![],
            sched: Some(Rc::clone(&sched)),
            final_fds: None,
        }
    });
    {
        let mut st = state.borrow_mut();
        st.executor = Some(sched.clone() as Rc<dyn Executor>);
        st.now = Some(Instant::now());
        let s2 = Rc::downgrade(&sched);
        st.verif_tap = Some(VerifTap(Rc::new(move |pid, name| {
            if let Some(s) = s2.upgrade() {
                s.tap(pid, name)
            }
        })));
        for name in STUBS {
            st.file_system
                .save(format!("/bin/{name}"), mkfile(vec![], 0o755, true))
                .unwrap();
        }
        if !setup.no_dev_null {
            st.file_system
                .save("/dev/null", Rc::new(RefCell::new(Inode::new([]))))
                .unwrap();
        }
        for d in &setup.dirs {
            st.file_system
                .save(
                    d,
                    Rc::new(RefCell::new(Inode {
                        body: FileBody::Directory {
                            files: Default::default(),
                        },
                        permissions: Mode::from_bits_truncate(0o755),
                    })),
                )
                .unwrap();
        }
        for (p, c, m) in &setup.files {
            st.file_system.save(p, mkfile(c.clone(), *m, false)).unwrap();
        }
        for (p, t) in &setup.symlinks {
            st.file_system
                .save(
                    p,
                    Rc::new(RefCell::new(Inode {
                        body: FileBody::Symlink {
                            target: t.clone().into(),
                        },
                        permissions: Mode::from_bits_truncate(0o777),
                    })),
                )
                .unwrap();
        }
        if let Some(content) = &setup.stdin {
            let f = st.file_system.get("/dev/stdin").unwrap();
            f.borrow_mut().body = FileBody::Regular {
                content: content.clone(),
                is_native_executable: false,
            };
        }
        if let Some(cwd) = &setup.cwd {
            st.processes
                .get_mut(&Pid(2))
                .unwrap()
                .chdir(cwd.clone().into());
        }
        for &s in &setup.ignored_signals {
            st.processes
                .get_mut(&Pid(2))
                .unwrap()
                .set_disposition(signum(s), yash_env::system::Disposition::Ignore);
        }
        if let Some(h) = &setup.state_hook {
            h(&mut st);
        }
    }
    // stdin fed through a pipe by an independent writer process (pid 3)
    if let Some(chunks) = &setup.stdin_pipe_chunks {
        use yash_env::system::Pipe;
        use yash_env::system::r#virtual::Process;
        let feeder = Process::with_parent_and_group(Pid(1), Pid(3));
        state.borrow_mut().processes.insert(Pid(3), feeder);
        let fsys0 = VirtualSystem {
            state: Rc::clone(&state),
            process_id: Pid(3),
        };
        sched.suppress.set(1);
        let (r, w) = fsys0.pipe().unwrap();
        sched.suppress.set(0);
        assert_eq!(w, Fd(1));
        let mut st = state.borrow_mut();
        let body = st.processes.get_mut(&Pid(3)).unwrap().close_fd(r).unwrap();
        let shell = st.processes.get_mut(&Pid(2)).unwrap();
        shell.close_fd(Fd(0));
        shell.set_fd(Fd(0), body).ok().unwrap();
        drop(st);
        let fsys = VirtualSystem {
            state: Rc::clone(&state),
            process_id: Pid(3),
        };
        let chunks = chunks.clone();
        // The writer is a bare future on the raw simulated system (no run loop of
        // its own): it writes one chunk, yields to the scheduler, writes the next.
        let feeder_task: Task = Box::pin(async move {
            use yash_env::system::{Exit, Write};
            for c in chunks {
                let mut rest: &[u8] = &c;
                while !rest.is_empty() {
                    match fsys.write(Fd(1), rest).await {
                        Ok(n) => rest = &rest[n..],
                        Err(_) => break,
                    }
                }
                let mut yielded = false;
                std::future::poll_fn(|cx| {
                    if yielded {
                        Poll::Ready(())
                    } else {
                        yielded = true;
                        cx.waker().wake_by_ref();
                        Poll::Pending
                    }
                })
                .await;
            }
            {
                use yash_env::system::Close;
                let _ = fsys.close(Fd(1));
            }
            drop(fsys.exit(ExitStatus::SUCCESS));
        });
        // spawned after the shell task below so that the shell is task 0
        sched.tasks.borrow_mut().push(None); // placeholder for task 0
        sched.tasks.borrow_mut().push(Some(feeder_task));
        sched.shared.woken.lock().unwrap().insert(1);
    }

    let concurrent = Rc::new(Concurrent::new(system));
    let runner = Rc::clone(&concurrent);
    let args = setup.argv.clone();
    let hook = setup.env_hook.clone();
    let main_task: Task = Box::pin(async move {
        let task = async move {
            let mut env = Env::with_system(concurrent);
            shell_main(&mut env, args, hook).await;
            // descriptor table of the shell when the script has ended (before exit closes everything)
            let st = RUN.with(|r| r.borrow().state.clone());
            if let Some(st) = st {
                let t = strip_offsets(&fd_table(&st, Pid(2)));
                RUN.with(|r| r.borrow_mut().final_fds = Some(t));
            }
            yash_env::semantics::exit_or_raise(&env.system, env.exit_status).await
        };
        runner.run_virtual(task).await
    });
    if setup.stdin_pipe_chunks.is_some() {
        sched.tasks.borrow_mut()[0] = Some(main_task);
        sched.shared.woken.lock().unwrap().insert(0);
    } else {
        sched.spawn(main_task).unwrap();
    }

    let mut end: Option<End> = None;
    let mut conts = 0;
    let res = crate::common::catch(|| {
        loop {
            if sched.steps.get() > MAX_STEPS {
                end = Some(End::Livelock);
                break;
            }
            let runnable = sched.runnable();
            if runnable.is_empty() {
                if sched.tasks.borrow().iter().all(|t| t.is_none()) {
                    break;
                }
                let mut st = state.borrow_mut();
                if let Some(t) = st.scheduled_wakers.next_wake_time() {
                    st.advance_time(t);
                    sched.steps.set(sched.steps.get() + 1);
                    continue;
                }
                drop(st);
                // an outside actor continues stopped processes once everything else is blocked
                if setup.auto_continue && conts < 20 {
                    let stopped: Vec<Pid> = state
                        .borrow()
                        .processes
                        .iter()
                        .filter(|(_, p)| matches!(p.state(), ProcessState::Halted(yash_env::job::ProcessResult::Stopped(_))))
                        .map(|(pid, _)| *pid)
                        .collect();
                    if !stopped.is_empty() {
                        conts += 1;
                        for pid in stopped {
                            raise_on(&state, pid, 103);
                        }
                        continue;
                    }
                }
                // the main shell is blocked for ever (processes that outlive an exited main shell
                // are reported in `Run::alive`, not as a deadlock)
                let alive = state.borrow().processes.get(&Pid(2)).is_some_and(|p| p.state().is_alive());
                if alive {
                    end = Some(End::Deadlock);
                }
                break;
            }
            let c = if runnable.len() > 1 {
                sched.decide(runnable.len(), false)
            } else {
                0
            };
            sched.poll_task(runnable[c]);
        }
    });
    state.borrow_mut().verif_tap = None;
    let panic = res.err();
    let (stdout, stderr) = (
        String::from_utf8_lossy(&read_file(&state, "/dev/stdout").unwrap_or_default()).into_owned(),
        String::from_utf8_lossy(&read_file(&state, "/dev/stderr").unwrap_or_default()).into_owned(),
    );
    let (end, unreaped, alive) = {
        let st = state.borrow();
        let main = &st.processes[&Pid(2)];
        let end = end.unwrap_or_else(|| match main.state() {
            ProcessState::Halted(yash_env::job::ProcessResult::Exited(s)) => End::Exited(s.0),
            ProcessState::Halted(yash_env::job::ProcessResult::Signaled { signal, .. }) => {
                End::Signaled(signal.as_raw())
            }
            other => End::Other(format!("{other:?}")),
        });
        let unreaped = st
            .processes
            .iter()
            .filter(|(pid, p)| pid.0 > 3 - (setup.stdin_pipe_chunks.is_none() as i32) && p.state_has_changed() && !p.state().is_alive())
            .map(|(pid, _)| pid.0)
            .collect();
        let alive = st
            .processes
            .iter()
            .filter(|(_, p)| p.state().is_alive())
            .map(|(pid, _)| pid.0)
            .collect();
        (end, unreaped, alive)
    };
    let trace = RUN.with(|r| std::mem::take(&mut r.borrow_mut().trace));
    let final_fds = RUN.with(|r| r.borrow_mut().final_fds.take());
    RUN.with(|r| *r.borrow_mut() = RunCtx::default());
    // break Rc cycles: drop tasks
    sched.tasks.borrow_mut().clear();
    state.borrow_mut().executor = None;
    Run {
        stdout,
        stderr,
        end,
        decisions: sched.decisions.borrow().clone(),
        trace,
        state,
        taps: sched.taps.get(),
        target_taps: sched.target_taps.get(),
        tap_log: sched.tap_log.borrow_mut().take().unwrap_or_default(),
        discarded: sched.discarded.get(),
        diverged: sched.diverged.get(),
        steps: sched.steps.get(),
        unreaped,
        alive,
        panic,
        final_fds,
    }
}

impl Run {
    /// Process "path names": pid -> position in the process tree (stable across schedules
    /// for race-free programs: k-th child of its parent in creation order).
    pub fn proc_names(&self) -> HashMap<i32, String> {
        let st = self.state.borrow();
        let mut names: HashMap<i32, String> = HashMap::new();
        let mut counts: HashMap<i32, usize> = HashMap::new();
        names.insert(2, "M".into());
        for (pid, p) in st.processes.iter() {
            if pid.0 == 3 && p.ppid().0 == 1 {
                names.insert(3, "F".into());
            }
            if names.contains_key(&pid.0) {
                continue;
            }
            let pp = p.ppid().0;
            let k = counts.entry(pp).or_default();
            *k += 1;
            let pn = names.get(&pp).cloned().unwrap_or_else(|| format!("?{pp}"));
            names.insert(pid.0, format!("{pn}.{k}"));
        }
        names
    }

    /// The trace grouped by process (by tree position), each process's entries in order.
    pub fn trace_by_proc(&self) -> BTreeMap<String, Vec<String>> {
        let names = self.proc_names();
        let mut m: BTreeMap<String, Vec<String>> = BTreeMap::new();
        for e in &self.trace {
            m.entry(names.get(&e.pid).cloned().unwrap_or_else(|| format!("?{}", e.pid)))
                .or_default()
                .push(e.text.clone());
        }
        m
    }

    pub fn main_trace(&self) -> Vec<String> {
        self.trace
            .iter()
            .filter(|e| e.pid == 2)
            .map(|e| e.text.clone())
            .collect()
    }

    pub fn all_trace(&self) -> Vec<String> {
        self.trace.iter().map(|e| e.text.clone()).collect()
    }
}

// ---------------------------------------------------------------- explorer

#[derive(Clone, Debug)]
pub struct Explore {
    /// maximum number of non-default choices (usize::MAX = unbounded)
    pub max_dev: usize,
    pub taps: bool,
    pub cap_runs: usize,
}

#[derive(Clone, Debug, Default)]
pub struct ExploreStats {
    pub runs: usize,
    pub decision_points: usize,
    pub max_depth: usize,
    pub capped: bool,
    pub discarded: usize,
    pub diverged: usize,
    pub with_deviation: usize,
}

/// Deviation-bounded stateless DFS: run a prefix, default choice 0 afterwards,
/// branch on every later decision point. `on_run` gets each completed execution
/// together with the prefix that produced it; returning false stops early.
pub fn explore(
    setup: &Setup,
    ex: &Explore,
    base: &RunOpts,
    mut on_run: impl FnMut(&Run, &[usize]) -> bool,
) -> ExploreStats {
    let mut stats = ExploreStats::default();
    let mut stack: Vec<Vec<usize>> = vec![vec![]];
    while let Some(prefix) = stack.pop() {
        let mut opts = base.clone();
        opts.prefix = prefix.clone();
        opts.taps = ex.taps;
        let run = run_once(setup, &opts);
        stats.runs += 1;
        stats.decision_points += run.decisions.len().saturating_sub(prefix.len());
        stats.max_depth = stats.max_depth.max(run.decisions.len());
        let devs = prefix.iter().filter(|&&c| c != 0).count();
        if devs > 0 {
            stats.with_deviation += 1;
        }
        if run.diverged {
            stats.diverged += 1;
        }
        if run.discarded {
            stats.discarded += 1;
        }
        if devs < ex.max_dev {
            for i in prefix.len()..run.decisions.len() {
                let n = run.decisions[i].n;
                for alt in 1..n {
                    let mut p: Vec<usize> = run.decisions[..i].iter().map(|d| d.choice).collect();
                    p.push(alt);
                    stack.push(p);
                }
            }
        }
        let keep_going = if run.discarded { true } else { on_run(&run, &prefix) };
        if !keep_going {
            break;
        }
        if stats.runs >= ex.cap_runs && !stack.is_empty() {
            stats.capped = true;
            break;
        }
    }
    stats
}
