//! Development helper: `yv sh [--taps] [--dev N] [--explore] SCRIPT` runs a script in vsh.
use crate::vsh::*;

pub fn main(args: &[String]) -> i32 {
    let mut taps = false;
    let mut dev = usize::MAX;
    let mut do_explore = false;
    let mut stdin: Option<String> = None;
    let mut inject: Option<usize> = None;
    let mut script = String::new();
    let mut i = 0;
    while i < args.len() {
        match args[i].as_str() {
            "--taps" => taps = true,
            "--interactive" => {}
            "--explore" => do_explore = true,
            "--dev" => {
                dev = args[i + 1].parse().unwrap();
                i += 1;
            }
            "--inject" => {
                inject = Some(args[i + 1].parse().unwrap());
                i += 1;
            }
            "--stdin" => {
                stdin = Some(args[i + 1].clone());
                i += 1;
            }
            s => script = s.to_string(),
        }
        i += 1;
    }
    let mut setup = Setup::script(&script);
    setup.auto_continue = script.contains("stopself");
    if args.iter().any(|a| a == "--interactive") {
        setup.argv = vec!["yash".into(), "-i".into(), "-s".into()];
        setup.stdin = Some(script.clone().into_bytes());
    }
    if let Some(s) = stdin {
        setup.argv = vec!["yash".into(), "-s".into()];
        setup.stdin = Some(s.into_bytes());
    }
    if !do_explore {
        let r = run_once(&setup, &RunOpts { taps: false, log_taps: true, inject: inject.map(|k| Inject { at: vec![(k, 124)], pid: 2 }), ..Default::default() });
        println!("end={:?} steps={} taps={} decisions={}", r.end, r.steps, r.taps, r.decisions.len());
        println!("stdout={:?}\nstderr={:?}", r.stdout, r.stderr);
        for (p, t) in r.trace_by_proc() {
            println!("  {p}: {t:?}");
        }
        println!("unreaped={:?} alive={:?} panic={:?}", r.unreaped, r.alive, r.panic);
        return 0;
    }
    let mut outcomes: std::collections::HashMap<String, (usize, Vec<usize>)> = Default::default();
    let t0 = std::time::Instant::now();
    let stats = explore(
        &setup,
        &Explore { max_dev: dev, taps, cap_runs: 1_000_000 },
        &RunOpts::default(),
        |r, prefix| {
            let key = format!("{:?}|{}|{}|{:?}|{:?}|{:?}", r.end, r.stdout, r.stderr, r.trace_by_proc(), r.unreaped, r.panic);
            let e = outcomes.entry(key).or_insert((0, prefix.to_vec()));
            e.0 += 1;
            true
        },
    );
    println!("{stats:?} time={:?}", t0.elapsed());
    for (k, (n, p)) in &outcomes {
        println!("{n}x first_prefix={p:?}\n   {k}");
    }
    0
}
