//! The same shell glue as `vsh::shell_main`, generic over the system, used to run
//! the shell on the real OS (`yv real-shell ARGS…`) with the same generic probe
//! built-ins (`echo`, `cat`, `s`) as the simulated side of C19.

use std::cell::RefCell;
use std::future::Future;
use std::ops::ControlFlow::{Break, Continue};
use std::pin::Pin;
use std::rc::Rc;
use yash_env::Env;
use yash_env::builtin::{Builtin, Type};
use yash_env::io::Fd;
use yash_env::semantics::{Divert, ExitStatus, Field};
use yash_env::system::Concurrent;
use yash_env::system::real::RealSystem;
use yash_env::system::{Chdir, Disposition, GetCwd, GetUid, Sigaction, Signals, Sysconf, TcGetPgrp, Times, Umask, Write};
use yash_env::system::resource::GetRlimit;
use yash_env::variable::Scope;
use yash_semantics::Runtime;
use yash_semantics::read_eval_loop;
use yash_semantics::trap::run_exit_trap;

type Fut<'a> = Pin<Box<dyn Future<Output = yash_env::builtin::Result> + 'a>>;

pub fn gecho<S: Runtime + 'static>(env: &mut Env<S>, args: Vec<Field>) -> Fut<'_> {
    Box::pin(async move {
        let msg = args.iter().map(|f| f.value.clone()).collect::<Vec<_>>().join(" ") + "\n";
        match env.system.write_all(Fd::STDOUT, msg.as_bytes()).await {
            Ok(_) => ExitStatus::SUCCESS.into(),
            Err(_) => ExitStatus::FAILURE.into(),
        }
    })
}

pub fn gcat<S: Runtime + 'static>(env: &mut Env<S>, _args: Vec<Field>) -> Fut<'_> {
    Box::pin(async move {
        let mut buf = vec![0u8; 300];
        loop {
            match env.system.read(Fd::STDIN, &mut buf).await {
                Ok(0) => return ExitStatus::SUCCESS.into(),
                Ok(n) => {
                    if env.system.write_all(Fd::STDOUT, &buf[..n]).await.is_err() {
                        return ExitStatus::FAILURE.into();
                    }
                }
                Err(_) => return ExitStatus::FAILURE.into(),
            }
        }
    })
}

pub fn gs<S: Runtime + 'static>(_env: &mut Env<S>, args: Vec<Field>) -> Fut<'_> {
    Box::pin(async move {
        let st = args.first().and_then(|f| f.value.parse::<i32>().ok()).unwrap_or(0);
        ExitStatus(st).into()
    })
}

/// `tick VAR N`: increments $VAR; succeeds while the new value is <= N (bounded loops)
pub fn gtick<S: Runtime + 'static>(env: &mut Env<S>, args: Vec<Field>) -> Fut<'_> {
    Box::pin(async move {
        let name = args.first().map(|f| f.value.clone()).unwrap_or("_t".into());
        let n: i64 = args.get(1).and_then(|a| a.value.parse().ok()).unwrap_or(1);
        let cur: i64 = env.variables.get_scalar(&name).and_then(|s| s.parse().ok()).unwrap_or(0);
        let new = cur + 1;
        let _ = env.variables.get_or_new(name, Scope::Global).assign(new.to_string(), None);
        if new <= n { ExitStatus::SUCCESS.into() } else { ExitStatus::FAILURE.into() }
    })
}

pub fn register_generic<S: Runtime + 'static>(env: &mut Env<S>) {
    env.builtins.insert("echo", Builtin::new(Type::Mandatory, gecho::<S>));
    env.builtins.insert("cat", Builtin::new(Type::Mandatory, gcat::<S>));
    env.builtins.insert("s", Builtin::new(Type::Mandatory, gs::<S>));
    env.builtins.insert("tick", Builtin::new(Type::Mandatory, gtick::<S>));
}

pub async fn generic_shell_main<S>(env: &mut Env<S>, args: Vec<String>)
where
    S: Chdir + Clone + GetCwd + GetRlimit + GetUid + Runtime + Sysconf + TcGetPgrp + Times + Umask + Write + 'static,
{
    // yash-cli's own entry point (feature `verif-hooks`), with an empty environment
    let before_input = Box::new(move |any: &mut dyn std::any::Any| {
        let env = any.downcast_mut::<Env<S>>().expect("the environment of the shell");
        register_generic(env);
        env.variables.get_or_new("PATH", Scope::Global).assign("/bin", None).ok();
    });
    yash_cli::verif::run_as_shell_process(env, args, vec![], before_input).await;
}

/// Entry point of `yv real-shell ARGS…`: never returns.
pub fn real_shell(args: Vec<String>) -> ! {
    // SAFETY: the only RealSystem instance of this process
    let system = unsafe { RealSystem::new() };
    system.sigaction(RealSystem::SIGPIPE, Disposition::Default).ok();
    let system = Rc::new(Concurrent::new(system));
    let runner = Rc::clone(&system);
    let task = async {
        let mut env = Env::with_system(system);
        generic_shell_main(&mut env, args).await;
        yash_env::semantics::exit_or_raise(&env.system, env.exit_status).await
    };
    runner.run_real(task)
}
