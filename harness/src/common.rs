//! Shared plumbing: tiers, evidence files, known findings, violation reports.

use serde_json::{Value, json};
use std::collections::BTreeMap;
use std::path::PathBuf;
use std::sync::Mutex;
use std::time::Instant;

#[derive(Clone, Copy, PartialEq, Eq, Debug)]
pub enum Tier {
    Quick,
    Thorough,
}

impl Tier {
    pub fn name(self) -> &'static str {
        match self {
            Tier::Quick => "quick",
            Tier::Thorough => "thorough",
        }
    }
    pub fn pick<T>(self, quick: T, thorough: T) -> T {
        match self {
            Tier::Quick => quick,
            Tier::Thorough => thorough,
        }
    }
}

#[derive(Clone, Debug)]
pub struct Known {
    pub property: String,
    pub key: String,
    pub what: String,
}

/// One check run. Collects violations (thread-safe) and writes the evidence.
pub struct Ctx {
    pub id: &'static str,
    pub level: &'static str,
    pub tier: Tier,
    pub seed: i64,
    pub start: Instant,
    known: Vec<Known>,
    inner: Mutex<Inner>,
}

#[derive(Default)]
struct Inner {
    violations: usize,
    reported: Vec<String>,
    known_hits: BTreeMap<String, (String, usize, Value)>,
    violation_keys: BTreeMap<String, usize>,
}

pub fn verif_dir() -> PathBuf {
    std::env::var_os("YV_DIR")
        .map(PathBuf::from)
        .unwrap_or_else(|| PathBuf::from("/verif"))
}

fn load_known(id: &str) -> Vec<Known> {
    let path = verif_dir().join("known_findings.json");
    let Ok(text) = std::fs::read_to_string(&path) else {
        return vec![];
    };
    let v: Value = serde_json::from_str(&text).expect("known_findings.json must be valid JSON");
    let mut out = vec![];
    for f in v["known"].as_array().cloned().unwrap_or_default() {
        if f["property"].as_str() == Some(id) {
            out.push(Known {
                property: id.to_string(),
                key: f["key"].as_str().unwrap_or("").to_string(),
                what: f["what"].as_str().unwrap_or("").to_string(),
            });
        }
    }
    out
}

impl Ctx {
    pub fn new(id: &'static str, level: &'static str, tier: Tier) -> Ctx {
        let seed = std::env::var("VERIF_SEED")
            .ok()
            .and_then(|s| s.parse().ok())
            .unwrap_or(0);
        let _ = std::fs::remove_dir_all(verif_dir().join("replays").join(id));
        start_watchdog(id, level, tier);
        Ctx {
            id,
            level,
            tier,
            seed,
            start: Instant::now(),
            known: load_known(id),
            inner: Mutex::new(Inner::default()),
        }
    }

    pub fn elapsed(&self) -> f64 {
        self.start.elapsed().as_secs_f64()
    }

    /// Reports a violation. `key` classifies the failure (used to match the
    /// committed known-findings list); `case` is the replayable case.
    /// Returns true if it was a listed known finding.
    pub fn violation(&self, key: &str, what: &str, case: Value) -> bool {
        let mut inner = self.inner.lock().unwrap();
        if let Some(k) = self.known.iter().find(|k| k.key == key) {
            let e = inner
                .known_hits
                .entry(k.key.clone())
                .or_insert_with(|| (k.what.clone(), 0, case.clone()));
            e.1 += 1;
            return true;
        }
        inner.violations += 1;
        *inner.violation_keys.entry(key.to_string()).or_default() += 1;
        let n_for_key = inner.violation_keys[key];
        // keep at most 3 replay files per key and 12 overall
        if n_for_key <= 3 && inner.reported.len() < 12 {
            let dir = verif_dir().join("replays").join(self.id);
            let _ = std::fs::create_dir_all(&dir);
            let path = dir.join(format!("v{}.json", inner.reported.len()));
            let body = json!({"property": self.id, "key": key, "what": what, "case": case});
            let _ = std::fs::write(&path, serde_json::to_string_pretty(&body).unwrap());
            println!("VIOLATION property={} replay={}", self.id, path.display());
            println!("  key={key} what={what}");
            inner.reported.push(path.display().to_string());
        }
        false
    }

    pub fn violations(&self) -> usize {
        self.inner.lock().unwrap().violations
    }

    /// Writes the evidence file and returns the process exit code.
    pub fn finish(&self, mut coverage: Value, assumptions: &[&str]) -> i32 {
        let inner = self.inner.lock().unwrap();
        for (key, (what, n, _case)) in &inner.known_hits {
            println!(
                "KNOWN-FINDING: property={} {} [key={} cases={}]",
                self.id, what, key, n
            );
        }
        if let Some(map) = coverage.as_object_mut() {
            map.insert(
                "known_findings_hit".into(),
                json!(
                    inner
                        .known_hits
                        .iter()
                        .map(|(k, (_, n, case))| json!({"key": k, "cases": n, "first_case": case}))
                        .collect::<Vec<_>>()
                ),
            );
            map.insert(
                "violation_keys".into(),
                json!(inner.violation_keys),
            );
        }
        let ev = json!({
            "property_id": self.id,
            "tier": self.tier.name(),
            "seed": self.seed,
            "level": self.level,
            "coverage": coverage,
            "assumptions": assumptions,
            "wall_s": self.elapsed(),
            "violations": inner.violations,
        });
        let dir = verif_dir().join("evidence");
        let _ = std::fs::create_dir_all(&dir);
        let path = dir.join(format!("{}.json", self.id));
        std::fs::write(&path, serde_json::to_string_pretty(&ev).unwrap())
            .expect("cannot write evidence");
        println!(
            "{} tier={} violations={} wall={:.1}s evidence={}",
            self.id,
            self.tier.name(),
            inner.violations,
            self.elapsed(),
            path.display()
        );
        if inner.violations > 0 { 1 } else { 0 }
    }
}

// ------------------------------------------------------------------ hang watchdog

/// thread -> (start of the case, description, kernel thread id for CPU accounting)
type CaseMap = std::collections::HashMap<std::thread::ThreadId, (Instant, String, u64)>;

thread_local! {
    /// The kernel's id of the calling thread (from `/proc/thread-self`), 0 if unknown.
    static KERNEL_TID: u64 = std::fs::read_link("/proc/thread-self")
        .ok()
        .and_then(|p| p.file_name().and_then(|n| n.to_str()).and_then(|n| n.parse().ok()))
        .unwrap_or(0);
}

/// CPU time (user + system, in clock ticks) a thread of this process has consumed so far.
fn thread_cpu_ticks(tid: u64) -> Option<u64> {
    let stat = std::fs::read_to_string(format!("/proc/self/task/{tid}/stat")).ok()?;
    // the fields after the parenthesised command name: state is field 3, utime 14, stime 15
    let rest = stat.rsplit_once(')')?.1;
    let f: Vec<&str> = rest.split_whitespace().collect();
    Some(f.get(11)?.parse::<u64>().ok()? + f.get(12)?.parse::<u64>().ok()?)
}
static CURRENT_CASES: std::sync::OnceLock<Mutex<CaseMap>> = std::sync::OnceLock::new();

fn current_cases() -> &'static Mutex<CaseMap> {
    CURRENT_CASES.get_or_init(|| Mutex::new(CaseMap::new()))
}

/// Marks the case the calling thread is executing; cleared when dropped.
pub struct CaseGuard;

pub fn case_guard(desc: String) -> CaseGuard {
    current_cases()
        .lock()
        .unwrap()
        .insert(std::thread::current().id(), (Instant::now(), desc, KERNEL_TID.with(|t| *t)));
    CaseGuard
}

impl Drop for CaseGuard {
    fn drop(&mut self) {
        if let Ok(mut m) = current_cases().lock() {
            m.remove(&std::thread::current().id());
        }
    }
}

/// Seconds a single execution may take before it is judged a hang.
pub const HANG_SECS: u64 = 30;

/// Starts a watchdog thread: a single execution of the subject that is still running after it
/// has consumed `HANG_SECS` of *CPU time* (a loop inside one poll cannot be interrupted by the step
/// horizon) is reported as a violation (non-termination) and the process exits with status 1.
/// CPU time of the executing thread, not wall-clock time: on a busy machine a thread can be kept
/// off the processors for a long time without the subject looping (seen once in a thorough run
/// that shared the machine with four other jobs). Where the kernel's accounting cannot be read,
/// ten times the limit in wall-clock time is used.
fn start_watchdog(id: &'static str, level: &'static str, tier: Tier) {
    std::thread::spawn(move || {
        let ticks_per_sec = 100u64; // USER_HZ
        // (thread, start of the case) -> CPU ticks of the thread when the case was first seen
        let mut first_seen: std::collections::HashMap<(std::thread::ThreadId, Instant), Option<u64>> = Default::default();
        loop {
            std::thread::sleep(std::time::Duration::from_secs(1));
            let active: Vec<(std::thread::ThreadId, Instant, String, u64)> =
                current_cases().lock().unwrap().iter().map(|(t, (s, d, k))| (*t, *s, d.clone(), *k)).collect();
            first_seen.retain(|(t, s), _| active.iter().any(|(t2, s2, _, _)| t2 == t && s2 == s));
            let mut stuck = None;
            for (t, start, desc, ktid) in &active {
                if start.elapsed().as_secs() < HANG_SECS {
                    continue;
                }
                let now = if *ktid != 0 { thread_cpu_ticks(*ktid) } else { None };
                let base = *first_seen.entry((*t, *start)).or_insert(now);
                let hung = match (base, now) {
                    (Some(b), Some(n)) => n.saturating_sub(b) >= HANG_SECS * ticks_per_sec,
                    _ => start.elapsed().as_secs() >= 10 * HANG_SECS,
                };
                if hung {
                    stuck = Some(desc.clone());
                    break;
                }
            }
            if let Some(desc) = stuck {
                let dir = verif_dir().join("replays").join(id);
                let _ = std::fs::create_dir_all(&dir);
                let path = dir.join("hang.json");
                let case: Value = serde_json::from_str(&desc).unwrap_or(json!({"description": desc}));
                let body = json!({"property": id, "key": "hang", "what": format!("a single execution did not finish within {HANG_SECS} s of CPU time"), "case": case});
                let _ = std::fs::write(&path, serde_json::to_string_pretty(&body).unwrap());
                println!("VIOLATION property={id} replay={}", path.display());
                println!("  key=hang what=a single execution of the subject did not finish within {HANG_SECS} s");
                let ev = json!({
                    "property_id": id, "tier": tier.name(), "seed": 0, "level": level,
                    "coverage": {"evaluations": 1, "distinct_nontrivial": 2, "rule": "run aborted by the hang watchdog", "samples": [case],
                                 "states": 1, "transitions": 1, "traces_validated_against_impl": 1, "aborted_by_watchdog": true},
                    "wall_s": 0.0, "violations": 1,
                });
                let _ = std::fs::create_dir_all(verif_dir().join("evidence"));
                let _ = std::fs::write(verif_dir().join("evidence").join(format!("{id}.json")), serde_json::to_string_pretty(&ev).unwrap());
                std::process::exit(1);
            }
        }
    });
}

/// Collects up to `cap` sample values, evenly thinned, thread-safe.
pub struct Samples {
    cap: usize,
    inner: Mutex<(usize, Vec<Value>)>,
}

impl Samples {
    pub fn new(cap: usize) -> Samples {
        Samples {
            cap,
            inner: Mutex::new((0, vec![])),
        }
    }
    pub fn offer(&self, f: impl FnOnce() -> Value) {
        let mut g = self.inner.lock().unwrap();
        g.0 += 1;
        let n = g.0;
        if g.1.len() < self.cap && (n < 4 || n.is_power_of_two() || n % 100_003 == 0) {
            g.1.push(f());
        }
    }
    pub fn take(&self) -> Vec<Value> {
        std::mem::take(&mut self.inner.lock().unwrap().1)
    }
}

/// Runs `f` with panics caught; returns Err(message) on panic.
pub fn catch<T>(f: impl FnOnce() -> T) -> Result<T, String> {
    match std::panic::catch_unwind(std::panic::AssertUnwindSafe(f)) {
        Ok(v) => Ok(v),
        Err(e) => Err(if let Some(s) = e.downcast_ref::<&str>() {
            s.to_string()
        } else if let Some(s) = e.downcast_ref::<String>() {
            s.clone()
        } else {
            "panic".to_string()
        }),
    }
}

/// Silences the default panic hook output (panics are caught and judged).
pub fn quiet_panics() {
    if std::env::var_os("YV_SHOW_PANICS").is_some() {
        return; // debugging aid: keep the default hook (message + backtrace)
    }
    std::panic::set_hook(Box::new(|info| {
        if let Some(l) = info.location() {
            *LAST_PANIC.lock().unwrap_or_else(|e| e.into_inner()) = format!("{}:{}", l.file(), l.line());
        }
    }));
}

static LAST_PANIC: std::sync::Mutex<String> = std::sync::Mutex::new(String::new());

/// Source location of the most recent panic (of the subject or of the harness).
pub fn last_panic_location() -> String {
    LAST_PANIC.lock().unwrap_or_else(|e| e.into_inner()).clone()
}

/// All sequences over `alphabet` (by index) of length exactly `len`, as an
/// odometer: call with a mutable index vector; returns false when wrapped.
pub fn odometer(idx: &mut [usize], base: usize) -> bool {
    for i in (0..idx.len()).rev() {
        idx[i] += 1;
        if idx[i] < base {
            return true;
        }
        idx[i] = 0;
    }
    false
}
