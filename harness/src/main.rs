#![allow(dead_code)]
#![recursion_limit = "512"]
mod common;
mod dev;
mod progs;
mod realsh;
mod props;
mod refsh;
mod vsh;

use common::Tier;

fn main() {
    let args: Vec<String> = std::env::args().collect();
    if args.len() < 2 {
        eprintln!("usage: yv <property> [--tier quick|thorough] [--replay file]");
        std::process::exit(2);
    }
    if args[1] == "real-shell" {
        let mut a = vec!["yash".to_string()];
        a.extend(args[2..].iter().cloned());
        realsh::real_shell(a);
    }
    if args[1] == "parse-probe" {
        // parses one tower of nested constructs; used as a subprocess by C06 (a stack overflow
        // aborts the process, an exponential parse never ends)
        std::process::exit(props::c06::parse_probe(&args[2], args[3].parse().unwrap_or(1)));
    }
    if args[1] == "arith-probe" {
        std::process::exit(props::c03::arith_probe(&args[2], args[3].parse().unwrap_or(1)));
    }
    if args[1] == "sh" {
        std::process::exit(dev::main(&args[2..]));
    }
    let id = args[1].to_uppercase();
    let mut tier = match std::env::var("VERIF_TIER").as_deref() {
        Ok("thorough") => Tier::Thorough,
        _ => Tier::Quick,
    };
    let mut replay = None;
    let mut i = 2;
    while i < args.len() {
        match args[i].as_str() {
            "--tier" => {
                tier = if args[i + 1] == "thorough" { Tier::Thorough } else { Tier::Quick };
                i += 1;
            }
            "--replay" => {
                replay = Some(args[i + 1].clone());
                i += 1;
            }
            other => {
                eprintln!("unknown argument {other}");
                std::process::exit(2);
            }
        }
        i += 1;
    }
    common::quiet_panics();
    if let Some(path) = replay {
        let text = std::fs::read_to_string(&path).expect("cannot read replay file");
        let v: serde_json::Value = serde_json::from_str(&text).expect("replay file is not JSON");
        let case = &v["case"];
        let code = match id.as_str() {
            "C01" => props::c01::replay(case),
            "C02" => props::c02::replay(case),
            "C03" => props::c03::replay(case),
            "C04" => props::c04::replay(case),
            "C05" => props::c05::replay(case),
            "C06" => props::c06::replay(case),
            "C07" => props::c07::replay(case),
            "C08" => props::c08::replay(case),
            "C09" => props::c09::replay(case),
            "C10" => props::c10::replay(case),
            "C11" => props::c11::replay(case),
            "C12" => props::c12::replay(case),
            "C13" => props::c13::replay(case),
            "C14" => props::c14::replay(case),
            "C15" => props::c15::replay(case),
            "C16" => props::c16::replay(case),
            "C17" => props::c17::replay(case),
            "C18" => props::c18::replay(case),
            "C19" => props::c19::replay(case),
            "C20" => props::c20::replay(case),
            _ => {
                eprintln!("no replay for {id}");
                2
            }
        };
        std::process::exit(code);
    }
    // a panic of the machinery itself (outside the guarded calls of the subject) is a machinery
    // failure (exit 2), never a verdict
    let code = match common::catch(|| run_check(&id, tier)) {
        Ok(code) => code,
        Err(p) => {
            println!("MACHINERY: the harness panicked: {p} (last panic location: {})", common::last_panic_location());
            2
        }
    };
    std::process::exit(code);
}

fn run_check(id: &str, tier: Tier) -> i32 {
    match id {
        "C01" => props::c01::run(tier),
        "C02" => props::c02::run(tier),
        "C03" => props::c03::run(tier),
        "C04" => props::c04::run(tier),
        "C05" => props::c05::run(tier),
        "C06" => props::c06::run(tier),
        "C07" => props::c07::run(tier),
        "C08" => props::c08::run(tier),
        "C09" => props::c09::run(tier),
        "C10" => props::c10::run(tier),
        "C11" => props::c11::run(tier),
        "C12" => props::c12::run(tier),
        "C13" => props::c13::run(tier),
        "C14" => props::c14::run(tier),
        "C15" => props::c15::run(tier),
        "C16" => props::c16::run(tier),
        "C17" => props::c17::run(tier),
        "C18" => props::c18::run(tier),
        "C19" => props::c19::run(tier),
        "C20" => props::c20::run(tier),
        _ => {
            eprintln!("unknown property {id}");
            2
        }
    }
}
