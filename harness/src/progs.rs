//! Enumerator of programs of the core command language (ASTs of `refsh::Cmd`)
//! up to a size bound. Everything is enumerated, nothing sampled.

use crate::refsh::Cmd;

#[derive(Clone, Copy, Debug)]
pub struct Ctx {
    /// lexically enclosing loops
    pub loops: u32,
    pub in_function: bool,
    /// functions f0 (defined by the caller) may be called
    pub can_call: bool,
    /// extra leaves for the errexit/shell-error sweep
    pub fail_leaves: bool,
}

fn bx(c: Cmd) -> Box<Cmd> {
    Box::new(c)
}

fn leaves(ctx: Ctx) -> Vec<Cmd> {
    let mut v = vec![Cmd::P { label: 0, st: 0 }, Cmd::P { label: 0, st: 1 }];
    if ctx.loops >= 1 {
        v.push(Cmd::Break(None));
        v.push(Cmd::Continue(None));
    }
    if ctx.loops >= 2 {
        v.push(Cmd::Break(Some(2)));
        v.push(Cmd::Continue(Some(2)));
    }
    if ctx.in_function {
        v.push(Cmd::Return(None));
        v.push(Cmd::Return(Some(2)));
    }
    v.push(Cmd::Exit(None));
    v.push(Cmd::Exit(Some(4)));
    if ctx.can_call {
        v.push(Cmd::Call(0));
    }
    v
}

/// All commands of exactly `size` nodes in context `ctx`.
pub fn cmds(size: usize, ctx: Ctx, memo: &mut Memo) -> Vec<Cmd> {
    let key = (size, ctx.loops.min(2), ctx.in_function, ctx.can_call, ctx.fail_leaves);
    if let Some(v) = memo.get(&key) {
        return v.clone();
    }
    let mut out = vec![];
    if size == 1 {
        out = leaves(ctx);
    } else if size >= 2 {
        let inner = size - 1;
        // unary wrappers
        for a in cmds(inner, ctx, memo) {
            out.push(Cmd::Not(bx(a.clone())));
            out.push(Cmd::Group(bx(a.clone())));
            let sub = Ctx { loops: 0, ..ctx };
            let _ = sub;
            out.push(Cmd::For {
                id: 0,
                items: 0,
                body: bx(a.clone()),
            });
        }
        for a in cmds(inner, Ctx { loops: 0, ..ctx }, memo) {
            out.push(Cmd::Subshell(bx(a)));
        }
        let lctx = Ctx {
            loops: ctx.loops + 1,
            ..ctx
        };
        for a in cmds(inner, lctx, memo) {
            out.push(Cmd::Loop {
                until: false,
                id: 0,
                n: 2,
                pre: vec![],
                body: bx(a.clone()),
            });
            out.push(Cmd::Loop {
                until: true,
                id: 0,
                n: 1,
                pre: vec![],
                body: bx(a.clone()),
            });
            out.push(Cmd::For {
                id: 0,
                items: 2,
                body: bx(a.clone()),
            });
        }
        // case with one arm (matching / not matching / wildcard)
        for a in cmds(inner, ctx, memo) {
            for pat in [0u8, 1, 2] {
                out.push(Cmd::Case {
                    subject: 0,
                    arms: vec![(vec![pat], Some(a.clone()))],
                });
            }
        }
        // binary forms: sizes l + r = inner
        for l in 1..inner {
            let r = inner - l;
            let ls = cmds(l, ctx, memo);
            let rs = cmds(r, ctx, memo);
            for a in &ls {
                for b in &rs {
                    out.push(Cmd::Seq(vec![a.clone(), b.clone()]));
                    out.push(Cmd::AndOr(bx(a.clone()), vec![(true, b.clone())]));
                    out.push(Cmd::AndOr(bx(a.clone()), vec![(false, b.clone())]));
                    out.push(Cmd::If {
                        cond: bx(a.clone()),
                        then: bx(b.clone()),
                        elifs: vec![],
                        els: None,
                    });
                    // two-arm case: first-match rule
                    out.push(Cmd::Case {
                        subject: 0,
                        arms: vec![(vec![2], Some(a.clone())), (vec![0], Some(b.clone()))],
                    });
                    out.push(Cmd::Case {
                        subject: 0,
                        arms: vec![(vec![1, 0], Some(a.clone())), (vec![2], Some(b.clone()))],
                    });
                }
            }
            // loop with a condition prefix
            let lls = cmds(l, lctx, memo);
            let lrs = cmds(r, lctx, memo);
            for a in &lls {
                for b in &lrs {
                    out.push(Cmd::Loop {
                        until: false,
                        id: 0,
                        n: 1,
                        pre: vec![a.clone()],
                        body: bx(b.clone()),
                    });
                }
            }
            // pipelines: stages are subshells
            let sctx = Ctx { loops: 0, ..ctx };
            let pls = cmds(l, sctx, memo);
            let prs = cmds(r, sctx, memo);
            for a in &pls {
                for b in &prs {
                    out.push(Cmd::Pipe(vec![a.clone(), b.clone()]));
                }
            }
        }
        // ternary: if/else, and-or chains of three
        if inner >= 3 {
            for l in 1..inner - 1 {
                for m in 1..inner - l {
                    let r = inner - l - m;
                    let (ls, ms, rs) = (cmds(l, ctx, memo), cmds(m, ctx, memo), cmds(r, ctx, memo));
                    for a in &ls {
                        for b in &ms {
                            for c in &rs {
                                out.push(Cmd::If {
                                    cond: bx(a.clone()),
                                    then: bx(b.clone()),
                                    elifs: vec![],
                                    els: Some(bx(c.clone())),
                                });
                                for (o1, o2) in [(true, false), (false, true), (true, true), (false, false)] {
                                    out.push(Cmd::AndOr(
                                        bx(a.clone()),
                                        vec![(o1, b.clone()), (o2, c.clone())],
                                    ));
                                }
                            }
                        }
                    }
                }
            }
        }
    }
    memo.insert(key, out.clone());
    out
}

pub type Memo = std::collections::HashMap<(usize, u32, bool, bool, bool), Vec<Cmd>>;

/// Whole programs of total size <= n: plain commands, and `f0() { BODY; }; REST`
/// where REST may call f0.
pub fn programs(n: usize) -> Vec<Cmd> {
    let mut memo = Memo::new();
    let top = Ctx {
        loops: 0,
        in_function: false,
        can_call: false,
        fail_leaves: false,
    };
    let mut out = vec![];
    for size in 1..=n {
        out.extend(cmds(size, top, &mut memo));
    }
    // functions: definition (1 node) + body + rest
    for total in 3..=n {
        for b in 1..total - 1 {
            let r = total - 1 - b;
            let bodies = cmds(
                b,
                Ctx {
                    loops: 0,
                    in_function: true,
                    can_call: false,
                    fail_leaves: false,
                },
                &mut memo,
            );
            let rests: Vec<Cmd> = cmds(
                r,
                Ctx {
                    can_call: true,
                    ..top
                },
                &mut memo,
            )
            .into_iter()
            .filter(has_call)
            .collect();
            for body in &bodies {
                for rest in &rests {
                    out.push(Cmd::Seq(vec![
                        Cmd::FuncDef {
                            name: 0,
                            body: bx(body.clone()),
                        },
                        rest.clone(),
                    ]));
                }
            }
        }
    }
    out
}

pub fn has_call(c: &Cmd) -> bool {
    match c {
        Cmd::Call(_) => true,
        Cmd::Seq(v) | Cmd::Pipe(v) => v.iter().any(has_call),
        Cmd::AndOr(f, rest) => has_call(f) || rest.iter().any(|(_, x)| has_call(x)),
        Cmd::Not(x) | Cmd::Group(x) | Cmd::Subshell(x) | Cmd::Async(x) | Cmd::Subst(x) => has_call(x),
        Cmd::If {
            cond,
            then,
            elifs,
            els,
        } => {
            has_call(cond)
                || has_call(then)
                || elifs.iter().any(|(c, t)| has_call(c) || has_call(t))
                || els.as_ref().is_some_and(|e| has_call(e))
        }
        Cmd::Loop { pre, body, .. } => pre.iter().any(has_call) || has_call(body),
        Cmd::For { body, .. } => has_call(body),
        Cmd::Case { arms, .. } => arms.iter().any(|(_, b)| b.as_ref().is_some_and(has_call)),
        Cmd::FuncDef { body, .. } => has_call(body),
        _ => false,
    }
}
