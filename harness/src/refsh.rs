//! `refsh`: a deliberately boring reference interpreter for the core command
//! language (POSIX XCU 2.9–2.15 + the behaviour documented in docs/src), used
//! as the oracle for C02, C10, C13 and C18. It evaluates an AST sequentially
//! and returns, per process (named by position in the process tree), the
//! sequence of probe markers with the `$?` each one saw, plus the final status.
//! Wherever POSIX leaves the behaviour unspecified it returns `Unspecified`
//! and the case is skipped (counted), never asserted.

use std::collections::BTreeMap;

#[derive(Clone, Debug, PartialEq, Eq, Hash)]
pub enum Cmd {
    /// `p <label> <st>`: trace `label:$?`, return st
    P { label: u16, st: i32 },
    /// `s <st>`: return st silently
    S(i32),
    Seq(Vec<Cmd>),
    /// first, then (is_and, cmd)...
    AndOr(Box<Cmd>, Vec<(bool, Cmd)>),
    Not(Box<Cmd>),
    Pipe(Vec<Cmd>),
    Group(Box<Cmd>),
    Subshell(Box<Cmd>),
    If {
        cond: Box<Cmd>,
        then: Box<Cmd>,
        elifs: Vec<(Cmd, Cmd)>,
        els: Option<Box<Cmd>>,
    },
    /// `while PRE; tick vID N; do BODY; done` (until: `until PRE; tock vID N; ...`)
    Loop {
        until: bool,
        id: u16,
        n: u32,
        pre: Vec<Cmd>,
        body: Box<Cmd>,
    },
    For {
        id: u16,
        items: u32,
        body: Box<Cmd>,
    },
    /// subject ∈ {a,b}; arms: (patterns ∈ {a,b,*}, body)
    Case {
        subject: u8,
        arms: Vec<(Vec<u8>, Option<Cmd>)>,
    },
    FuncDef { name: u8, body: Box<Cmd> },
    Call(u8),
    Break(Option<u32>),
    Continue(Option<u32>),
    Return(Option<i32>),
    Exit(Option<i32>),
    Async(Box<Cmd>),
    /// `x<i>=$!`
    SaveBg(u8),
    WaitAll,
    WaitLast,
    WaitVar(u8),
    WaitUnknown,
    /// `wait` with several operands: 0 = `$!`, 1 = an unknown pid, 2+k = `$x<k>`
    WaitMany(Vec<u8>),
    /// `x=$(CMD)` : command substitution as an assignment-only simple command
    Subst(Box<Cmd>),
    SetE(bool),
    SetPipefail(bool),
    /// `trap 'p <label> ' EXIT`
    TrapExit(u16),
    /// a failing command of a given category (C10); `label` marks the probe that must not run
    Fail { kind: FailKind, label: u16 },
    SetM(bool),
    SetU(bool),
    /// a line that is a syntax error (`fi` alone); only meaningful at the top level
    SyntaxError,
    /// `gen N`: writes N pattern bytes to stdout
    Gen(u32),
    /// `cat`: copies stdin to stdout
    Cat,
    /// `sink`: reads stdin to EOF and traces what it saw
    Sink,
    /// `stopself`: the process stops itself (SIGSTOP) and goes on when someone continues it
    StopSelf,
    /// `tick w<id> <n>`: increments its counter and succeeds while the new value is <= n
    /// (makes a loop body behave differently from one iteration to the next)
    Tick { id: u16, n: u32 },
}

/// Categories of failing commands (docs/src/termination.md "Shell errors").
#[derive(Clone, Copy, Debug, PartialEq, Eq, Hash)]
pub enum FailKind {
    /// `nosuchcmd` -> 127, continue
    NotFound,
    /// `p L </nonexistent` -> command not run, non-zero, continue
    RedirRegular,
    /// `f9 </nonexistent` (function) -> not run, non-zero, continue
    RedirFunction,
    /// `{ p L; } </nonexistent` -> not run, non-zero, continue
    RedirCompound,
    /// `: </nonexistent` -> shell error, the shell exits
    RedirSpecial,
    /// `command : </nonexistent` -> plain failure
    RedirCommandSpecial,
    /// `ro=1 :` / `ro=1 p L` / `ro=1` -> assignment error, the shell exits
    AssignRoSpecial,
    AssignRoRegular,
    AssignRoAlone,
    /// `p L ${u?}` -> expansion error, the shell exits
    ExpansionError,
    /// `set -u` in effect: `p L $u` -> expansion error, the shell exits
    Nounset,
    /// `shift 5` -> error of a special built-in, the shell exits
    SpecialUsage,
    /// `command shift 5` -> plain failure
    CommandSpecialUsage,
}

pub const FAIL_KINDS: [FailKind; 13] = [
    FailKind::NotFound,
    FailKind::RedirRegular,
    FailKind::RedirFunction,
    FailKind::RedirCompound,
    FailKind::RedirSpecial,
    FailKind::RedirCommandSpecial,
    FailKind::AssignRoSpecial,
    FailKind::AssignRoRegular,
    FailKind::AssignRoAlone,
    FailKind::ExpansionError,
    FailKind::Nounset,
    FailKind::SpecialUsage,
    FailKind::CommandSpecialUsage,
];

impl FailKind {
    /// true if the failure is a shell error that makes a non-interactive shell exit
    pub fn aborts(self) -> bool {
        matches!(
            self,
            FailKind::RedirSpecial
                | FailKind::AssignRoSpecial
                | FailKind::AssignRoRegular
                | FailKind::AssignRoAlone
                | FailKind::ExpansionError
                | FailKind::Nounset
                | FailKind::SpecialUsage
        )
    }
    pub fn text(self, label: u16) -> String {
        let l = label_name(label);
        match self {
            FailKind::NotFound => "nosuchcmd".into(),
            FailKind::RedirRegular => format!("p {l} </nonexistent/x"),
            FailKind::RedirFunction => "f9 </nonexistent/x".into(),
            FailKind::RedirCompound => format!("{{ p {l}; }} </nonexistent/x"),
            FailKind::RedirSpecial => ": </nonexistent/x".into(),
            FailKind::RedirCommandSpecial => "command : </nonexistent/x".into(),
            FailKind::AssignRoSpecial => "ro=1 :".into(),
            FailKind::AssignRoRegular => format!("ro=1 p {l}"),
            FailKind::AssignRoAlone => "ro=1".into(),
            FailKind::ExpansionError => format!("p {l} ${{unsetvar?}}"),
            FailKind::Nounset => format!("p {l} $unsetvar"),
            FailKind::SpecialUsage => "shift 5".into(),
            FailKind::CommandSpecialUsage => "command shift 5".into(),
        }
    }
}

/// Symbolic "some non-zero status" (the manual only says "non-zero").
pub const NZ: i32 = -7777;

pub fn status_str(s: i32) -> String {
    if s == NZ { "NZ".into() } else { s.to_string() }
}

/// Does the observed status/marker match the expected one (NZ = any non-zero)?
pub fn status_matches(expected: i32, actual: i32) -> bool {
    if expected == NZ { actual != 0 } else { expected == actual }
}

pub fn marker_matches(expected: &str, actual: &str) -> bool {
    if expected == actual {
        return true;
    }
    match (expected.rsplit_once(':'), actual.rsplit_once(':')) {
        (Some((el, "NZ")), Some((al, av))) => el == al && av.parse::<i32>().is_ok_and(|v| v != 0),
        _ => false,
    }
}

pub fn traces_match(
    expected: &BTreeMap<String, Vec<String>>,
    actual: &BTreeMap<String, Vec<String>>,
) -> bool {
    expected.len() == actual.len()
        && expected.iter().zip(actual.iter()).all(|((ek, ev), (ak, av))| {
            ek == ak && ev.len() == av.len() && ev.iter().zip(av).all(|(e, a)| marker_matches(e, a))
        })
}

pub const PATS: [&str; 3] = ["a", "b", "*"];
pub const SUBJ: [&str; 2] = ["a", "b"];

// ------------------------------------------------------------------ printing

#[derive(Clone, Copy, Debug, Default)]
pub struct Style {
    /// separator between commands: false `; `, true newline
    pub newline: bool,
    /// extra blanks around operators
    pub spaces: bool,
    /// trailing comment after the first command
    pub comment: bool,
    /// backslash-newline inside the probe command word
    pub continuation: bool,
    /// the probes are invoked through aliases (`alias P_=p S_=s` on a line of its own first), so
    /// that alias substitution meets every construct (`! S_ 1`, `if S_ 0; then`, `S_ 1 | P_ x` …)
    pub alias: bool,
}

impl Style {
    pub fn all() -> Vec<Style> {
        let mut v = vec![];
        for newline in [false, true] {
            for spaces in [false, true] {
                for comment in [false, true] {
                    for continuation in [false, true] {
                        for alias in [false, true] {
                            v.push(Style {
                                newline,
                                spaces,
                                comment,
                                continuation,
                                alias,
                            });
                        }
                    }
                }
            }
        }
        v
    }
    pub fn orthogonal() -> Vec<Style> {
        vec![
            Style::default(),
            Style {
                newline: true,
                spaces: false,
                comment: true,
                continuation: false,
                alias: false,
            },
            Style {
                newline: false,
                spaces: true,
                comment: false,
                continuation: true,
                alias: false,
            },
            Style {
                newline: true,
                spaces: true,
                comment: true,
                continuation: true,
                alias: false,
            },
            Style {
                alias: true,
                ..Style::default()
            },
            Style {
                newline: true,
                spaces: true,
                comment: false,
                continuation: false,
                alias: true,
            },
        ]
    }
}

fn label_name(l: u16) -> String {
    // a..z then aa, ab...
    let mut s = String::new();
    let mut n = l as usize;
    loop {
        s.insert(0, (b'a' + (n % 26) as u8) as char);
        n /= 26;
        if n == 0 {
            break;
        }
        n -= 1;
    }
    format!("m{s}")
}

pub fn label_str(l: u16) -> String {
    label_name(l)
}

/// precedence: 0 = command (fits anywhere), 1 = pipeline/negation, 2 = and-or, 3 = list
fn level(c: &Cmd) -> u8 {
    match c {
        Cmd::Seq(v) if v.len() == 1 => level(&v[0]),
        Cmd::Seq(_) => 3,
        Cmd::Async(_) => 3,
        Cmd::AndOr(..) => 2,
        Cmd::Not(_) | Cmd::Pipe(_) => 1,
        _ => 0,
    }
}

pub struct Printer {
    pub style: Style,
    first_done: bool,
}

impl Printer {
    pub fn new(style: Style) -> Printer {
        Printer {
            style,
            first_done: false,
        }
    }
    fn sep(&self) -> &'static str {
        if self.style.newline { "\n" } else { "; " }
    }
    fn op(&self, op: &str) -> String {
        if self.style.spaces {
            format!("  {op}  ")
        } else {
            format!(" {op} ")
        }
    }
    fn at(&mut self, c: &Cmd, max: u8) -> String {
        if level(c) > max {
            let inner = self.list(c);
            format!("{{ {inner}{}}}", self.term())
        } else {
            self.cmd(c)
        }
    }
    fn term(&self) -> &'static str {
        if self.style.newline { "\n" } else { "; " }
    }
    /// prints as a list usable inside a compound (no trailing separator unless async)
    fn list(&mut self, c: &Cmd) -> String {
        match c {
            Cmd::Seq(v) => {
                let mut out = String::new();
                for (i, x) in v.iter().enumerate() {
                    if i > 0 {
                        if out.ends_with("& ") {
                            // `a & b` : no extra separator needed
                        } else {
                            out.push_str(self.sep());
                        }
                    }
                    out.push_str(&self.list(x));
                }
                out
            }
            Cmd::Async(x) => {
                let s = self.at(x, 2);
                format!("{s} & ")
            }
            _ => self.cmd(c),
        }
    }
    /// Terminates a list before a closing keyword. An async command already
    /// ends with `&`.
    fn closed(&mut self, c: &Cmd) -> String {
        let s = self.list(c);
        if s.ends_with("& ") {
            s
        } else {
            format!("{s}{}", self.term())
        }
    }
    fn cmd(&mut self, c: &Cmd) -> String {
        match c {
            Cmd::P { label, st } => {
                let name = if self.style.alias {
                    "P_"
                } else if self.style.continuation {
                    "\\\np"
                } else {
                    "p"
                };
                let mut s = if *st == 0 {
                    format!("{name} {}", label_name(*label))
                } else {
                    format!("{name} {} {st}", label_name(*label))
                };
                self.first_done = true;
                s
            }
            Cmd::S(st) => format!("{} {st}", if self.style.alias { "S_" } else { "s" }),
            Cmd::Seq(v) if v.len() == 1 => self.cmd(&v[0]),
            Cmd::Seq(_) | Cmd::Async(_) => {
                let inner = self.closed(c);
                format!("{{ {inner}}}")
            }
            Cmd::AndOr(first, rest) => {
                let mut s = self.at(first, 1);
                for (is_and, x) in rest {
                    s.push_str(&self.op(if *is_and { "&&" } else { "||" }));
                    if self.style.newline && self.style.spaces {
                        s.push('\n');
                    }
                    s.push_str(&self.at(x, 1));
                }
                s
            }
            Cmd::Not(x) => {
                // `! ! x` is not portable: wrap nested negations
                let inner = if matches!(**x, Cmd::Not(_)) {
                    let i = self.list(x);
                    format!("{{ {i}{}}}", self.term())
                } else {
                    self.at(x, 1)
                };
                format!("! {inner}")
            }
            Cmd::Pipe(v) => {
                let parts: Vec<String> = v.iter().map(|x| self.at(x, 0)).collect();
                parts.join(&self.op("|"))
            }
            Cmd::Group(x) => {
                let inner = self.closed(x);
                format!("{{ {inner}}}")
            }
            Cmd::Subshell(x) => {
                let inner = self.list(x);
                if self.style.spaces {
                    format!("( {inner} )")
                } else {
                    format!("({inner})")
                }
            }
            Cmd::If {
                cond,
                then,
                elifs,
                els,
            } => {
                let mut s = format!("if {}then {}", self.closed(cond), self.closed(then));
                for (c, t) in elifs {
                    s.push_str(&format!("elif {}then {}", self.closed(c), self.closed(t)));
                }
                if let Some(e) = els {
                    s.push_str(&format!("else {}", self.closed(e)));
                }
                s.push_str("fi");
                s
            }
            Cmd::Loop {
                until,
                id,
                n,
                pre,
                body,
            } => {
                let mut cond = String::new();
                for p in pre {
                    cond.push_str(&self.closed(p));
                }
                let kw = if *until { "until" } else { "while" };
                let guard = if *until { "tock" } else { "tick" };
                format!(
                    "{kw} {cond}{guard} v{id} {n}{}do {}done",
                    self.term(),
                    self.closed(body)
                )
            }
            Cmd::For { id, items, body } => {
                let list: Vec<String> = (1..=*items).map(|i| i.to_string()).collect();
                format!(
                    "for i{id} in {}{}do {}done",
                    list.join(" "),
                    self.term(),
                    self.closed(body)
                )
            }
            Cmd::Case { subject, arms } => {
                let mut s = format!("case {} in ", SUBJ[*subject as usize]);
                for (pats, body) in arms {
                    let ps: Vec<&str> = pats.iter().map(|p| PATS[*p as usize]).collect();
                    s.push_str(&format!("({}) ", ps.join("|")));
                    if let Some(b) = body {
                        let l = self.list(b);
                        s.push_str(&l);
                        if !l.ends_with("& ") {
                            s.push(' ');
                        }
                    }
                    s.push_str(";; ");
                }
                s.push_str("esac");
                s
            }
            Cmd::FuncDef { name, body } => {
                format!("f{name}() {{ {}}}", self.closed(body))
            }
            Cmd::Call(n) => format!("f{n}"),
            Cmd::Break(n) => opt("break", n.map(|x| x as i64)),
            Cmd::Continue(n) => opt("continue", n.map(|x| x as i64)),
            Cmd::Return(n) => opt("return", n.map(|x| x as i64)),
            Cmd::Exit(n) => opt("exit", n.map(|x| x as i64)),
            Cmd::SaveBg(i) => format!("x{i}=$!"),
            Cmd::WaitAll => "wait".into(),
            Cmd::WaitLast => "wait $!".into(),
            Cmd::WaitVar(i) => format!("wait $x{i}"),
            Cmd::WaitUnknown => "wait 9999".into(),
            Cmd::WaitMany(ops) => format!(
                "wait{}",
                ops.iter().map(|o| match o { 0 => " $!".to_string(), 1 => " 9999".to_string(), k => format!(" $x{}", k - 2) }).collect::<String>()
            ),
            Cmd::Subst(x) => {
                let inner = self.list(x);
                format!("y=$({inner})")
            }
            Cmd::SetE(on) => (if *on { "set -e" } else { "set +e" }).into(),
            Cmd::SetPipefail(on) => {
                (if *on { "set -o pipefail" } else { "set +o pipefail" }).into()
            }
            Cmd::TrapExit(l) => format!("trap 'p {}' EXIT", label_name(*l)),
            Cmd::Fail { kind, label } => kind.text(*label),
            Cmd::SetM(on) => (if *on { "set -m" } else { "set +m" }).into(),
            Cmd::SetU(on) => (if *on { "set -u" } else { "set +u" }).into(),
            Cmd::SyntaxError => "fi".into(),
            Cmd::Gen(n) => format!("gen {n}"),
            Cmd::Cat => "cat".into(),
            Cmd::Sink => "sink".into(),
            Cmd::StopSelf => "stopself".into(),
            Cmd::Tick { id, n } => format!("tick w{id} {n}"),
        }
    }
}

fn opt(name: &str, n: Option<i64>) -> String {
    match n {
        Some(n) => format!("{name} {n}"),
        None => name.to_string(),
    }
}

pub fn print(c: &Cmd, style: Style) -> String {
    let mut p = Printer::new(style);
    let s = p.list(c);
    let s = s.trim_end().to_string();
    let s = if style.alias { format!("alias P_=p S_=s\n{s}") } else { s };
    if style.comment {
        // a comment line before the program and a trailing comment after its last token
        format!("# leading comment; exit 9\n{s} # trailing comment; exit 9")
    } else {
        s
    }
}

// ------------------------------------------------------------------ evaluation

#[derive(Clone, Debug, PartialEq, Eq)]
pub enum Divert {
    Break(u32),
    Continue(u32),
    Return(i32),
    Exit(i32),
    /// shell error: the (sub)shell process exits with this status
    ShellError(i32),
    Unspecified(&'static str),
}

#[derive(Clone, Debug)]
struct State {
    status: i32,
    funcs: BTreeMap<u8, Cmd>,
    vars: BTreeMap<u16, u32>,
    /// lexically enclosing loops in the current function body / execution environment
    loops: u32,
    in_function: bool,
    errexit: bool,
    pipefail: bool,
    cond_depth: u32,
    exit_trap: Option<u16>,
    proc: String,
    children: u32,
    /// background jobs known to this shell environment: (pid-name, status)
    jobs: Vec<(String, i32)>,
    lastbg: Option<String>,
    saved: BTreeMap<u8, String>,
    /// bytes available on stdin (pipeline data flow), bytes written to stdout
    inp: u64,
    out: u64,
    consumed: bool,
    monitor: bool,
    in_subshell: bool,
    nounset: bool,
}

#[derive(Clone, Debug, PartialEq, Eq)]
pub struct Outcome {
    /// process name -> markers
    pub traces: BTreeMap<String, Vec<String>>,
    /// exit status of the main shell process
    pub status: i32,
    /// true if a diagnostic message is expected on stderr
    pub stderr: bool,
}

pub struct Eval {
    traces: BTreeMap<String, Vec<String>>,
    stderr: bool,
    steps: u32,
}

type R = Result<(), Divert>;

impl Eval {
    fn trace(&mut self, st: &State, s: String) {
        self.traces.entry(st.proc.clone()).or_default().push(s);
    }

    fn errexit(&self, st: &State) -> R {
        if st.status != 0 && st.errexit && st.cond_depth == 0 {
            Err(Divert::Exit(st.status))
        } else {
            Ok(())
        }
    }

    /// Runs `c` in a child process; returns the child's exit status.
    fn child(&mut self, st: &mut State, c: &Cmd) -> Result<(String, i32), Divert> {
        st.children += 1;
        let mut cs = st.clone();
        cs.proc = format!("{}.{}", st.proc, st.children);
        cs.children = 0;
        cs.loops = 0;
        cs.exit_trap = None;
        cs.jobs.clear();
        cs.lastbg = st.lastbg.clone();
        cs.in_subshell = true;
        let was_fn = cs.in_function;
        let r = self.eval(&mut cs, c);
        let status = match r {
            Ok(()) => cs.status,
            Err(Divert::Exit(s)) | Err(Divert::ShellError(s)) => s,
            Err(Divert::Unspecified(w)) => return Err(Divert::Unspecified(w)),
            // `return n` ending a subshell-like environment: the environment exits with n
            // (documented: return quits the function "with the specified exit status"; outside a
            // function it works like exit; dash and bash agree)
            Err(Divert::Return(s)) => {
                let _ = was_fn;
                s
            }
            Err(_) => return Err(Divert::Unspecified("break/continue/return escaping a subshell")),
        };
        // EXIT trap set inside the subshell
        let status = self.run_exit_trap(&mut cs, status)?;
        st.out = cs.out;
        st.consumed |= cs.consumed;
        Ok((cs.proc, if status == NZ { NZ } else { status & 0xff }))
    }

    fn run_exit_trap(&mut self, st: &mut State, status: i32) -> Result<i32, Divert> {
        if let Some(l) = st.exit_trap.take() {
            st.status = status;
            self.trace(st, format!("{}:{}", label_name(l), status_str(st.status)));
            // `p label` returns 0 but $? is restored after a trap... for EXIT the
            // shell exits with the status it had before the trap unless the trap exits
            return Ok(status);
        }
        Ok(status)
    }

    fn eval(&mut self, st: &mut State, c: &Cmd) -> R {
        self.steps += 1;
        if self.steps > 20_000 {
            return Err(Divert::Unspecified("evaluation budget"));
        }
        match c {
            Cmd::P { label, st: s } => {
                self.trace(st, format!("{}:{}", label_name(*label), status_str(st.status)));
                st.status = *s;
                self.errexit(st)
            }
            Cmd::S(s) => {
                st.status = *s;
                self.errexit(st)
            }
            Cmd::Seq(v) => {
                for x in v {
                    self.eval(st, x)?;
                }
                Ok(())
            }
            Cmd::AndOr(first, rest) => {
                let n = rest.len();
                if n > 0 {
                    st.cond_depth += 1;
                }
                let r = self.eval(st, first);
                if n > 0 {
                    st.cond_depth -= 1;
                }
                r?;
                for (i, (is_and, x)) in rest.iter().enumerate() {
                    if *is_and != (st.status == 0) {
                        continue;
                    }
                    let last = i + 1 == n;
                    if !last {
                        st.cond_depth += 1;
                    }
                    let r = self.eval(st, x);
                    if !last {
                        st.cond_depth -= 1;
                    }
                    r?;
                }
                Ok(())
            }
            Cmd::Not(x) => {
                st.cond_depth += 1;
                let r = self.eval(st, x);
                st.cond_depth -= 1;
                r?;
                st.status = (st.status == 0) as i32;
                Ok(())
            }
            Cmd::Pipe(v) if v.len() == 1 => self.eval(st, &v[0]),
            Cmd::Pipe(_) if st.monitor && !st.in_subshell => {
                // job control: the whole pipeline runs in one more subshell
                let (_, s) = self.child(st, c)?;
                st.status = s;
                self.errexit(st)
            }
            Cmd::Pipe(v) => {
                let mut statuses = vec![];
                let (saved_inp, saved_consumed) = (st.inp, st.consumed);
                let mut flow = 0u64;
                let nstages = v.len();
                for (i, x) in v.iter().enumerate() {
                    st.inp = if i == 0 { saved_inp } else { flow };
                    st.consumed = false;
                    let out_before = st.out;
                    st.out = 0;
                    let (_, s) = self.child(st, x)?;
                    if i > 0 && flow > 0 && !st.consumed {
                        return Err(Divert::Unspecified(
                            "pipeline stage does not read its input (EPIPE race)",
                        ));
                    }
                    flow = st.out;
                    st.out = out_before;
                    if i + 1 == nstages {
                        st.out += flow;
                    }
                    statuses.push(s);
                }
                st.inp = saved_inp;
                st.consumed = saved_consumed;
                st.status = if st.pipefail {
                    statuses.iter().rev().find(|s| **s != 0).copied().unwrap_or(0)
                } else {
                    *statuses.last().unwrap()
                };
                self.errexit(st)
            }
            Cmd::Group(x) => self.eval(st, x),
            Cmd::Subshell(x) => {
                let (_, s) = self.child(st, x)?;
                st.status = s;
                self.errexit(st)
            }
            Cmd::If {
                cond,
                then,
                elifs,
                els,
            } => {
                st.cond_depth += 1;
                let r = self.eval(st, cond);
                st.cond_depth -= 1;
                r?;
                if st.status == 0 {
                    return self.eval(st, then);
                }
                for (c, t) in elifs {
                    st.cond_depth += 1;
                    let r = self.eval(st, c);
                    st.cond_depth -= 1;
                    r?;
                    if st.status == 0 {
                        return self.eval(st, t);
                    }
                }
                if let Some(e) = els {
                    return self.eval(st, e);
                }
                st.status = 0;
                Ok(())
            }
            Cmd::Loop {
                until,
                id,
                n,
                pre,
                body,
            } => {
                st.loops += 1;
                let r = self.eval_loop(st, *until, *id, *n, pre, body);
                st.loops -= 1;
                r
            }
            Cmd::For { id: _, items, body } => {
                st.loops += 1;
                let mut last = 0;
                let mut result = Ok(());
                for _ in 0..*items {
                    match self.eval(st, body) {
                        Ok(()) => last = st.status,
                        Err(Divert::Break(n)) => {
                            last = st.status;
                            if n > 1 {
                                result = Err(Divert::Break(n - 1));
                            }
                            break;
                        }
                        Err(Divert::Continue(n)) => {
                            last = st.status;
                            if n > 1 {
                                result = Err(Divert::Continue(n - 1));
                                break;
                            }
                        }
                        Err(e) => {
                            st.loops -= 1;
                            return Err(e);
                        }
                    }
                }
                st.loops -= 1;
                if result.is_ok() {
                    st.status = last;
                }
                result
            }
            Cmd::Case { subject, arms } => {
                for (pats, body) in arms {
                    if pats.iter().any(|p| *p == 2 || *p == *subject) {
                        return match body {
                            Some(b) => self.eval(st, b),
                            None => {
                                st.status = 0;
                                Ok(())
                            }
                        };
                    }
                }
                st.status = 0;
                Ok(())
            }
            Cmd::FuncDef { name, body } => {
                st.funcs.insert(*name, (**body).clone());
                st.status = 0;
                Ok(())
            }
            Cmd::Call(name) => {
                let Some(body) = st.funcs.get(name).cloned() else {
                    st.status = 127;
                    self.stderr = true;
                    return self.errexit(st);
                };
                let (saved_loops, saved_fn) = (st.loops, st.in_function);
                st.loops = 0;
                st.in_function = true;
                let r = self.eval(st, &body);
                st.loops = saved_loops;
                st.in_function = saved_fn;
                match r {
                    Ok(()) => {}
                    Err(Divert::Return(s)) => st.status = s,
                    Err(Divert::Break(_)) | Err(Divert::Continue(_)) => {
                        return Err(Divert::Unspecified("break/continue leaving a function"));
                    }
                    Err(e) => return Err(e),
                }
                self.errexit(st)
            }
            Cmd::Break(n) | Cmd::Continue(n) => {
                let n = n.unwrap_or(1);
                if n == 0 {
                    return Err(Divert::Unspecified("break 0"));
                }
                if st.loops == 0 {
                    return Err(Divert::Unspecified("break/continue without enclosing loop"));
                }
                // documented: n greater than the number of enclosing loops exits the outermost one
                let n = n.min(st.loops);
                st.status = 0;
                if matches!(c, Cmd::Break(_)) {
                    Err(Divert::Break(n))
                } else {
                    Err(Divert::Continue(n))
                }
            }
            Cmd::Return(n) => {
                if !st.in_function && !st.in_subshell {
                    // documented: outside a function or script it works like exit
                    return Err(Divert::Exit(n.unwrap_or(st.status)));
                }
                Err(Divert::Return(n.unwrap_or(st.status)))
            }
            Cmd::Exit(n) => Err(Divert::Exit(n.unwrap_or(st.status))),
            Cmd::Async(x) => {
                let inp = st.inp;
                st.inp = 0;
                let r = self.child(st, x);
                st.inp = inp;
                let (name, s) = r?;
                st.jobs.push((name.clone(), s));
                st.lastbg = Some(name);
                st.status = 0;
                Ok(())
            }
            Cmd::SaveBg(i) => {
                match &st.lastbg {
                    Some(n) => {
                        st.saved.insert(*i, n.clone());
                    }
                    None => return Err(Divert::Unspecified("$! before any async command")),
                }
                st.status = 0;
                Ok(())
            }
            Cmd::WaitAll => {
                st.jobs.clear();
                st.status = 0;
                Ok(())
            }
            Cmd::WaitLast | Cmd::WaitVar(_) => {
                let target = match c {
                    Cmd::WaitLast => st.lastbg.clone(),
                    Cmd::WaitVar(i) => st.saved.get(i).cloned(),
                    _ => unreachable!(),
                };
                let Some(t) = target else {
                    return Err(Divert::Unspecified("wait for unset $!"));
                };
                match st.jobs.iter().position(|(n, _)| *n == t) {
                    Some(i) => {
                        let (_, s) = st.jobs.remove(i);
                        st.status = s;
                    }
                    None => st.status = 127,
                }
                self.errexit(st)
            }
            Cmd::WaitUnknown => {
                st.status = 127;
                self.errexit(st)
            }
            Cmd::WaitMany(ops) => {
                // every operand is waited for; the status is that of the last one
                for o in ops {
                    let target = match o {
                        0 => st.lastbg.clone(),
                        1 => None,
                        k => st.saved.get(&(k - 2)).cloned(),
                    };
                    if *o != 1 && target.is_none() {
                        return Err(Divert::Unspecified("wait for unset $!"));
                    }
                    st.status = match target.and_then(|t| st.jobs.iter().position(|(n, _)| *n == t)) {
                        Some(i) => st.jobs.remove(i).1,
                        None => 127,
                    };
                }
                self.errexit(st)
            }
            Cmd::Subst(x) => {
                let out = st.out;
                let (_, s) = self.child(st, x)?;
                st.out = out;
                st.status = s;
                self.errexit(st)
            }
            Cmd::SetE(on) => {
                st.errexit = *on;
                st.status = 0;
                Ok(())
            }
            Cmd::SetPipefail(on) => {
                st.pipefail = *on;
                st.status = 0;
                Ok(())
            }
            Cmd::TrapExit(l) => {
                st.exit_trap = Some(*l);
                st.status = 0;
                Ok(())
            }
            Cmd::SetM(on) => {
                st.monitor = *on;
                st.status = 0;
                Ok(())
            }
            Cmd::SetU(on) => {
                st.nounset = *on;
                st.status = 0;
                Ok(())
            }
            Cmd::SyntaxError => {
                self.stderr = true;
                st.status = NZ;
                Err(Divert::ShellError(NZ))
            }
            Cmd::Fail { kind, .. } => {
                self.stderr = true;
                if *kind == FailKind::Nounset && !st.nounset {
                    return Err(Divert::Unspecified("nounset leaf without set -u"));
                }
                if kind.aborts() {
                    st.status = NZ;
                    return Err(Divert::ShellError(NZ));
                }
                st.status = if *kind == FailKind::NotFound { 127 } else { NZ };
                self.errexit(st)
            }
            Cmd::Gen(n) => {
                st.out += *n as u64;
                st.status = 0;
                Ok(())
            }
            Cmd::Cat => {
                st.out += st.inp;
                st.inp = 0;
                st.consumed = true;
                st.status = 0;
                Ok(())
            }
            Cmd::StopSelf => {
                st.status = 0;
                Ok(())
            }
            Cmd::Tick { id, n } => {
                let v = st.vars.entry(10_000 + *id).or_default();
                *v += 1;
                st.status = if *v <= *n { 0 } else { 1 };
                Ok(())
            }
            Cmd::Sink => {
                let n = st.inp;
                st.inp = 0;
                st.consumed = true;
                self.trace(st, format!("sink n={n} nl=0 ok=true"));
                st.status = 0;
                Ok(())
            }
        }
    }

    fn eval_loop(
        &mut self,
        st: &mut State,
        until: bool,
        id: u16,
        n: u32,
        pre: &[Cmd],
        body: &Cmd,
    ) -> R {
        let mut last = 0;
        loop {
            st.cond_depth += 1;
            let mut r = Ok(());
            for p in pre {
                r = self.eval(st, p);
                if r.is_err() {
                    break;
                }
            }
            if r.is_ok() {
                // tick: increment, succeed while new <= n ; tock: fail while new <= n
                let v = st.vars.entry(id).or_default();
                *v += 1;
                let within = *v <= n;
                st.status = if within != until { 0 } else { 1 };
            }
            st.cond_depth -= 1;
            match r {
                Ok(()) => {}
                Err(Divert::Break(k)) => {
                    // break in the condition: exits this loop
                    st.status = 0;
                    return if k > 1 { Err(Divert::Break(k - 1)) } else { Ok(()) };
                }
                Err(Divert::Continue(k)) => {
                    if k > 1 {
                        return Err(Divert::Continue(k - 1));
                    }
                    continue;
                }
                Err(e) => return Err(e),
            }
            let go = (st.status == 0) != until;
            if !go {
                break;
            }
            match self.eval(st, body) {
                Ok(()) => last = st.status,
                Err(Divert::Break(k)) => {
                    last = st.status;
                    if k > 1 {
                        return Err(Divert::Break(k - 1));
                    }
                    break;
                }
                Err(Divert::Continue(k)) => {
                    last = st.status;
                    if k > 1 {
                        return Err(Divert::Continue(k - 1));
                    }
                }
                Err(e) => return Err(e),
            }
        }
        st.status = last;
        Ok(())
    }
}

/// Evaluates a whole script (top level, non-interactive). `Err(reason)` = unspecified.
pub fn run(c: &Cmd) -> Result<Outcome, &'static str> {
    let mut ev = Eval {
        traces: BTreeMap::new(),
        stderr: false,
        steps: 0,
    };
    let mut st = State {
        status: 0,
        funcs: BTreeMap::new(),
        vars: BTreeMap::new(),
        loops: 0,
        in_function: false,
        errexit: false,
        pipefail: false,
        cond_depth: 0,
        exit_trap: None,
        proc: "M".into(),
        children: 0,
        jobs: vec![],
        lastbg: None,
        saved: BTreeMap::new(),
        inp: 0,
        out: 0,
        consumed: false,
        monitor: false,
        in_subshell: false,
        nounset: false,
    };
    let r = ev.eval(&mut st, c);
    let status = match r {
        Ok(()) => st.status,
        Err(Divert::Exit(s)) | Err(Divert::ShellError(s)) => s,
        Err(Divert::Unspecified(w)) => return Err(w),
        Err(_) => return Err("break/continue/return reaching the top level"),
    };
    let status = match ev.run_exit_trap(&mut st, status) {
        Ok(s) => s,
        Err(_) => return Err("exit trap"),
    };
    Ok(Outcome {
        traces: ev.traces,
        status,
        stderr: ev.stderr,
    })
}

// ------------------------------------------------------------------ helpers for generators

/// Relabels all probes in preorder so that every marker is unique.
pub fn relabel(c: &mut Cmd) {
    let mut n = 0u16;
    relabel_from(c, &mut n);
}

fn relabel_from(c: &mut Cmd, n: &mut u16) {
    match c {
        Cmd::P { label, .. } => {
            *label = *n;
            *n += 1;
        }
        Cmd::TrapExit(l) => {
            *l = *n;
            *n += 1;
        }
        Cmd::Fail { label, .. } => {
            *label = *n;
            *n += 1;
        }
        Cmd::Seq(v) | Cmd::Pipe(v) => v.iter_mut().for_each(|x| relabel_from(x, n)),
        Cmd::AndOr(f, rest) => {
            relabel_from(f, n);
            rest.iter_mut().for_each(|(_, x)| relabel_from(x, n));
        }
        Cmd::Not(x) | Cmd::Group(x) | Cmd::Subshell(x) | Cmd::Async(x) | Cmd::Subst(x) => {
            relabel_from(x, n)
        }
        Cmd::If {
            cond,
            then,
            elifs,
            els,
        } => {
            relabel_from(cond, n);
            relabel_from(then, n);
            for (c, t) in elifs {
                relabel_from(c, n);
                relabel_from(t, n);
            }
            if let Some(e) = els {
                relabel_from(e, n);
            }
        }
        Cmd::Loop { pre, body, id, .. } => {
            *id = *n;
            *n += 1;
            pre.iter_mut().for_each(|x| relabel_from(x, n));
            relabel_from(body, n);
        }
        Cmd::For { body, id, .. } => {
            *id = *n;
            *n += 1;
            relabel_from(body, n)
        }
        Cmd::Case { arms, .. } => arms.iter_mut().for_each(|(_, b)| {
            if let Some(b) = b {
                relabel_from(b, n)
            }
        }),
        Cmd::FuncDef { body, .. } => relabel_from(body, n),
        _ => {}
    }
}

pub fn size(c: &Cmd) -> usize {
    match c {
        Cmd::Seq(v) | Cmd::Pipe(v) => v.iter().map(size).sum::<usize>() + (v.len() > 1) as usize,
        Cmd::AndOr(f, rest) => 1 + size(f) + rest.iter().map(|(_, x)| size(x)).sum::<usize>(),
        Cmd::Not(x) | Cmd::Group(x) | Cmd::Subshell(x) | Cmd::Async(x) | Cmd::Subst(x) => {
            1 + size(x)
        }
        Cmd::If {
            cond,
            then,
            elifs,
            els,
        } => {
            1 + size(cond)
                + size(then)
                + elifs.iter().map(|(c, t)| size(c) + size(t)).sum::<usize>()
                + els.as_ref().map_or(0, |e| size(e))
        }
        Cmd::Loop { pre, body, .. } => 1 + pre.iter().map(size).sum::<usize>() + size(body),
        Cmd::For { body, .. } => 1 + size(body),
        Cmd::Case { arms, .. } => {
            1 + arms
                .iter()
                .map(|(_, b)| b.as_ref().map_or(0, size))
                .sum::<usize>()
        }
        Cmd::FuncDef { body, .. } => 1 + size(body),
        _ => 1,
    }
}
