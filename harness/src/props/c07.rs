//! C07: quoted output reads back verbatim; state listings recreate the state.
//! (a) every string up to length Q over 40 characters: quote(s) parsed and
//! expanded as an argument and as an assignment value gives exactly [s];
//! (b) definition histories × printers: the listing evaluated by a fresh shell
//! recreates the listed part of the state.

use crate::common::*;
use crate::vsh::{self, *};
use futures_util::FutureExt;
use rayon::prelude::*;
use serde_json::json;
use std::collections::BTreeMap;
use std::rc::Rc;
use std::str::FromStr;
use std::sync::atomic::{AtomicU64, Ordering::Relaxed};
use yash_env::Env;
use yash_env::system::Concurrent;
use yash_env::system::r#virtual::VirtualSystem;
use yash_env::variable::Scope;
use yash_quote::quote;
use yash_semantics::expansion::{expand_value, expand_words};
use yash_syntax::syntax::{SimpleCommand, Word};

const ALPHABET: &[char] = &[
    ';', '&', '|', '(', ')', '<', '>', ' ', '\t', '\n', '$', '`', '\\', '"', '\'', '=', '*', '?', '#', '~', ':', '{', '}', '[', ']', '!',
    '^', '-', '%', '+', ',', '.', '/', '@', '\u{85}', '\u{a0}', '\u{2028}', '\u{3000}', 'é', 'a', '0',
];

type E = Env<Rc<Concurrent<VirtualSystem>>>;

fn part_a_env() -> E {
    let vs = VirtualSystem::new();
    {
        use std::cell::RefCell;
        use yash_env::system::r#virtual::Inode;
        let mut st = vs.state.borrow_mut();
        // files a glob could hit
        for name in ["/a", "/0", "/aa", "/a0", "/*", "/?", "/[a]", "/é", "/~", "/home/u/x"] {
            st.file_system.save(name, Rc::new(RefCell::new(Inode::new([])))).unwrap();
        }
        st.processes.get_mut(&yash_env::job::Pid(2)).unwrap().chdir("/".into());
        st.home_dirs.insert("a".into(), "/home/a".into());
        st.home_dirs.insert("0".into(), "/home/0".into());
    }
    let mut env = Env::with_system(Rc::new(Concurrent::new(vs)));
    for (n, v) in [("a", "VALUE_A"), ("HOME", "/home/u"), ("0", "x"), ("PWD", "/pwd"), ("OLDPWD", "/old")] {
        env.variables.get_or_new(n, Scope::Global).assign(v, None).ok();
    }
    env.variables.positional_params_mut().values = vec!["P1".into(), "P2".into()];
    env
}

fn check_string(ctx: &Ctx, env: &mut E, s: &str) {
    let q = quote(s).into_owned();
    let describe = || json!({"string": s, "quoted": q});
    // as an argument
    match Word::from_str(&q) {
        Err(e) => {
            ctx.violation("c07:quote-unparsable", &format!("quote({s:?}) = {q:?} does not parse as a word: {e}"), describe());
            return;
        }
        Ok(w) => {
            // the quoted form must be a single word (the lexer must consume all of it)
            if w.to_string() != q {
                ctx.violation("c07:quote-not-one-word", &format!("quote({s:?}) = {q:?} lexes as the word {:?} followed by more text", w.to_string()), describe());
                return;
            }
            match catch(|| expand_words(env, std::iter::once(&w)).now_or_never()) {
                Ok(Some(Ok((fields, _)))) => {
                    let got: Vec<String> = fields.into_iter().map(|f| f.value).collect();
                    if got != vec![s.to_string()] {
                        ctx.violation("c07:quote-argument", &format!("quote({s:?}) = {q:?} reads back as the fields {got:?}"), describe());
                        return;
                    }
                }
                other => {
                    ctx.violation("c07:quote-argument", &format!("quote({s:?}) = {q:?}: expansion failed: {:?}", other.map(|o| o.map(|r| r.map(|_| ())))), describe());
                    return;
                }
            }
        }
    }
    // as an assignment value
    let text = format!("v={q}");
    match SimpleCommand::from_str(&text) {
        Ok(cmd) if cmd.assigns.len() == 1 && cmd.words.is_empty() && cmd.redirs.is_empty() => {
            match catch(|| expand_value(env, &cmd.assigns[0].value).now_or_never()) {
                Ok(Some(Ok((yash_env::variable::Value::Scalar(v), _)))) => {
                    if v != s {
                        ctx.violation("c07:quote-assignment", &format!("v={q} assigns {v:?}, not {s:?}"), describe());
                    }
                }
                other => {
                    ctx.violation("c07:quote-assignment", &format!("v={q}: {:?}", other.map(|o| o.map(|r| r.map(|x| x.0)))), describe());
                }
            }
        }
        other => {
            ctx.violation("c07:quote-assignment", &format!("`v={q}` does not parse as a single assignment: {:?}", other.map(|c| c.to_string())), describe());
        }
    }
}

// ------------------------------------------------------------------ part (b)

const NASTY: &[&str] = &[
    "plain",
    "a b",
    "'",
    "\"",
    "$x",
    "`x`",
    "a\\b",
    "l1\nl2",
    "*",
    "~",
    "#x",
    "=",
    "",
    "it's \"q\" $y `z`",
    "-n",
    "a;b&c|d",
    "é\u{a0}x",
    "{a,b}",
    "[a]",
    "'`'",
    // words the parser knows: an array element or a value that spells one is an ordinary word
    "do",
    "!",
    "{",
    "[[",
];

/// Variable names that are not plain identifiers (none contains `;`, `=`, `{`, `}` or `|`, which the
/// snapshot format uses as separators).
const NASTY_NAMES: &[&str] = &[
    "-v", "+x", "-a b", "-r*", "+a b", "-", "--", "+", "a b", "$w", "w*", "~v", "w'q", "w\"q", "#v", "é v", "l1\nl2", "-'", "+$x", "w\\u", "-é", "`v`", "[v]", "?",
];

#[derive(Clone, Debug)]
struct Def {
    text: String,
    kind: &'static str,
}

fn sq(s: &str) -> String {
    format!("'{}'", s.replace('\'', "'\\''"))
}

fn defs() -> Vec<Def> {
    let mut v = vec![];
    for (i, n) in NASTY.iter().enumerate() {
        v.push(Def { text: format!("alias a{i}={}", sq(n)), kind: "alias" });
        v.push(Def { text: format!("v{i}={}", sq(n)), kind: "var" });
        if i % 2 == 0 {
            v.push(Def { text: format!("export e{i}={}", sq(n)), kind: "export" });
            v.push(Def { text: format!("readonly r{i}={}", sq(n)), kind: "readonly" });
        } else {
            v.push(Def { text: format!("arr{i}=({} 'b c' '')", sq(n)), kind: "var" });
            v.push(Def { text: format!("trap {} USR1", sq(n)), kind: "trap" });
        }
        if i % 3 == 0 {
            v.push(Def { text: format!("trap {} EXIT", sq(&format!("p {}", n.replace('\n', " ")))), kind: "trap" });
            v.push(Def { text: format!("f{i}() {{ p {} \"$x\" \\$y; }}", sq(n)), kind: "func" });
        }
    }
    // arrays with attributes: the listing has to restore the value *and* the attribute
    v.push(Def { text: "ea=(1 'b c' ''); export ea".into(), kind: "export" });
    v.push(Def { text: "ra=(x 'y z'); readonly ra".into(), kind: "readonly" });
    v.push(Def { text: "xa=(); export xa; readonly xa".into(), kind: "export" });
    v.push(Def { text: "export nv".into(), kind: "export" });
    v.push(Def { text: "readonly nr".into(), kind: "readonly" });
    for f in [
        "f() { p a; }",
        "f() { if s 0; then p x; elif s 1; then p y; else p z; fi; }",
        "f() (p a | p b)",
        "f() { case $1 in (a|b) p c;; (*) ;; esac; }",
        "f() { x=1 p a >/dev/null 2>&1 <&-; }",
        "f() { for i in 1 '2 3'; do p \"$i\"; done; while s 1; do p w; done; }",
        "f() { ! p a && p b || { p c; }; }",
        "f() { p a & wait; y=$(p b; p c); p \"${y:-d}\" ${#y} ${y#a*}; }",
        // redirections on the body itself
        "f() { p a; } >&2",
        "f() (p a) 2>/dev/null <&-",
        "f() if s 0; then p a; fi </dev/null >>/tmp/o",
        "f() while s 1; do p a; done 3>&1",
        "f() { { p a; } >/dev/null; } 2>&1",
        "g() { f() { p inner; }; }",
    ] {
        v.push(Def { text: f.to_string(), kind: "func" });
    }
    // simple commands whose *name* is a reserved word (legal after a redirection or an assignment):
    // the listing must not move the word to the front, where it would be read as the keyword
    {
        const KW: [&str; 18] = ["if", "then", "else", "elif", "fi", "do", "done", "case", "esac", "while", "until", "for", "{", "}", "!", "in", "function", "[["];
        let redir: String = KW.iter().map(|k| format!(">/dev/null {k}; ")).collect();
        let assign: String = KW.iter().map(|k| format!("x=1 {k} a; ")).collect();
        let both: String = KW.iter().map(|k| format!("x=1 2>&1 {k} <&- b; ")).collect();
        v.push(Def { text: format!("kr() {{ {redir}}}"), kind: "func" });
        v.push(Def { text: format!("ka() {{ {assign}}}"), kind: "func" });
        v.push(Def { text: format!("kb() {{ if s 0; then {both}fi; }}"), kind: "func" });
    }
    // functions whose names need care in a listing: reserved words, blanks, pattern characters
    for f in ["\\if() { p kw; }", "\\done() { p kw2; }", "\"a b\"() { p sp; }", "'f*'() { p st; }", "f\\$x() { p dl; }"] {
        v.push(Def { text: f.to_string(), kind: "func" });
    }
    // variables whose *names* need care: a leading hyphen or plus sign (read as options unless the
    // listing puts `--` first), blanks, quotes, pattern and expansion characters, non-ASCII, a
    // newline — alone and combined ("whatever characters the names and values contain"). Such
    // variables come from the environment or from `typeset -- 'name=value'`.
    for (i, n) in NASTY_NAMES.iter().enumerate() {
        let val = NASTY[(i * 7) % NASTY.len()].replace(';', ":");
        v.push(Def { text: format!("typeset -- {}", sq(&format!("{n}={val}"))), kind: "nvar" });
        match i % 3 {
            0 => v.push(Def { text: format!("export -- {}", sq(&format!("{n}={val}"))), kind: "nexport" }),
            1 => v.push(Def { text: format!("readonly -- {}", sq(&format!("{n}={val}"))), kind: "nreadonly" }),
            _ => v.push(Def { text: format!("typeset -x -- {}", sq(n)), kind: "nexport" }),
        }
    }
    // functions named with a leading hyphen / plus sign, with and without an attribute to list
    for f in ["\\-fn() { p h; }", "+fn() { p pl; }", "\\-fr() { p h; }; readonly -f -- -fr", "+fr() { p pl; }; readonly -f -- +fr"] {
        v.push(Def { text: f.to_string(), kind: "func" });
    }
    for o in ["allexport", "noclobber", "noglob", "nounset", "pipefail", "errexit"] {
        v.push(Def { text: format!("set -o {o}"), kind: "option" });
    }
    // every signal of the system except KILL and STOP, by number (the listing prints names,
    // including RTMIN+n / RTMAX-n), in two halves so that pairs combine them with other state
    {
        use yash_env::system::Signals;
        let sys = yash_env::system::r#virtual::VirtualSystem::new();
        let nums: Vec<i32> = (1..=255)
            .filter(|n| sys.validate_signal(*n).is_some_and(|(name, _)| !matches!(name.to_string().as_str(), "KILL" | "STOP")))
            .collect();
        assert!(nums.len() > 30, "signal table unexpectedly small: {nums:?}");
        for (k, half) in nums.chunks(nums.len().div_ceil(2)).enumerate() {
            let mut t = String::new();
            for n in half {
                t.push_str(&format!("trap 'p t{n}' {n}; "));
            }
            t.push_str(if k == 0 { "trap '' 3" } else { "trap '' 201 209" });
            v.push(Def { text: t, kind: "trap" });
        }
    }
    v.push(Def { text: "trap '' INT".into(), kind: "trap" });
    v.push(Def { text: "trap - USR1".into(), kind: "trap" });
    for m in ["027", "077", "000", "u=rwx,g=rx,o="] {
        v.push(Def { text: format!("umask {m}"), kind: "umask" });
    }
    v
}

/// (printer command, how the output is evaluated, snapshot section, filter)
struct Printer {
    cmd: &'static str,
    prefix: &'static str,
    section: &'static str,
    filter: fn(&str) -> Vec<String>,
}

fn entries(s: &str) -> Vec<String> {
    s.split(';').filter(|e| !e.is_empty()).map(|e| e.to_string()).collect()
}
fn user_vars(s: &str) -> Vec<String> {
    entries(s).into_iter().filter(|e| e.starts_with('v') || e.starts_with('e') || e.starts_with('r') || e.starts_with("arr")).filter(|e| !e.starts_with("ext")).collect()
}
fn exported(s: &str) -> Vec<String> {
    // export -p lists the exported variables: name, value and the export attribute
    user_vars(s).into_iter().filter(|e| e.ends_with(" x") || e.ends_with(" x ro")).map(|e| e.trim_end_matches(" ro").to_string()).collect()
}
fn readonly(s: &str) -> Vec<String> {
    // readonly -p lists the read-only variables: name, value and the read-only attribute
    user_vars(s).into_iter().filter(|e| e.ends_with(" ro")).map(|e| e.replace(" x ro", " ro")).collect()
}
fn nasty_named(s: &str) -> Vec<String> {
    entries(s).into_iter().filter(|e| NASTY_NAMES.iter().any(|n| e.strip_prefix(n).is_some_and(|r| r.starts_with('=')))).collect()
}
fn nasty_exported(s: &str) -> Vec<String> {
    nasty_named(s).into_iter().filter(|e| e.ends_with(" x") || e.ends_with(" x ro")).map(|e| e.trim_end_matches(" ro").to_string()).collect()
}
fn nasty_readonly(s: &str) -> Vec<String> {
    nasty_named(s).into_iter().filter(|e| e.ends_with(" ro")).map(|e| e.replace(" x ro", " ro")).collect()
}
fn values_only(s: &str) -> Vec<String> {
    user_vars(s).into_iter().map(|e| e.trim_end_matches(" ro").trim_end_matches(" x").to_string()).collect()
}
fn whole(s: &str) -> Vec<String> {
    vec![s.to_string()]
}
fn trap_actions(s: &str) -> Vec<String> {
    // "Cond:action/origin": origin differs legitimately (user vs inherited): keep cond and action
    entries(s)
        .into_iter()
        .filter(|e| !e.contains("Number(102)"))
        .map(|e| e.rsplit_once('/').map(|(a, _)| a.to_string()).unwrap_or(e))
        .filter(|e| !e.ends_with(":default"))
        .collect()
}

fn printers(kind: &str) -> Vec<Printer> {
    match kind {
        "alias" => vec![Printer { cmd: "alias", prefix: "ALIAS", section: "aliases", filter: entries }],
        "var" => vec![
            Printer { cmd: "typeset -p", prefix: "", section: "vars", filter: user_vars },
            Printer { cmd: "set", prefix: "", section: "vars", filter: values_only },
        ],
        "export" => vec![
            Printer { cmd: "export -p", prefix: "", section: "vars", filter: exported },
            Printer { cmd: "typeset -p", prefix: "", section: "vars", filter: user_vars },
        ],
        "readonly" => vec![
            Printer { cmd: "readonly -p", prefix: "", section: "vars", filter: readonly },
            Printer { cmd: "typeset -p", prefix: "", section: "vars", filter: user_vars },
        ],
        "nvar" => vec![Printer { cmd: "typeset -p", prefix: "", section: "vars", filter: nasty_named }],
        "nexport" => vec![
            Printer { cmd: "export -p", prefix: "", section: "vars", filter: nasty_exported },
            Printer { cmd: "typeset -p", prefix: "", section: "vars", filter: nasty_named },
        ],
        "nreadonly" => vec![
            Printer { cmd: "readonly -p", prefix: "", section: "vars", filter: nasty_readonly },
            Printer { cmd: "typeset -p", prefix: "", section: "vars", filter: nasty_named },
        ],
        "func" => vec![Printer { cmd: "typeset -fp", prefix: "", section: "funcs", filter: entries }],
        "option" => vec![Printer { cmd: "set +o", prefix: "", section: "options", filter: whole }],
        "trap" => vec![Printer { cmd: "trap", prefix: "", section: "traps", filter: trap_actions }],
        "umask" => vec![
            Printer { cmd: "umask", prefix: "UMASK", section: "umask", filter: whole },
            Printer { cmd: "umask -S", prefix: "UMASK", section: "umask", filter: whole },
        ],
        _ => vec![],
    }
}

fn snap_of(r: &Run, tag: &str) -> Option<BTreeMap<String, String>> {
    r.trace.iter().find_map(|e| e.text.strip_prefix(&format!("snap {tag} ")).map(parse_snapshot))
}

fn roundtrip(ctx: &Ctx, history: &[&Def], runs: &AtomicU64) {
    let defs_text: String = history.iter().map(|d| format!("{}\n", d.text)).collect();
    let mut kinds: Vec<&str> = history.iter().map(|d| d.kind).collect();
    kinds.sort();
    kinds.dedup();
    for kind in kinds {
        for pr in printers(kind) {
            // alias: one listing per alias name (the output is "suitable for reuse as input to alias")
            let listing_cmds: Vec<String> = if pr.prefix == "ALIAS" {
                let mut v: Vec<String> = history
                    .iter()
                    .filter(|d| d.kind == "alias")
                    .map(|d| {
                        let name = d.text.trim_start_matches("alias -g ").trim_start_matches("alias ").split('=').next().unwrap().to_string();
                        format!("alias {name}")
                    })
                    .collect();
                if v.len() == 1 {
                    v.push("alias".into());
                }
                v
            } else {
                vec![pr.cmd.to_string()]
            };
            let script1 = format!(
                "{defs_text}snap s1\n{}",
                listing_cmds.iter().enumerate().map(|(i, c)| format!("{c} >/tmp/out{i}\n")).collect::<String>()
            );
            let mut s1 = Setup::script(&script1);
            s1.cwd = Some("/".into());
            let r1 = vsh::run_once(&s1, &Default::default());
            runs.fetch_add(1, Relaxed);
            let Some(snap1) = snap_of(&r1, "s1") else {
                // the definitions themselves failed (e.g. errexit + something): not a printer issue
                continue;
            };
            let mut script2 = String::new();
            let mut setup2 = Setup::default();
            let mut listings = vec![];
            for i in 0..listing_cmds.len() {
                let out = read_file(&r1.state, &format!("/tmp/out{i}")).unwrap_or_default();
                let out = String::from_utf8_lossy(&out).into_owned();
                listings.push(out.clone());
                let body = match pr.prefix {
                    "ALIAS" => {
                        if listing_cmds[i] == "alias" && history.iter().filter(|d| d.kind == "alias").count() != 1 {
                            continue;
                        }
                        let global = history.iter().any(|d| d.text.starts_with("alias -g"));
                        format!("alias {}-- {}", if global { "-g " } else { "" }, out)
                    }
                    "UMASK" => format!("umask {out}"),
                    _ => out,
                };
                setup2.files.push((format!("/tmp/in{i}"), body.into_bytes(), 0o644));
                script2.push_str(&format!(". /tmp/in{i}\n"));
            }
            script2.push_str("snap s2\n");
            setup2.argv = vec!["yash".into(), "-c".into(), script2.clone()];
            setup2.cwd = Some("/".into());
            let r2 = vsh::run_once(&setup2, &Default::default());
            runs.fetch_add(1, Relaxed);
            let describe = || json!({"definitions": defs_text, "printer": pr.cmd, "listing": listings, "script2": script2});
            let Some(snap2) = snap_of(&r2, "s2") else {
                // two recorded defects of function listings have keys of their own
                let sub = if r2.stderr.contains("`function` keyword is not yet supported") {
                    ":function-keyword-not-readable"
                } else if listings.iter().any(|l| l.lines().any(|line| RESERVED.iter().any(|k| line.starts_with(&format!("{k}()"))))) {
                    ":reserved-word-name-printed-bare"
                } else {
                    ""
                };
                ctx.violation(
                    &format!("c07:listing-{}{sub}", pr.cmd.replace(' ', "_")),
                    &format!("evaluating the output of `{}` failed: stderr={:?}; listing={listings:?}", pr.cmd, r2.stderr),
                    describe(),
                );
                continue;
            };
            let a = (pr.filter)(snap1.get(pr.section).map(|s| s.as_str()).unwrap_or(""));
            let b = (pr.filter)(snap2.get(pr.section).map(|s| s.as_str()).unwrap_or(""));
            // (an EXIT trap recreated in the second shell runs when it exits and may legitimately complain)
            let stderr_matters = kind != "trap";
            if a != b || (stderr_matters && !r2.stderr.is_empty()) {
                ctx.violation(
                    &format!("c07:listing-{}", pr.cmd.replace(' ', "_")),
                    &format!("`{}` output does not recreate the state: original {a:?}, recreated {b:?}; stderr={:?}; listing={listings:?}", pr.cmd, r2.stderr),
                    describe(),
                );
            }
        }
    }
}

const RESERVED: [&str; 16] = ["if", "then", "else", "elif", "fi", "do", "done", "case", "esac", "while", "until", "for", "in", "{", "}", "!"];

pub fn replay(case: &serde_json::Value) -> i32 {
    if let Some(s) = case["string"].as_str() {
        let mut env = part_a_env();
        let q = quote(s).into_owned();
        let w = Word::from_str(&q);
        println!("string {s:?} quoted {q:?} word {:?}", w.as_ref().map(|w| w.to_string()));
        if let Ok(w) = w {
            println!("fields: {:?}", expand_words(&mut env, std::iter::once(&w)).now_or_never().map(|r| r.map(|(f, _)| f.into_iter().map(|f| f.value).collect::<Vec<_>>())));
        }
        return 1;
    }
    println!("{}", serde_json::to_string_pretty(case).unwrap());
    1
}

/// (c) The `trap` listing made in a subshell: it shows the parent's traps until the subshell
/// runs a `trap` command with operands (so that `x=$(trap)` works), and from then on describes the
/// subshell itself — whether or not that command could change anything. The shell is started with
/// SIGHUP ignored (cannot be trapped or reset in a non-interactive shell).
fn subshell_listings(ctx: &Ctx) -> u64 {
    use std::collections::BTreeSet;
    // (command, effect on the subshell's own table: (signal, Some(text) = listed with that action, None = not listed))
    let cmds: [(&str, Option<(&str, Option<&str>)>); 5] = [
        ("trap 'p h' HUP", None),           // ignored at start-up: silently ineffective
        ("trap 'p i' INT", Some(("INT", Some("'p i'")))),
        ("trap - TERM", Some(("TERM", None))),
        ("trap '' USR1", Some(("USR1", Some("''")))),
        ("trap - HUP", None),               // cannot be reset either
    ];
    let mut hists: Vec<Vec<usize>> = vec![vec![]];
    for a in 0..cmds.len() {
        hists.push(vec![a]);
        for b in 0..cmds.len() {
            hists.push(vec![a, b]);
        }
    }
    let mut n = 0;
    for h in &hists {
        for kind in ["subshell", "substitution"] {
            let inner: String = h.iter().map(|i| format!("{}; ", cmds[*i].0)).collect();
            let script = match kind {
                "subshell" => format!("trap 'p c' TERM; trap '' QUIT; trap 'p u' USR1\n({inner}trap)\n"),
                _ => format!("trap 'p c' TERM; trap '' QUIT; trap 'p u' USR1\nx=$({inner}trap)\necho \"$x\"\n"),
            };
            let mut setup = Setup::script(&script);
            setup.ignored_signals = vec![1];
            let r = vsh::run_once(&setup, &Default::default());
            n += 1;
            let got: BTreeSet<String> = r.stdout.lines().map(|l| l.to_string()).collect();
            let mut want: BTreeSet<String> = BTreeSet::new();
            if h.is_empty() {
                for l in ["trap -- '' HUP", "trap -- '' QUIT", "trap -- 'p c' TERM", "trap -- 'p u' USR1"] {
                    want.insert(l.to_string());
                }
            } else {
                // the subshell's own table: command traps were reset on entry, ignored signals stay ignored
                let mut table: std::collections::BTreeMap<&str, &str> = [("HUP", "''"), ("QUIT", "''")].into_iter().collect();
                for i in h {
                    if let Some((sig, act)) = cmds[*i].1 {
                        match act {
                            Some(a) => {
                                table.insert(sig, a);
                            }
                            None => {
                                table.remove(sig);
                            }
                        }
                    }
                }
                for (sig, act) in table {
                    want.insert(format!("trap -- {act} {sig}"));
                }
            }
            if got != want || r.panic.is_some() {
                ctx.violation(
                    "c07:subshell-trap-listing",
                    &format!("{kind} after {:?}: `trap` printed {got:?}, expected {want:?}; stderr={:?}", h.iter().map(|i| cmds[*i].0).collect::<Vec<_>>(), r.stderr),
                    json!({"script": script, "ignored_at_startup": ["HUP"]}),
                );
            }
        }
    }
    n
}

pub fn run(tier: Tier) -> i32 {
    let ctx = Ctx::new("C07", "exploration", tier);
    let subshell_runs = subshell_listings(&ctx);
    let qmax = tier.pick(3, 4);
    let n = ALPHABET.len();
    let strings = AtomicU64::new(0);
    let needing = AtomicU64::new(0);
    let samples = Samples::new(8);
    // enumerate by first character in parallel
    (0..=n).into_par_iter().for_each(|first| {
        let mut env = part_a_env();
        let mut stack: Vec<String> = if first == n { vec![String::new()] } else { vec![ALPHABET[first].to_string()] };
        if first == n {
            check_string(&ctx, &mut env, "");
            strings.fetch_add(1, Relaxed);
            return;
        }
        while let Some(s) = stack.pop() {
            check_string(&ctx, &mut env, &s);
            strings.fetch_add(1, Relaxed);
            if quote(&s) != s {
                needing.fetch_add(1, Relaxed);
            }
            if first == 3 {
                samples.offer(|| json!({"string": s, "quoted": quote(&s)}));
            }
            if s.chars().count() < qmax {
                for c in ALPHABET {
                    stack.push(format!("{s}{c}"));
                }
            }
        }
    });

    // (b) histories of <= 2 definitions
    let ds = defs();
    let runs = AtomicU64::new(0);
    let mut histories: Vec<Vec<&Def>> = ds.iter().map(|d| vec![d]).collect();
    let step = tier.pick(7, 1);
    for (i, a) in ds.iter().enumerate() {
        for (j, b) in ds.iter().enumerate() {
            if i != j && (i * 13 + j) % step == 0 {
                histories.push(vec![a, b]);
            }
        }
    }
    histories.par_iter().for_each(|h| roundtrip(&ctx, h, &runs));
    let cov = json!({
        "evaluations": strings.load(Relaxed) * 2 + runs.load(Relaxed) + subshell_runs,
        "subshell_trap_listings": subshell_runs,
        "distinct_nontrivial": needing.load(Relaxed) + histories.len() as u64,
        "rule": format!("(a) every string of length <= {qmax} over {} characters (all shell-special characters, quotes, blank/tab/newline, NEL, NBSP, U+2028, U+3000, é, a, 0): quote(s) is lexed as one word and expanded as an argument (with $a, $HOME, positional parameters, ~a home directories and globbable files present) and as the value of an assignment; both must give exactly s. (b) every single definition and {} ordered pairs out of {} definitions (aliases incl. global, scalars, arrays, exported, read-only, functions with every compound construct, set -o options, traps, umask) with 20 nasty strings; each relevant printer's output (alias NAME / alias, typeset -p, set, export -p, readonly -p, typeset -fp, set +o, trap, umask, umask -S) is evaluated by a fresh shell and the listed part of the state snapshot must be identical. (c) the `trap` listing printed inside ( ) and $( ) after every history of <= 2 trap commands in the subshell (incl. commands that cannot take effect because the signal was ignored at start-up): the parent's traps before the first trap command with operands, the subshell's own table afterwards. Non-trivial = strings that needed quoting + histories.", ALPHABET.len(), histories.len() - ds.len(), ds.len()),
        "samples": samples.take(),
        "strings": strings.load(Relaxed),
        "strings_needing_quoting": needing.load(Relaxed),
        "definition_histories": histories.len(),
        "shell_runs": runs.load(Relaxed),
        "exhaustive": true,
    });
    ctx.finish(cov, &["command-name position is not demanded (reserved words are legitimately unquoted there)", "alias listings are fed back as operands of `alias --` (as documented), umask listings as the operand of umask"])
}
