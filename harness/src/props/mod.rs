pub mod c12;
