pub mod c12;
pub mod c13;
