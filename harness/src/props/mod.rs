pub mod c12;
pub mod c13;
pub mod c14;
pub mod c16;
pub mod c09;
pub mod c08;
pub mod c02;
pub mod c10;
