//! C19: the simulated OS and the real OS give the shell the same observable
//! behaviour. Every program of up to N steps over file/descriptor/pipe/signal
//! operations runs on the simulator (vsh) and on the real kernel (the same
//! harness binary with RealSystem, in a fresh scratch directory).

use crate::common::*;
use crate::vsh::{self, *};
use rayon::prelude::*;
use serde_json::json;
use std::collections::BTreeMap;
use std::os::unix::fs::PermissionsExt;
use std::os::unix::process::ExitStatusExt;
use std::sync::atomic::{AtomicU64, Ordering::Relaxed};

/// (step text, operation class)
const STEPS: &[(&str, &str)] = &[
    ("echo A >f", "create"),
    ("echo B >>f", "append"),
    ("echo C >|f", "clobber"),
    ("set -C; echo D >f; echo $?", "noclobber"),
    ("echo E >e", "truncate-existing"),
    ("cat <f", "read"),
    ("cat <e", "read"),
    ("cat <missing; echo $?", "read-missing"),
    ("echo x >d/n; cat <d/n", "create-in-dir"),
    ("echo x >nodir/f; echo $?", "create-missing-parent"),
    ("echo x >d; echo $?", "write-directory"),
    ("cat <d; echo $?", "read-directory"),
    ("echo x >e/sub; echo $?", "file-as-directory"),
    ("exec 3>f; echo F >&3; exec 3>&-; cat <f", "exec-fd"),
    ("exec 4<e; cat <&4; exec 4<&-", "exec-fd"),
    ("echo x >&7; echo $?", "closed-fd"),
    ("cat <&7; echo $?", "closed-fd"),
    ("cat <>e", "read-write"),
    (": <>new; cat <new", "read-write-create"),
    ("cd d; pwd; cd ..; pwd", "cd"),
    ("cd missing; echo $?; pwd", "cd-missing"),
    ("cd e; echo $?", "cd-file"),
    ("cd d; echo H >h; cd ..; cat <d/h", "cd-relative"),
    ("echo *", "glob"),
    ("echo d/* .??*", "glob"),
    ("cd d; echo *; (echo *); cd ..", "glob-subshell-cwd"),
    ("echo a | cat", "pipeline"),
    ("echo a | cat | cat", "pipeline"),
    ("echo a | (cd d; cat >p); cat <d/p", "pipeline-cwd"),
    ("x=$(echo hi; echo there); echo \"$x\"", "command-substitution"),
    ("(echo sub; exit 3); echo $?", "subshell"),
    ("trap 'echo T' USR1; kill -s USR1 $$; echo after", "trap-self-signal"),
    ("trap '' TERM; kill -s TERM $$; echo alive", "ignore-self-signal"),
    ("trap 'echo X' EXIT; echo body", "exit-trap"),
    ("umask 027; echo m >m027; umask 077; echo n >m077; umask", "umask"),
    ("umask 022; (umask; echo s >msub)", "umask-subshell"),
    ("(exit 3) & wait $!; echo $?", "wait"),
    ("echo bg >b & wait; cat <b", "wait"),
    ("(exit 1) & (exit 2) & wait; echo $?", "wait-all"),
    ("(kill -s TERM $$; echo no); echo st=$?", "child-kills-parent"),
    ("(trap '' TERM; kill -s KILL $$; echo no); echo st=$?", "child-kills-parent"),
    ("trap 'echo t' TERM; { while :; do :; done; } & kill -s TERM $!; wait $!; echo st=$?", "parent-kills-child"),
    ("{ while :; do :; done; } & kill -s KILL $!; wait $!; echo st=$?", "parent-kills-child"),
    ("kill -s TERM $$; echo unreachable", "self-kill"),
    ("exit 7", "exit"),
    // stopped children
    ("{ { while :; do :; done; } & kill -s STOP $!; kill -s KILL $!; wait $!; echo st=$?; } | cat", "stopped-child-killed-holding-pipe"),
    ("trap - TERM; { while :; do :; done; } & kill -s STOP $!; kill -s CONT $!; kill -s TERM $!; wait $!; echo st=$?", "stop-cont-term"),
    ("trap - TERM; { while :; do :; done; } & kill -s STOP $!; kill -s TERM $!; kill -s CONT $!; wait $!; echo st=$?", "term-while-stopped-then-cont"),
    // a signal that stays pending in the parent while it forks again is not the child's
    ("trap 'echo T' USR1; echo \"$(kill -s USR1 $$)\" \"$(echo alive)\"", "signal-pending-across-fork"),
    ("trap 'echo T' USR1; x=$(kill -s USR1 $$)$(exit 7); echo $?", "signal-pending-across-fork"),
    ("trap 'echo T' USR1; echo \"$(kill -s USR1 $$; echo one)\" | cat; (echo sub); echo done", "signal-pending-across-fork"),
    // symbolic links (fixture: l -> e, ld -> d, dangling -> nowhere)
    ("cat <l", "symlink-read"),
    ("echo S >l; cat <e", "symlink-write"),
    ("cat <ld/g", "symlink-dir-read"),
    ("echo x >ld/n; cat <d/n", "symlink-dir-create"),
    ("cat <dangling; echo $?", "symlink-dangling-read"),
    ("echo z >dangling; echo $?; cat <nowhere", "symlink-dangling-create"),
    ("cd ld; pwd; cd ..; pwd", "cd-symlink-logical"),
    ("cd -P ld; pwd; cd ..; pwd", "cd-symlink-physical"),
    ("echo ld/* l*", "glob-symlink"),
    // open file descriptions: offsets shared through dup and fork, O_APPEND, read-write
    ("exec 3>f; echo a >&3; (echo b >&3); echo c >&3; exec 3>&-; cat <f", "shared-offset-write"),
    ("exec 3<e2; read x <&3; (read y <&3; echo $y); read z <&3; echo $x $z; exec 3<&-", "shared-offset-read"),
    ("exec 3>>f 4>>f; echo a >&3; echo b >&4; echo c >&3; exec 3>&- 4>&-; cat <f", "append-two-fds"),
    ("echo 12345 >f; exec 3<>f; echo X >&3; cat <&3; exec 3>&-; cat <f", "read-write-offset"),
    ("exec 3>f; exec 4>&3; echo a >&4; echo b >&3; exec 3>&- 4>&-; cat <f", "dup-shared-offset"),
    ("exec 3>f; echo a >&3; echo b >f; echo c >&3; exec 3>&-; cat <f", "two-descriptions-one-file"),
    (": >e; cat <e; echo empty", "truncate-by-null-command"),
    ("exec 3>>f; echo aa >&3; echo bb >&3; : >f; echo c >&3; exec 3>&-; cat <f", "append-after-truncate"),
    ("exec 3>f; echo aaaa >&3; : >f; echo b >&3; exec 3>&-; cat <f | cat", "write-after-truncate-keeps-offset"),
    ("echo 123456789 >f; exec 3<f; read x <&3; : >f; echo zz >>f; read y <&3; echo \"$x|$y|$?\"; exec 3<&-", "read-after-truncate"),
    ("exec 3<e; exec 3<&-; cat <&3; echo $?", "closed-after-exec"),
    // descriptor limits: a system call that fails for lack of descriptors allocates nothing
    ("(trap 'ulimit -S -n 64; cat <&3; echo r=$?' EXIT; ulimit -S -n 4; echo a | cat); echo st=$?", "pipe-under-descriptor-limit"),
    ("(trap 'ulimit -S -n 64; cat <&3; echo r=$?; cat <&4; echo r=$?' EXIT; ulimit -S -n 4; x=$(echo hi); echo \"$x\"); echo st=$?", "pipe-under-descriptor-limit"),
    ("(ulimit -S -n 5; echo a | cat; echo st=$?)", "pipe-under-descriptor-limit"),
    ("(ulimit -S -n 12; echo a | cat | cat; echo st=$?)", "pipe-under-descriptor-limit"),
    ("(ulimit -S -n 4; exec 3<e; echo $?; exec 4<e; echo $?; cat <&3)", "open-under-descriptor-limit"),
    ("(ulimit -S -n 11; echo x >f; echo st=$?; cat <f; { echo y >f; } >&2; echo st=$?; cat <f)", "open-under-descriptor-limit"),
    // exit statuses are 8 bits wide for the parent
    ("(exit 256); echo $?; (exit 263); echo $?", "exit-status-width"),
    ("(exit 300) & wait $!; echo $?", "exit-status-width"),
    ("exit 263", "exit-status-width"),
    // path edge cases
    ("cat <''; echo $?", "empty-path"),
    ("echo x >''; echo $?", "empty-path"),
    ("cd ''; echo $?; pwd", "empty-path"),
    ("echo x >newf/; echo $?", "trailing-slash-create"),
    ("cat <e/; echo $?", "trailing-slash-file"),
    ("cat <d/g/; echo $?", "trailing-slash-file"),
    // a failed open leaves the file alone
    ("echo old >f; (ulimit -S -n 3; echo new >f); cat <f", "open-fails-file-untouched"),
    ("(ulimit -S -n 3; echo new >created); echo *", "open-fails-file-untouched"),
    // a reaped child is gone
    ("(exit 0) & wait $!; kill -s TERM $!; echo st=$?", "signal-to-reaped-child"),
    ("cat <<E\nhere $((1+1))\nE", "here-document"),
    ("cat <<E | cat\npiped\nE", "here-document-pipeline"),
    // a here-document on a descriptor that is closed and the lowest free one: the temporary file
    // may be opened right there, and must then be an ordinary (inheritable, copyable) descriptor
    ("cat 3<<E <&3\nhere3\nE", "here-document-on-free-descriptor"),
    ("exec 3<<E\nkept\nE\ncat <&3; exec 3<&-; cat <&3; echo $?", "here-document-on-free-descriptor"),
    ("{ cat <&4; } 4<<E 3</dev/null\ngroup\nE", "here-document-on-free-descriptor"),
    ("exec 3<<E\nsub\nE\n(cat <&3); exec 4<&3 3<&-; cat <&4", "here-document-on-free-descriptor"),
    // `wait` while the only child left is a stopped one whose stop has been seen already and a
    // later child has been reaped: the shell keeps waiting (the other side of the pipeline
    // continues and ends the job)
    ("{ trap - TERM; { while :; do :; done; } & p=$!; kill -s STOP $p; (exit 0); echo $p; wait $p; echo st=$?; } | { read p; kill -s CONT $p; kill -s TERM $p; cat; }", "wait-with-only-a-stopped-child"),
    ("{ trap - TERM; { while :; do :; done; } & p=$!; kill -s STOP $p; (exit 0); (exit 1); echo $p; wait; echo st=$?; } | { read p; kill -s CONT $p; kill -s TERM $p; cat; }", "wait-with-only-a-stopped-child"),
    ("cd d; cd ..; cd -; pwd", "cd-oldpwd"),
    ("read a b <e2; echo \"$a|$b\"", "read-file"),
    // a symbolic link to a directory as a component that is not the last one (fixture: d/s/k, l2 -> ld/s)
    ("cd ld/s; pwd; pwd -P; cd ..; pwd", "cd-through-symlink-component"),
    ("cd -P ld/s; pwd; echo x >n; cd ../..; pwd; cat <d/s/n", "cd-through-symlink-component"),
    ("cd -P ld/..; pwd; cd -P ld/../ld/s/..; pwd", "cd-through-symlink-component"),
    ("cd l2; pwd -P; cd -P ..; pwd", "cd-through-symlink-chain"),
    ("cd -P l2/..; pwd; cat <g", "cd-through-symlink-chain"),
    ("cat <l2/k; echo y >l2/m; cat <d/s/m; cat <ld/s/k", "symlink-chain-open"),
    ("echo x >newf/.; echo $?; echo *", "trailing-dot-create"),
    ("PATH=$PWD; command -v d; echo $?; command -v e; echo $?", "command-search-non-executable"),
    ("while read l; do echo \"[$l]\"; done <e2", "read-loop"),
];

#[derive(Debug, Clone, PartialEq, Eq)]
struct Obs {
    stdout: String,
    stderr_empty: bool,
    /// "exit N" or "signal N"
    status: String,
    /// path -> (kind, mode, content)
    tree: BTreeMap<String, (char, u32, String)>,
}

fn sim_run(script: &str) -> Obs {
    let full = format!("cd /tmp/w\n{script}\n");
    let mut setup = Setup::script(&full);
    setup.dirs.push("/tmp/w".into());
    setup.dirs.push("/tmp/w/d".into());
    setup.files.push(("/tmp/w/e".into(), b"E\n".to_vec(), 0o644));
    setup.files.push(("/tmp/w/d/g".into(), b"G\n".to_vec(), 0o644));
    setup.files.push(("/tmp/w/e2".into(), b"1\n2 two\n3\n".to_vec(), 0o644));
    setup.dirs.push("/tmp/w/d/s".into());
    setup.files.push(("/tmp/w/d/s/k".into(), b"K\n".to_vec(), 0o644));
    setup.symlinks.push(("/tmp/w/l2".into(), "ld/s".into()));
    setup.symlinks.push(("/tmp/w/l".into(), "e".into()));
    setup.symlinks.push(("/tmp/w/ld".into(), "d".into()));
    setup.symlinks.push(("/tmp/w/dangling".into(), "nowhere".into()));
    setup.cwd = Some("/".into());
    // the simulator's default umask differs from a real process's; start both from 022
    setup.state_hook = Some(std::rc::Rc::new(|st: &mut yash_env::system::r#virtual::SystemState| {
        let _ = st;
    }));
    let full = format!("umask 022\n{full}");
    setup.argv = vec!["yash".into(), "-c".into(), full];
    let r = vsh::run_once(&setup, &Default::default());
    let status = match &r.end {
        End::Exited(n) => format!("exit {}", n & 0xff),
        End::Signaled(n) => format!("signal {}", sim_signal_name(*n)),
        other => format!("{other:?}"),
    };
    // walk the simulated tree under /tmp/w
    let mut tree = BTreeMap::new();
    fn walk(st: &yash_env::system::r#virtual::SystemState, dir: &str, rel: &str, out: &mut BTreeMap<String, (char, u32, String)>) {
        use yash_env::system::r#virtual::FileBody;
        let Ok(node) = st.file_system.get(dir) else {
            return;
        };
        let node = node.borrow();
        if let FileBody::Directory { files } = &node.body {
            for (name, child) in files {
                let name = name.to_string_lossy().into_owned();
                let path = if rel.is_empty() { name.clone() } else { format!("{rel}/{name}") };
                let c = child.borrow();
                let mode = c.permissions.bits() as u32 & 0o777;
                match &c.body {
                    FileBody::Regular { content, .. } => {
                        out.insert(path, ('f', mode, String::from_utf8_lossy(content).into_owned()));
                    }
                    FileBody::Directory { .. } => {
                        out.insert(path.clone(), ('d', 0, String::new()));
                        drop(c);
                        walk(st, &format!("{dir}/{name}"), &path, out);
                    }
                    FileBody::Symlink { target } => {
                        out.insert(path, ('l', 0, target.to_string_lossy().into_owned()));
                    }
                    _ => {
                        out.insert(path, ('?', mode, String::new()));
                    }
                }
            }
        }
    }
    walk(&r.state.borrow(), "/tmp/w", "", &mut tree);
    Obs { stdout: r.stdout.replace("/tmp/w", "$W").replace("/tmp\n", "$P\n"), stderr_empty: r.stderr.is_empty(), status, tree }
}

fn sim_signal_name(n: i32) -> String {
    SIGNALS.iter().find(|(_, k)| *k == n).map(|(s, _)| s.to_string()).unwrap_or_else(|| n.to_string())
}

fn real_signal_name(n: i32) -> String {
    match n {
        1 => "HUP",
        2 => "INT",
        3 => "QUIT",
        9 => "KILL",
        10 => "USR1",
        12 => "USR2",
        13 => "PIPE",
        15 => "TERM",
        _ => return n.to_string(),
    }
    .to_string()
}

fn real_run(script: &str, scratch_root: &std::path::Path, n: u64) -> Obs {
    let dir = scratch_root.join(format!("c{n}"));
    let _ = std::fs::remove_dir_all(&dir);
    std::fs::create_dir_all(dir.join("d/s")).unwrap();
    std::fs::write(dir.join("d/s/k"), "K\n").unwrap();
    std::fs::write(dir.join("e"), "E\n").unwrap();
    std::fs::write(dir.join("d/g"), "G\n").unwrap();
    std::fs::write(dir.join("e2"), "1\n2 two\n3\n").unwrap();
    for (l, t) in [("l", "e"), ("ld", "d"), ("dangling", "nowhere"), ("l2", "ld/s")] {
        std::os::unix::fs::symlink(t, dir.join(l)).unwrap();
    }
    for p in ["e", "d/g", "e2", "d/s/k"] {
        std::fs::set_permissions(dir.join(p), std::fs::Permissions::from_mode(0o644)).unwrap();
    }
    let exe = std::env::current_exe().unwrap();
    let out_path = scratch_root.join(format!("c{n}.out"));
    let err_path = scratch_root.join(format!("c{n}.err"));
    let mut child = {
        use std::os::unix::process::CommandExt;
        std::process::Command::new(exe)
            .arg("real-shell")
            .arg("-c")
            .arg(format!("umask 022\n{script}\n"))
            .current_dir(&dir)
            .env_clear()
            .stdin(std::process::Stdio::null())
            .stdout(std::fs::File::create(&out_path).unwrap())
            .stderr(std::fs::File::create(&err_path).unwrap())
            .process_group(0)
            .spawn()
            .expect("cannot run the real-shell subprocess")
    };
    let pgid = child.id();
    // the real side runs under a wall-clock limit; the whole process group is killed afterwards
    // so that no orphan (e.g. a busy-looping background child) survives
    let deadline = std::time::Instant::now() + std::time::Duration::from_secs(20);
    let exit = loop {
        match child.try_wait() {
            Ok(Some(st)) => break Some(st),
            Ok(None) if std::time::Instant::now() > deadline => break None,
            Ok(None) => std::thread::sleep(std::time::Duration::from_millis(2)),
            Err(_) => break None,
        }
    };
    // orphans of a shell that has ended (a child that killed its parent and goes on) get a moment to
    // finish — their output belongs to the observation — before the group is killed
    if exit.is_some() {
        let grace = std::time::Instant::now() + std::time::Duration::from_millis(400);
        while std::time::Instant::now() < grace {
            let alive = std::process::Command::new("kill").args(["-0", "--", &format!("-{pgid}")]).stderr(std::process::Stdio::null()).status().is_ok_and(|s| s.success());
            if !alive {
                break;
            }
            std::thread::sleep(std::time::Duration::from_millis(3));
        }
    }
    let _ = std::process::Command::new("kill").args(["-9", "--", &format!("-{pgid}")]).stderr(std::process::Stdio::null()).status();
    if exit.is_none() {
        let _ = child.kill();
        let _ = child.wait();
    }
    let status = match exit {
        None => "timeout".to_string(),
        Some(st) => match (st.code(), st.signal()) {
            (Some(c), _) => format!("exit {c}"),
            (None, Some(s)) => format!("signal {}", real_signal_name(s)),
            _ => "unknown".into(),
        },
    };
    let out_stdout = std::fs::read(&out_path).unwrap_or_default();
    let out_stderr = std::fs::read(&err_path).unwrap_or_default();
    let _ = std::fs::remove_file(&out_path);
    let _ = std::fs::remove_file(&err_path);
    let mut tree = BTreeMap::new();
    fn walk(dir: &std::path::Path, rel: &str, out: &mut BTreeMap<String, (char, u32, String)>) {
        let Ok(rd) = std::fs::read_dir(dir) else {
            return;
        };
        for e in rd.filter_map(|e| e.ok()) {
            let name = e.file_name().to_string_lossy().into_owned();
            let path = if rel.is_empty() { name.clone() } else { format!("{rel}/{name}") };
            let md = e.metadata().unwrap();
            if md.file_type().is_symlink() {
                let t = std::fs::read_link(e.path()).map(|t| t.to_string_lossy().into_owned()).unwrap_or_default();
                out.insert(path, ('l', 0, t));
            } else if md.is_dir() {
                out.insert(path.clone(), ('d', 0, String::new()));
                walk(&e.path(), &path, out);
            } else {
                let content = std::fs::read(e.path()).map(|b| String::from_utf8_lossy(&b).into_owned()).unwrap_or_default();
                out.insert(path, ('f', md.permissions().mode() & 0o777, content));
            }
        }
    }
    walk(&dir, "", &mut tree);
    let cwd = dir.to_string_lossy().into_owned();
    // (a script that climbs above its working directory sees the parent of the fixture: `$P`)
    let stdout = String::from_utf8_lossy(&out_stdout).replace(&cwd, "$W").replace(&*scratch_root.to_string_lossy(), "$P");
    let _ = std::fs::remove_dir_all(&dir);
    Obs { stdout, stderr_empty: out_stderr.is_empty(), status, tree }
}

pub fn replay(case: &serde_json::Value) -> i32 {
    let script = case["script"].as_str().unwrap();
    let root = verif_dir().join("target").join("c19-replay");
    println!("script: {script}\nsimulated: {:?}\nreal:      {:?}", sim_run(script), real_run(script, &root, 0));
    let _ = std::fs::remove_dir_all(&root);
    1
}

pub fn run(tier: Tier) -> i32 {
    let ctx = Ctx::new("C19", "exploration", tier);
    let root = verif_dir().join("target").join(format!("c19-{}", std::process::id()));
    let _ = std::fs::remove_dir_all(&root);
    std::fs::create_dir_all(&root).unwrap();
    // programs: every single step, every ordered pair, (thorough) a slice of triples
    let mut programs: Vec<Vec<usize>> = (0..STEPS.len()).map(|i| vec![i]).collect();
    let terminal = |i: usize| matches!(STEPS[i].1, "exit" | "self-kill" | "child-kills-parent");
    for i in 0..STEPS.len() {
        if terminal(i) {
            continue;
        }
        for j in 0..STEPS.len() {
            if tier == Tier::Quick && (i * 7 + j) % 3 != 0 {
                continue;
            }
            programs.push(vec![i, j]);
        }
    }
    if tier == Tier::Thorough {
        for i in (0..STEPS.len()).step_by(2) {
            for j in (0..STEPS.len()).step_by(3) {
                for k in 0..STEPS.len() {
                    if !terminal(i) && !terminal(j) && (i + j + k) % 4 == 0 {
                        programs.push(vec![i, j, k]);
                    }
                }
            }
        }
    }
    let counter = AtomicU64::new(0);
    let nontrivial = AtomicU64::new(0);
    let samples = Samples::new(8);
    programs.par_iter().for_each(|prog| {
        let script: String = prog.iter().map(|i| STEPS[*i].0).collect::<Vec<_>>().join("\n");
        let n = counter.fetch_add(1, Relaxed);
        let sim = sim_run(&script);
        let real = real_run(&script, &root, n);
        if real.tree.len() != 7 || !real.stdout.is_empty() {
            nontrivial.fetch_add(1, Relaxed);
        }
        if sim != real {
            // classify by (operation class, divergence class) of the first step whose class explains it
            let what = if sim.status != real.status {
                "status"
            } else if sim.stdout != real.stdout {
                "stdout"
            } else if sim.tree != real.tree {
                "files"
            } else {
                "diagnostics"
            };
            // which single steps diverge on their own? attribute the divergence to the first such class
            let mut class = String::new();
            for i in prog {
                let s = STEPS[*i].0;
                let nn = counter.fetch_add(1, Relaxed);
                if sim_run(s) != real_run(s, &root, nn) {
                    class = STEPS[*i].1.to_string();
                    break;
                }
            }
            // The step alphabet has no way to make a directory: a directory that exists only in the
            // simulated tree was created implicitly by open(O_CREAT) (missing parent directories)
            if class.is_empty() && sim.tree.iter().any(|(p, e)| e.0 == 'd' && real.tree.get(p).is_none_or(|r| r.0 != 'd')) {
                class = "create-missing-parent".into();
            }
            if class.is_empty() {
                class = format!("combination:{}", prog.iter().map(|i| STEPS[*i].1).collect::<Vec<_>>().join("+"));
            }
            ctx.violation(
                &format!("c19:{class}:{what}"),
                &format!("simulated {:?} / real {:?}", (&sim.status, &sim.stdout, sim.stderr_empty), (&real.status, &real.stdout, real.stderr_empty)),
                json!({"script": script, "simulated": format!("{sim:?}"), "real": format!("{real:?}")}),
            );
        }
        samples.offer(|| json!({"script": script, "status": real.status, "stdout": real.stdout}));
    });
    let _ = std::fs::remove_dir_all(&root);
    let cov = json!({
        "evaluations": programs.len() * 2,
        "distinct_nontrivial": nontrivial.load(Relaxed),
        "rule": format!("every program of 1 step, every ordered pair (quick: a third) and (thorough) a slice of triples over {} steps covering: create/append/clobber/noclobber/truncate via redirection, reads of existing/missing files, directories in place of files and files in place of directories, missing parent directory, exec descriptor open/dup/close, closed descriptors, <>, cd/pwd incl. failures and relative paths afterwards, globbing incl. in subshells after cd, pipelines, command substitution, subshell exit status, traps with self-signals, ignored self-signals, EXIT trap, umask + created file modes (also in subshells), wait for one/all children, signals between parent and child, exit. Each program runs on the simulator and — in a subprocess of this binary built on RealSystem, in a fresh scratch directory — on the real kernel; stdout, exit status/terminating signal, stderr emptiness and the final file tree (names, types, contents, permission bits) must be identical. Non-trivial = the real run produced output or changed the tree.", STEPS.len()),
        "samples": samples.take(),
        "programs": programs.len(),
        "steps": STEPS.len(),
        "exhaustive": true,
    });
    ctx.finish(cov, &["the real side runs under the host scheduler (deterministic programs only) and as root (permission denials unreachable)", "the real-shell glue reproduces yash_cli::run_as_shell_process from its public pieces with the same generic probe built-ins echo/cat/s/tick"])
}
