//! C08: nothing done in a subshell environment leaks into the parent shell.
//! Mutators (+ ordered pairs) × subshell kinds × preludes × schedules; oracle =
//! snapshots of the complete shell state taken inside the real shell.

use crate::common::*;
use crate::vsh::*;
use rayon::prelude::*;
use serde_json::json;
use std::collections::BTreeMap;
use std::sync::atomic::{AtomicU64, Ordering::Relaxed};

/// (mutator text, snapshot sections it is expected to change in the child)
const MUTATORS: &[(&str, &str)] = &[
    ("v=changed", "vars"),
    ("unset v", "vars"),
    ("export n=1", "vars"),
    ("readonly r=1", "vars"),
    ("g() { p g; }", "funcs"),
    ("unset -f f", "funcs"),
    ("alias a=changed", "aliases"),
    ("unalias a", "aliases"),
    ("alias -g gg=x", "aliases"),
    ("set -a", "options"),
    ("set -C", "options"),
    ("set -f", "options"),
    ("set -u", "options"),
    ("set -e", "options"),
    ("set -o pipefail", "options"),
    ("set -- z1 z2 z3", "params"),
    ("shift", "params"),
    ("cd /tmp", "cwd"),
    ("umask 077", "umask"),
    ("trap 'p newtrap' USR1", "traps"),
    ("trap - USR1", "traps"),
    ("trap '' TERM", "traps"),
    ("trap 'p x' EXIT", "traps"),
    ("exec >/tmp/w/out", "fds"),
    ("exec 3</dev/null", "fds"),
    ("exec 3>&-", "fds"),
    ("exec 5>>/tmp/w/app", "fds"),
    ("ulimit -n 50", ""),
    ("typeset -x v", "vars"),
    ("f() { p redefined; }", "funcs"),
];

const PRELUDES: &[&str] = &[
    "",
    "v=1; export e=2; f() { p f; }; alias a=b; set -- p1 p2; trap 'p t' USR1; trap '' USR2; umask 027; cd /tmp/w; exec 3<e",
    "v=1; readonly q=3; f() { p f; }; alias a=b; set -u -C; set -- p1; trap 'p t' USR1 INT; trap '' QUIT; exec 3</tmp/w/e 4>>/tmp/w/e",
    // traps that were set and reset again (the trap table has entries with the default action)
    "v=1; trap - INT; trap 'p t' QUIT USR1; trap - QUIT; trap '' TERM; trap - TERM; trap -p >/dev/null",
    // the signals an asynchronous list ignores anyway are already ignored / trapped in the parent
    "trap '' INT; trap 'p q' QUIT; trap 'p t' TERM",
    // an EXIT trap with a command action: it is the parent's, to be run once, by the parent
    "v=1; trap 'p pexit' EXIT; trap 'p t' USR1",
];

#[derive(Clone, Copy, Debug, PartialEq, Eq)]
enum Kind {
    Paren,
    CmdSubst,
    PipeFirst,
    PipeLast,
    PipeMiddle,
    Async,
}
const KINDS: [Kind; 6] = [Kind::Paren, Kind::CmdSubst, Kind::PipeFirst, Kind::PipeLast, Kind::PipeMiddle, Kind::Async];

impl Kind {
    fn wrap(self, body: &str) -> String {
        match self {
            Kind::Paren => format!("( {body} )"),
            Kind::CmdSubst => format!(": $( {body} )"),
            Kind::PipeFirst => format!("{{ {body}; }} | cat"),
            Kind::PipeLast => format!("s 0 | {{ {body}; }}"),
            Kind::PipeMiddle => format!("s 0 | {{ {body}; }} | cat | cat"),
            Kind::Async => format!("{{ {body}; }} & wait $!"),
        }
    }
}

/// Last command of the subshell body: the subshell then ends with a status that means "killed
/// by SIGTERM / SIGUSR1" (it re-raises the signal on itself) or with `exit`. The parent may
/// observe only the exit status: its own traps must not run and it must not be signalled.
const ENDERS: &[&str] = &["", "s 399", "s 508", "exit 3"];

#[derive(Clone, Debug)]
struct Case {
    prelude: usize,
    kind: Kind,
    muts: Vec<usize>,
    ender: usize,
}

impl Case {
    fn script(&self) -> String {
        let m: Vec<&str> = self.muts.iter().map(|i| MUTATORS[*i].0).collect();
        let mut body = format!("snap entry; {}; snap mutated", m.join("; "));
        if self.ender != 0 {
            body.push_str("; ");
            body.push_str(ENDERS[self.ender]);
        }
        format!("{}\nsnap before\n{}\nsnap after\ns 0\n", PRELUDES[self.prelude], self.kind.wrap(&body))
    }
    fn setup(&self) -> Setup {
        let mut s = Setup::script(&self.script());
        s.dirs.push("/tmp/w".into());
        s.files.push(("/tmp/w/e".into(), b"E\n".to_vec(), 0o644));
        s.cwd = Some("/".into());
        s
    }
}

fn snaps(r: &Run) -> BTreeMap<String, (i32, BTreeMap<String, String>)> {
    let mut m = BTreeMap::new();
    for e in &r.trace {
        if let Some(rest) = e.text.strip_prefix("snap ") {
            if let Some((tag, body)) = rest.split_once(' ') {
                m.entry(tag.to_string()).or_insert((e.pid, parse_snapshot(body)));
            }
        }
    }
    m
}

fn disp_map(s: &str) -> BTreeMap<String, String> {
    s.split(',')
        .filter_map(|t| t.split_once(':'))
        .map(|(a, b)| (a.to_string(), b.to_string()))
        .collect()
}

/// trap table entries "Cond:action/origin" -> cond -> action kind
fn trap_map(s: &str) -> BTreeMap<String, String> {
    let mut m = BTreeMap::new();
    for ent in s.split(';').filter(|e| !e.is_empty()) {
        // the action text may contain ':' — the condition is up to the first ':' after the closing paren / word
        let (cond, rest) = match ent.find("):") {
            Some(i) if ent.starts_with("Signal(") => (&ent[..i + 1], &ent[i + 2..]),
            _ => ent.split_once(':').unwrap_or((ent, "")),
        };
        let action = rest.rsplit_once('/').map(|(a, _)| a).unwrap_or(rest);
        let action = action.trim_end_matches("/pending");
        let action = action.rsplit_once('/').map(|(a, o)| if ["inh", "sub", "user"].contains(&o) { a } else { action }).unwrap_or(action);
        m.insert(cond.to_string(), action.to_string());
    }
    m
}

fn judge(c: &Case, r: &Run) -> Option<(String, String)> {
    if let Some(p) = &r.panic {
        return Some(("panic".into(), format!("panic: {p}")));
    }
    if !matches!(r.end, End::Exited(_)) {
        return Some(("end".into(), format!("{:?}", r.end)));
    }
    let s = snaps(r);
    let (Some((ppid, before)), Some((_, after))) = (s.get("before"), s.get("after")) else {
        return Some(("missing-snapshot".into(), format!("before/after snapshot missing; stderr={:?}", r.stderr)));
    };
    // 0. the parent's EXIT trap (sixth prelude) is not the subshell's: traps with command actions
    // are reset on entry, so no other process may run its action
    if let Some(e) = r.trace.iter().find(|e| e.text.starts_with("pexit:") && e.pid != *ppid) {
        return Some(("subshell-ran-parents-exit-trap".into(), format!("process {} ran the action of the parent's EXIT trap", e.pid)));
    }
    // 1. parent unchanged
    for (k, v) in before {
        if matches!(k.as_str(), "status" | "lastbg" | "jobs") {
            continue;
        }
        let a = after.get(k).cloned().unwrap_or_default();
        let (mut v, mut a) = (v.clone(), a);
        if k == "fds" {
            v = strip_offsets(&v);
            a = strip_offsets(&a);
        }
        if k == "dispositions" || k == "traps" || k == "blocked" {
            // the shell installs its internal SIGCHLD handler when it first waits for a child
            let strip = |s: &str| -> String {
                s.split([',', ';'])
                    .filter(|t| !t.starts_with("CHLD") && !t.contains("Number(102)"))
                    .collect::<Vec<_>>()
                    .join(",")
            };
            v = strip(&v);
            a = strip(&a);
            if k == "blocked" {
                v = v.replace("102", "").replace([' ', ','], "");
                a = a.replace("102", "").replace([' ', ','], "");
            }
        }
        if v != a {
            return Some((
                format!("leak-{k}"),
                format!("parent's `{k}` changed across the subshell: before {{{v}}} after {{{a}}}"),
            ));
        }
    }
    // 1b. nothing ran in the parent between the two snapshots (e.g. a trap action triggered by
    // a signal the subshell meant for itself)
    // (the parent's own EXIT trap of the sixth prelude runs after the last snapshot: exactly once)
    let own_exits = r.trace.iter().filter(|e| e.pid == *ppid && e.text.starts_with("pexit:")).count();
    if own_exits != usize::from(PRELUDES[c.prelude].contains("EXIT")) {
        return Some(("parent-exit-trap-count".into(), format!("the parent ran its EXIT trap {own_exits} times")));
    }
    if let Some(e) = r.trace.iter().find(|e| e.pid == *ppid && !e.text.starts_with("snap ") && !e.text.starts_with("pexit:")) {
        return Some(("parent-ran-command".into(), format!("the parent shell executed `{}` while only the subshell was running", e.text)));
    }
    // 2. child sees a copy
    let Some((cpid, entry)) = s.get("entry") else {
        return Some(("missing-snapshot".into(), format!("entry snapshot missing; stderr={:?}", r.stderr)));
    };
    if cpid == ppid {
        return Some(("not-a-subshell".into(), "the subshell body ran in the parent process".into()));
    }
    for k in ["vars", "params", "funcs", "aliases", "options", "umask", "cwd"] {
        if entry.get(k) != before.get(k) {
            return Some((
                format!("entry-{k}"),
                format!("subshell's `{k}` on entry differs from the parent's: {:?} vs {:?}", entry.get(k), before.get(k)),
            ));
        }
    }
    if c.kind == Kind::Paren && entry.get("fds").map(|s| strip_offsets(s)) != before.get("fds").map(|s| strip_offsets(s)) {
        return Some(("entry-fds".into(), format!("descriptor table on entry differs: {:?} vs {:?}", entry.get("fds"), before.get("fds"))));
    }
    // traps: command actions reset to default, ignored stay ignored
    let pt = trap_map(before.get("traps").map(|s| s.as_str()).unwrap_or(""));
    let ct = trap_map(entry.get("traps").map(|s| s.as_str()).unwrap_or(""));
    for (cond, act) in &pt {
        if cond.contains("Number(102)") {
            continue;
        }
        let want = if act.starts_with("cmd(") { "default".to_string() } else { act.clone() };
        let got = ct.get(cond).cloned().unwrap_or_else(|| "default".into());
        let async_ignored = c.kind == Kind::Async && (cond.contains("Number(2)") || cond.contains("Number(3)"));
        if got != want && !(async_ignored && got == "ignore") {
            return Some(("entry-traps".into(), format!("trap for {cond} in the subshell is `{got}`, parent had `{act}`")));
        }
    }
    let pd = disp_map(before.get("dispositions").map(|s| s.as_str()).unwrap_or(""));
    let cd = disp_map(entry.get("dispositions").map(|s| s.as_str()).unwrap_or(""));
    for (sig, d) in &pd {
        if sig == "CHLD" {
            continue;
        }
        let mut want = if d == "Catch" { "Default".to_string() } else { d.clone() };
        if c.kind == Kind::Async && (sig == "INT" || sig == "QUIT") {
            want = "Ignore".into();
        }
        let got = cd.get(sig).cloned().unwrap_or_default();
        if got != want {
            return Some(("entry-dispositions".into(), format!("disposition of SIG{sig} in the subshell is {got}, expected {want} (parent {d})")));
        }
    }
    // the signal mask on entry: a signal is blocked in the subshell only while the subshell catches it
    // (a mask left over from starting the subshell would be inherited by every program it executes)
    let blocked: Vec<i32> = entry.get("blocked").map(|b| b.trim_matches(|c| c == '[' || c == ']').split(',').filter_map(|x| x.trim().parse().ok()).collect()).unwrap_or_default();
    for n in blocked {
        let Some((name, _)) = SIGNALS.iter().find(|(_, k)| *k == n) else { continue };
        if *name == "CHLD" {
            continue;
        }
        if cd.get(*name).map(|s| s.as_str()) != Some("Catch") {
            return Some(("entry-mask".into(), format!("SIG{name} is blocked in the subshell on entry although its disposition there is {:?}", cd.get(*name))));
        }
    }
    None
}

fn nontrivial(c: &Case, r: &Run) -> bool {
    // the mutation really changed the child's state
    let s = snaps(r);
    let (Some((_, entry)), Some((_, mutated))) = (s.get("entry"), s.get("mutated")) else {
        return false;
    };
    c.muts.iter().any(|i| {
        let sec = MUTATORS[*i].1;
        !sec.is_empty() && entry.get(sec) != mutated.get(sec)
    })
}

pub fn replay(case: &serde_json::Value) -> i32 {
    let script = case["script"].as_str().unwrap();
    let mut s = Setup::script(script);
    s.dirs.push("/tmp/w".into());
    s.files.push(("/tmp/w/e".into(), b"E\n".to_vec(), 0o644));
    s.cwd = Some("/".into());
    let prefix: Vec<usize> = case["prefix"].as_array().map(|a| a.iter().map(|v| v.as_u64().unwrap() as usize).collect()).unwrap_or_default();
    let r = run_once(&s, &RunOpts { prefix, taps: case["taps"].as_bool().unwrap_or(false), ..Default::default() });
    println!("{script}");
    for e in &r.trace {
        println!("  [{}] {}", e.pid, e.text);
    }
    println!("end={:?}\nstderr={}", r.end, r.stderr);
    1
}

/// Part (c): the *mode* of the parent's open files. The shell makes a descriptor non-blocking
/// around its own reads and writes; an open file description is shared with every subshell, so the
/// flag one process sets is seen by all. Scripts in which several subshells read from / write to
/// a pipe the parent keeps open, under every schedule (+ syscall-tap preemption): once all
/// children are gone, none of the parent's descriptors is left non-blocking. Returns executions.
fn shared_file_modes(ctx: &Ctx, thorough: bool) -> u64 {
    let scripts = [
        "mkpipe 3 4\nread a <&3 | read b <&3 | { echo l1; echo l2; } >&4\nnb after\nexec 3<&- 4>&-\ns 0",
        "mkpipe 3 4\n(read a <&3) | (read b <&3) | (read c <&3) | { echo 1; echo 2; echo 3; } >&4\nnb after\nexec 3<&- 4>&-\ns 0",
        "mkpipe 3 4\n{ read a <&3; } &\n{ read b <&3; } &\necho l1 >&4; echo l2 >&4\nwait\nnb after\nexec 3<&- 4>&-\ns 0",
        "mkpipe 3 4\nx=$(read a <&3 | read b <&3 | { echo l1; echo l2; } >&4)\nnb after\nexec 3<&- 4>&-\ns 0",
        "mkpipe 3 4\n{ read a; read b; } <&3 | read c <&3 | { echo 1; echo 2; echo 3; } >&4\nnb after\nexec 3<&- 4>&-\ns 0",
        "mkpipe 3 4\nread a <&3 | { echo l1; echo l2; } >&4 | read b <&3\nnb after\nread c <&3 | echo l3 >&4\nnb after\nexec 3<&- 4>&-\ns 0",
    ];
    let execs = AtomicU64::new(0);
    scripts.par_iter().for_each(|script| {
        let setup = Setup::script(script);
        for ph in [Explore { max_dev: usize::MAX, taps: false, cap_runs: if thorough { 20000 } else { 3000 } }, Explore { max_dev: if thorough { 2 } else { 1 }, taps: true, cap_runs: if thorough { 20000 } else { 3000 } }] {
            let mut failed = false;
            let stats = explore(&setup, &ph, &RunOpts::default(), |r, prefix| {
                if r.diverged {
                    return true;
                }
                let case = || json!({"script": script, "prefix": prefix, "taps": ph.taps, "kind": "shared-file-mode"});
                if r.panic.is_some() || !matches!(r.end, End::Exited(0)) {
                    // a deadlock here has the cause recorded under C13 (two processes of the shell in
                    // the middle of a transfer on one open file description; the first to finish makes
                    // it blocking under the other): a key of its own
                    let key = if matches!(r.end, End::Deadlock) { "c08:shared-file-mode-deadlock" } else { "c08:shared-file-mode-end" };
                    ctx.violation(key, &format!("{script}: {:?} {:?} stderr={:?}", r.end, r.panic, r.stderr), case());
                    failed = true;
                    return false;
                }
                let tr = r.all_trace();
                let dumps: Vec<&String> = tr.iter().filter(|t| t.starts_with("nb after ")).collect();
                if dumps.is_empty() || dumps.iter().any(|t| t.as_str() != "nb after []") {
                    ctx.violation(
                        "c08:subshells-left-parent-descriptor-non-blocking",
                        &format!("{script}: after all children were gone the parent's descriptors with O_NONBLOCK set are {dumps:?}"),
                        case(),
                    );
                    failed = true;
                    return false;
                }
                true
            });
            execs.fetch_add(stats.runs as u64, Relaxed);
            if failed {
                break;
            }
        }
    });
    execs.load(Relaxed)
}

/// Interactive shell: a child environment (command substitution, subshell, pipeline element) is
/// killed by SIGINT at every one of its system calls. The interrupt abandons the command line,
/// but the parent's descriptor table must be what it was: returns the number of executions.
fn interrupted_children(ctx: &Ctx) -> u64 {
    use crate::vsh::Inject;
    let text = "fds before\nx=$(p in1; s 0; s 0; s 0); p same\nfds after1\n(p in2; s 0; s 0)\nfds after2\np in3 | s 0 | cat\nfds after3\ny=$(p in4 | cat); : $(s 0; s 0)\nfds after4\np end\n";
    let mk = || {
        let mut s = Setup::script("");
        s.argv = vec!["yash".into(), "-i".into(), "-s".into()];
        s.stdin = Some(text.as_bytes().to_vec());
        s.cwd = Some("/".into());
        s
    };
    let mut runs = 0u64;
    let tables = |r: &Run| -> Vec<(String, String)> {
        r.trace
            .iter()
            .filter(|e| e.pid == 2)
            .filter_map(|e| e.text.strip_prefix("fds ").and_then(|t| t.split_once(' ')).map(|(tag, t)| (tag.to_string(), strip_offsets(t))))
            .collect()
    };
    for child in 3..=12 {
        let base = run_once(&mk(), &RunOpts { inject: Some(Inject { at: vec![], pid: child }), ..Default::default() });
        runs += 1;
        if base.target_taps == 0 {
            continue; // no such process in this script
        }
        let results: Vec<(usize, Option<String>)> = (0..base.target_taps)
            .into_par_iter()
            .map(|k| {
                let r = run_once(&mk(), &RunOpts { inject: Some(Inject { at: vec![(k, 2)], pid: child }), ..Default::default() });
                if let Some(p) = &r.panic {
                    return (k, Some(format!("panic: {p}")));
                }
                if !matches!(r.end, End::Exited(_)) {
                    return (k, Some(format!("interactive shell ended {:?}", r.end)));
                }
                let t = tables(&r);
                let Some(before) = t.iter().find(|(tag, _)| tag == "before").map(|x| x.1.clone()) else {
                    return (k, Some("no `fds before`".into()));
                };
                if !t.iter().any(|(tag, _)| tag == "after4") {
                    return (k, Some(format!("the lines after the interrupted one did not run: {:?}", t.iter().map(|x| &x.0).collect::<Vec<_>>())));
                }
                for (tag, table) in &t {
                    if *table != before {
                        return (k, Some(format!("descriptor table of the parent at `{tag}` is {table}, before the children ran it was {before}")));
                    }
                }
                (k, None)
            })
            .collect();
        for (k, bad) in results {
            runs += 1;
            if let Some(what) = bad {
                ctx.violation(
                    "c08:interrupted-child-leaks-into-parent",
                    &format!("SIGINT to process {child} at its system call {k}: {what}"),
                    json!({"part": "interactive", "script": text, "child_pid": child, "inject_at_syscall": k}),
                );
            }
        }
    }
    runs
}

pub fn run(tier: Tier) -> i32 {
    let ctx = Ctx::new("C08", "model_checking", tier);
    let interactive_runs = interrupted_children(&ctx);
    let mode_runs = shared_file_modes(&ctx, tier == Tier::Thorough);
    let thorough = tier == Tier::Thorough;
    let mut cases = vec![];
    for prelude in 0..PRELUDES.len() {
        for kind in KINDS {
            for i in 0..MUTATORS.len() {
                cases.push(Case { prelude, kind, muts: vec![i], ender: 0 });
            }
            for ender in 1..ENDERS.len() {
                for i in [0usize, 19, 21, 22] {
                    cases.push(Case { prelude, kind, muts: vec![i], ender });
                }
            }
            for i in 0..MUTATORS.len() {
                for j in 0..MUTATORS.len() {
                    if i == j {
                        continue;
                    }
                    if !thorough && (i * 7 + j * 3 + prelude) % 5 != 0 {
                        continue;
                    }
                    cases.push(Case { prelude, kind, muts: vec![i, j], ender: 0 });
                }
            }
        }
    }
    let execs = AtomicU64::new(0);
    let points = AtomicU64::new(0);
    let steps = AtomicU64::new(0);
    let nontriv = AtomicU64::new(0);
    let capped = AtomicU64::new(0);
    let machinery = AtomicU64::new(0);
    let samples = Samples::new(6);
    cases.par_iter().for_each(|c| {
        let setup = c.setup();
        let single = c.muts.len() == 1;
        let mut phases = vec![Explore { max_dev: usize::MAX, taps: false, cap_runs: tier.pick(300, 3000) }];
        if single || thorough {
            phases.push(Explore { max_dev: 1, taps: true, cap_runs: tier.pick(120, 1500) });
        }
        let mut counted = false;
        'outer: for ph in phases {
            let mut failed = false;
            let stats = explore(&setup, &ph, &RunOpts::default(), |r, prefix| {
                steps.fetch_add(r.steps as u64, Relaxed);
                if r.diverged {
                    machinery.fetch_add(1, Relaxed);
                    return false;
                }
                if !counted && nontrivial(c, r) {
                    counted = true;
                    nontriv.fetch_add(1, Relaxed);
                }
                if let Some((key, what)) = judge(c, r) {
                    ctx.violation(
                        &format!("c08:{key}"),
                        &what,
                        json!({"script": c.script(), "prefix": prefix, "taps": ph.taps, "kind": format!("{:?}", c.kind)}),
                    );
                    failed = true;
                    return false;
                }
                true
            });
            execs.fetch_add(stats.runs as u64, Relaxed);
            points.fetch_add(stats.decision_points as u64, Relaxed);
            if stats.capped {
                capped.fetch_add(1, Relaxed);
            }
            if failed {
                break 'outer;
            }
        }
        samples.offer(|| json!({"script": c.script()}));
    });
    if machinery.load(Relaxed) > 0 {
        println!("MACHINERY failure(s): {}", machinery.load(Relaxed));
        std::process::exit(2);
    }
    let cov = json!({
        "states": points.load(Relaxed) + execs.load(Relaxed),
        "transitions": steps.load(Relaxed),
        "traces_validated_against_impl": execs.load(Relaxed) + mode_runs,
        "samples": samples.take(),
        "programs": cases.len(),
        "interactive_executions_with_a_child_killed_by_sigint": interactive_runs,
        "shared_file_mode_executions": mode_runs,
        "programs_where_the_mutation_changed_the_child_state": nontriv.load(Relaxed),
        "executions": execs.load(Relaxed),
        "decision_points": points.load(Relaxed),
        "programs_capped": capped.load(Relaxed),
        "mutators": MUTATORS.len(),
        "explanation": "each program = prelude; snap before; SUBSHELL{snap entry; mutators; snap mutated[; ender]}; snap after (ender: the subshell ends with a killed-by-signal status 399/508 or exit 3), run under every cooperative schedule of its processes (cap per program reported) and with syscall-tap preemption at deviation bound 1; plus an interactive shell whose children (substitutions, subshell, pipeline elements) are killed by SIGINT at every one of their system calls (the parent's descriptor table must stay the same and the following lines must run); snapshots serialise variables+attributes, positional parameters, functions, aliases, options, traps, dispositions, signal mask, umask, cwd and the descriptor table (by open-file-description identity) from inside the real shell",
    });
    ctx.finish(cov, &["snapshot probe built-in is trusted", "SIGCHLD's internal handler (installed at the first wait) is excluded from the parent before/after comparison"])
}
