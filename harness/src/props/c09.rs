//! C09: redirections apply in order, last one command, leave no descriptor
//! behind — redirection lists × command kinds × noclobber × descriptor-limit
//! faults, against a small POSIX descriptor-table model.

use crate::common::*;
use crate::vsh::*;
use rayon::prelude::*;
use serde_json::json;
use std::collections::BTreeMap;
use std::sync::atomic::{AtomicU64, Ordering::Relaxed};

#[derive(Clone, Copy, Debug, PartialEq, Eq)]
enum ROp {
    In,
    Out,
    Append,
    Clobber,
    InOut,
    DupIn,
    DupOut,
    HereDoc,
}

#[derive(Clone, Copy, Debug, PartialEq, Eq)]
enum Operand {
    /// existing regular file `e`
    Existing,
    /// missing file `n`
    New,
    /// second existing file `w` (already open for appending on fd 4)
    Other,
    Fd(i32),
    Dash,
    Word,
    None,
}

#[derive(Clone, Copy, Debug, PartialEq, Eq)]
struct Redir {
    fd: Option<i32>,
    op: ROp,
    operand: Operand,
}

impl Redir {
    fn text(&self) -> String {
        let fd = self.fd.map(|n| n.to_string()).unwrap_or_default();
        let op = match self.op {
            ROp::In => "<",
            ROp::Out => ">",
            ROp::Append => ">>",
            ROp::Clobber => ">|",
            ROp::InOut => "<>",
            ROp::DupIn => "<&",
            ROp::DupOut => ">&",
            ROp::HereDoc => "<<E",
        };
        let operand = match self.operand {
            Operand::Existing => "e".to_string(),
            Operand::New => "n".to_string(),
            Operand::Other => "w".to_string(),
            Operand::Fd(n) => n.to_string(),
            Operand::Dash => "-".to_string(),
            Operand::Word => "x".to_string(),
            Operand::None => String::new(),
        };
        format!("{fd}{op}{operand}")
    }
    fn target(&self) -> i32 {
        self.fd.unwrap_or(match self.op {
            ROp::In | ROp::InOut | ROp::DupIn | ROp::HereDoc => 0,
            _ => 1,
        })
    }
}

fn alphabet(thorough: bool) -> Vec<Redir> {
    let mut v = vec![];
    let fds: &[Option<i32>] = if thorough {
        &[None, Some(3), Some(5), Some(9), Some(0), Some(2)]
    } else {
        &[None, Some(3), Some(5)]
    };
    for &fd in fds {
        for (op, operands) in [
            (ROp::In, vec![Operand::Existing, Operand::New]),
            (ROp::Out, vec![Operand::Existing, Operand::New]),
            (ROp::Append, vec![Operand::Other, Operand::New]),
            (ROp::Clobber, vec![Operand::Existing]),
            (ROp::InOut, vec![Operand::Existing, Operand::New]),
            (
                ROp::DupIn,
                vec![
                    Operand::Fd(0),
                    Operand::Fd(3),
                    Operand::Fd(4),
                    Operand::Fd(7),
                    Operand::Dash,
                    Operand::Word,
                ],
            ),
            (
                ROp::DupOut,
                vec![
                    Operand::Fd(1),
                    Operand::Fd(3),
                    Operand::Fd(4),
                    Operand::Fd(7),
                    Operand::Fd(10),
                    Operand::Dash,
                ],
            ),
            (ROp::HereDoc, vec![Operand::None]),
        ] {
            for operand in operands {
                v.push(Redir { fd, op, operand });
            }
        }
    }
    v
}

#[derive(Clone, Copy, Debug, PartialEq, Eq)]
enum Kind {
    Regular,
    SpecialEval,
    Function,
    Group,
    Subshell,
    External,
    NotFound,
    Empty,
    Exec,
    CommandExec,
    SpecialColon,
    /// regular built-in whose arguments undergo pathname expansion (directory scans open descriptors)
    RegularGlob,
}

const KINDS: [Kind; 12] = [
    Kind::Regular,
    Kind::SpecialEval,
    Kind::Function,
    Kind::Group,
    Kind::Subshell,
    Kind::External,
    Kind::NotFound,
    Kind::Empty,
    Kind::Exec,
    Kind::CommandExec,
    Kind::SpecialColon,
    Kind::RegularGlob,
];

impl Kind {
    fn text(self, redirs: &str) -> String {
        match self {
            Kind::Regular => format!("fds in {redirs}"),
            Kind::RegularGlob => format!("fds in /tmp/*/? * {redirs}"),
            Kind::SpecialEval => format!("eval 'fds in' {redirs}"),
            Kind::Function => format!("f {redirs}"),
            Kind::Group => format!("{{ fds in; }} {redirs}"),
            Kind::Subshell => format!("( fds in ) {redirs}"),
            Kind::External => format!("ext {redirs}"),
            Kind::NotFound => format!("nosuch {redirs}"),
            Kind::Empty => redirs.to_string(),
            Kind::Exec => format!("exec {redirs}"),
            Kind::CommandExec => format!("command exec {redirs}"),
            Kind::SpecialColon => format!(": {redirs}"),
        }
    }
    fn observes_inside(self) -> bool {
        matches!(
            self,
            Kind::Regular | Kind::RegularGlob | Kind::SpecialEval | Kind::Function | Kind::Group | Kind::Subshell | Kind::External
        )
    }
    fn is_special(self) -> bool {
        matches!(self, Kind::SpecialEval | Kind::Exec | Kind::SpecialColon)
    }
    fn persists(self) -> bool {
        matches!(self, Kind::Exec | Kind::CommandExec)
    }
}

// ------------------------------------------------------------------ descriptor-table model

#[derive(Clone, Debug, PartialEq, Eq)]
struct Ofd {
    r: bool,
    w: bool,
    inode: usize,
}

#[derive(Clone, Debug)]
struct Model {
    fds: BTreeMap<i32, usize>,
    ofds: Vec<Ofd>,
    /// file name -> (inode, content); None = does not exist
    files: BTreeMap<&'static str, Option<(usize, String)>>,
    inodes: usize,
}

impl Model {
    fn initial() -> Model {
        let mut m = Model {
            fds: BTreeMap::new(),
            ofds: vec![],
            files: BTreeMap::new(),
            inodes: 0,
        };
        for fd in 0..3 {
            let ino = m.new_inode();
            m.ofds.push(Ofd { r: true, w: true, inode: ino });
            m.fds.insert(fd, m.ofds.len() - 1);
        }
        let e = m.new_inode();
        m.files.insert("e", Some((e, "E\n".into())));
        let w = m.new_inode();
        m.files.insert("w", Some((w, "W\n".into())));
        m.files.insert("n", None);
        // exec 3<e 4>>w
        m.ofds.push(Ofd { r: true, w: false, inode: e });
        m.fds.insert(3, m.ofds.len() - 1);
        m.ofds.push(Ofd { r: false, w: true, inode: w });
        m.fds.insert(4, m.ofds.len() - 1);
        m
    }
    fn new_inode(&mut self) -> usize {
        self.inodes += 1;
        self.inodes - 1
    }
    fn name(o: Operand) -> &'static str {
        match o {
            Operand::Existing => "e",
            Operand::New => "n",
            Operand::Other => "w",
            _ => unreachable!(),
        }
    }
    /// Applies one redirection; Err(()) = the redirection fails (no effect on the table).
    fn apply(&mut self, r: &Redir, noclobber: bool) -> Result<(), ()> {
        let target = r.target();
        let new_ofd = match r.op {
            ROp::In => {
                let (ino, _) = self.files[Self::name(r.operand)].clone().ok_or(())?;
                Some(Ofd { r: true, w: false, inode: ino })
            }
            ROp::Out | ROp::Clobber | ROp::Append | ROp::InOut => {
                let name = Self::name(r.operand);
                let existing = self.files[name].clone();
                if r.op == ROp::Out && noclobber && existing.is_some() {
                    return Err(());
                }
                let ino = match existing {
                    Some((ino, content)) => {
                        let content = if matches!(r.op, ROp::Out | ROp::Clobber) {
                            String::new()
                        } else {
                            content
                        };
                        self.files.insert(name, Some((ino, content)));
                        ino
                    }
                    None => {
                        let ino = self.new_inode();
                        self.files.insert(name, Some((ino, String::new())));
                        ino
                    }
                };
                Some(Ofd {
                    r: r.op == ROp::InOut,
                    w: true,
                    inode: ino,
                })
            }
            ROp::DupIn | ROp::DupOut => match r.operand {
                Operand::Dash => None,
                Operand::Word => return Err(()),
                Operand::Fd(m) => {
                    let &idx = self.fds.get(&m).ok_or(())?;
                    let o = &self.ofds[idx];
                    let ok = if r.op == ROp::DupIn { o.r } else { o.w };
                    if !ok {
                        return Err(());
                    }
                    self.fds.insert(target, idx);
                    return Ok(());
                }
                _ => unreachable!(),
            },
            ROp::HereDoc => {
                let ino = self.new_inode();
                Some(Ofd { r: true, w: true, inode: ino })
            }
        };
        match new_ofd {
            Some(o) => {
                self.ofds.push(o);
                self.fds.insert(target, self.ofds.len() - 1);
            }
            None => {
                self.fds.remove(&target);
            }
        }
        Ok(())
    }
    fn table(&self) -> String {
        let mut s = String::new();
        for (fd, idx) in &self.fds {
            let o = &self.ofds[*idx];
            s.push_str(&format!(
                "{}=o{}{}{}@0i{}f ",
                fd,
                idx,
                if o.r { "r" } else { "" },
                if o.w { "w" } else { "" },
                o.inode
            ));
        }
        s
    }
}

/// Renames `o<N>` / `i<N>` identifiers by order of first appearance so that
/// tables from the model and the implementation are comparable.
fn canon_tables(tables: &[String]) -> Vec<String> {
    let mut omap: BTreeMap<String, usize> = BTreeMap::new();
    let mut imap: BTreeMap<String, usize> = BTreeMap::new();
    tables
        .iter()
        .map(|t| {
            t.split_whitespace()
                .map(|tok| {
                    // fd=o<id><flags>@<off>i<ino><kind>
                    let (fd, rest) = tok.split_once("=o").unwrap_or((tok, ""));
                    let idlen = rest.chars().take_while(|c| c.is_ascii_digit()).count();
                    let (oid, rest) = rest.split_at(idlen);
                    let (flags, rest) = rest.split_once('@').unwrap_or((rest, ""));
                    let (off, rest) = rest.split_once('i').unwrap_or((rest, ""));
                    let inolen = rest.chars().take_while(|c| c.is_ascii_digit()).count();
                    let (ino, kind) = rest.split_at(inolen);
                    let n = omap.len();
                    let o = *omap.entry(oid.to_string()).or_insert(n);
                    let n = imap.len();
                    let i = *imap.entry(ino.to_string()).or_insert(n);
                    format!("{fd}=o{o}{flags}@{off}i{i}{kind}")
                })
                .collect::<Vec<_>>()
                .join(" ")
        })
        .collect()
}

fn low(table: &str) -> String {
    table
        .split_whitespace()
        .filter(|t| t.split('=').next().and_then(|f| f.parse::<i32>().ok()).is_some_and(|f| f < 10))
        .collect::<Vec<_>>()
        .join(" ")
}

/// every descriptor >= 10 must be close-on-exec
fn high_not_cloexec(table: &str) -> Option<String> {
    for tok in table.split_whitespace() {
        let (fd, rest) = tok.split_once('=')?;
        let fd: i32 = fd.parse().ok()?;
        let flags = rest.split('@').next().unwrap_or("");
        if fd >= 10 && !flags.ends_with('x') {
            return Some(tok.to_string());
        }
    }
    None
}

#[derive(Clone, Debug)]
struct Case {
    redirs: Vec<Redir>,
    kind: Kind,
    noclobber: bool,
    limit: Option<u32>,
}

impl Case {
    fn script(&self) -> String {
        let redirs: Vec<String> = self.redirs.iter().map(|r| r.text()).collect();
        let cmd = self.kind.text(&redirs.join(" "));
        let heredocs: String = self
            .redirs
            .iter()
            .filter(|r| r.op == ROp::HereDoc)
            .map(|_| "doc\nE\n")
            .collect();
        format!(
            "cd /tmp/w\nf() {{ fds in; }}\nexec 3<e 4>>w\n{}{}trap 'fds exit' EXIT\nfds before\n{cmd}\n{heredocs}p st\nfds after\n",
            if self.noclobber { "set -C\n" } else { "" },
            match self.limit {
                Some(n) => format!("ulimit -n {n}\n"),
                None => String::new(),
            },
        )
    }
    fn setup(&self) -> Setup {
        let mut s = Setup::script(&self.script());
        s.dirs.push("/tmp/w".into());
        s.files.push(("/tmp/w/e".into(), b"E\n".to_vec(), 0o644));
        s.files.push(("/tmp/w/w".into(), b"W\n".to_vec(), 0o644));
        s.cwd = Some("/".into());
        s
    }
}

fn file_state(r: &Run) -> BTreeMap<&'static str, Option<String>> {
    let mut m = BTreeMap::new();
    for n in ["e", "w", "n"] {
        m.insert(
            n,
            read_file(&r.state, &format!("/tmp/w/{n}")).map(|c| String::from_utf8_lossy(&c).into_owned()),
        );
    }
    m
}

/// Judges one run. Returns (key, description) of the first failed expectation.
fn judge(c: &Case, r: &Run) -> Option<(String, String)> {
    if let Some(p) = &r.panic {
        return Some(("panic".into(), format!("panic: {p}")));
    }
    if matches!(r.end, End::Deadlock | End::Livelock) {
        return Some(("hang".into(), format!("{:?}", r.end)));
    }
    // collect snapshots
    let mut snaps: BTreeMap<String, String> = BTreeMap::new();
    let mut st: Option<i32> = None;
    let mut order = vec![];
    for e in &r.trace {
        if let Some(rest) = e.text.strip_prefix("fds ") {
            let (tag, table) = rest.split_once(' ').unwrap_or((rest, ""));
            let table = &strip_offsets(table);
            if high_not_cloexec(table).is_some() {
                return Some((
                    "internal-fd-not-cloexec".into(),
                    format!("descriptor >= 10 without close-on-exec at `{tag}`: {table}"),
                ));
            }
            order.push(tag.to_string());
            snaps.entry(tag.to_string()).or_insert(table.to_string());
        } else if let Some(s) = e.text.strip_prefix("mst:").or(e.text.strip_prefix("st:")) {
            st = s.parse().ok();
        }
    }
    let Some(before) = snaps.get("before").cloned() else {
        return Some(("no-before".into(), format!("prelude failed: {:?}", r.stderr)));
    };
    // model
    let mut m = Model::initial();
    let mut failed_at = None;
    for (i, rd) in c.redirs.iter().enumerate() {
        if m.apply(rd, c.noclobber).is_err() {
            failed_at = Some(i);
            break;
        }
    }
    let faulty = c.limit.is_some();
    let stderr_redirected = c.redirs.iter().any(|rd| rd.target() == 2);
    let exit_snap = snaps.get("exit").cloned();
    let after = snaps.get("after").cloned();
    let inside = snaps.get("in").or(snaps.get("exec")).cloned();

    // (iii) restoration: the table after the command equals the table before it
    if !c.kind.persists() {
        for (name, snap) in [("after", &after), ("exit", &exit_snap)] {
            if let Some(s) = snap {
                if *s != before {
                    let key = if failed_at.is_some() || faulty {
                        "leak-after-failed-redirection"
                    } else {
                        "table-not-restored"
                    };
                    return Some((
                        key.into(),
                        format!("descriptor table at `{name}` differs from `before`: {s} vs {before}"),
                    ));
                }
            }
        }
    }
    if exit_snap.is_none() {
        return Some(("no-exit-trap".into(), format!("EXIT trap did not run; stderr={:?}", r.stderr)));
    }
    if faulty {
        // under a descriptor limit only the invariants above are judged, plus:
        // if the command ran, it saw the table the model prescribes
        if let (Some(inside), None) = (&inside, failed_at) {
            let got = canon_tables(&[low(&before), low(inside)]);
            let want = canon_tables(&[Model::initial().table().trim().to_string(), m.table().trim().to_string()]);
            if got != want {
                return Some(("inside-table".into(), format!("command saw {got:?}, model {want:?}")));
            }
        }
        if c.kind.persists() {
            // exec: either everything applied or the shell reported an error
            return None;
        }
        return None;
    }
    match failed_at {
        None => {
            // (i) the command sees the model's table
            if c.kind.observes_inside() {
                let Some(inside) = inside else {
                    return Some(("command-not-run".into(), format!("command did not run; stderr={:?}", r.stderr)));
                };
                let got = canon_tables(&[low(&before), low(&inside)]);
                let want = canon_tables(&[Model::initial().table().trim().to_string(), m.table().trim().to_string()]);
                if got != want {
                    return Some(("inside-table".into(), format!("command saw {got:?}, model {want:?}")));
                }
            }
            if c.kind.persists() {
                let Some(after) = after else {
                    return Some(("exec-aborted".into(), format!("exec with valid redirections did not continue; stderr={:?}", r.stderr)));
                };
                let got = canon_tables(&[low(&before), after.clone()]);
                let want = canon_tables(&[Model::initial().table().trim().to_string(), m.table().trim().to_string()]);
                if got != want {
                    return Some(("exec-table".into(), format!("after exec {got:?}, model {want:?}")));
                }
            } else if after.is_none() {
                return Some(("aborted".into(), format!("script aborted after a successful command; stderr={:?}", r.stderr)));
            }
            let want_status = match c.kind {
                Kind::NotFound => Some(127),
                Kind::External => None,
                _ => Some(0),
            };
            if let (Some(w), Some(s)) = (want_status, st) {
                if w != s {
                    return Some(("status".into(), format!("$? = {s}, expected {w}")));
                }
            }
        }
        Some(_) => {
            if snaps.contains_key("in") || snaps.contains_key("exec") {
                return Some(("ran-despite-error".into(), "command ran although a redirection failed".into()));
            }
            if r.stderr.is_empty() && !stderr_redirected {
                return Some(("no-diagnostic".into(), "failed redirection without a diagnostic".into()));
            }
            if c.kind.is_special() {
                // shell error of a special built-in: the non-interactive shell exits
                if after.is_some() {
                    return Some(("special-continued".into(), "script continued after a redirection error on a special built-in".into()));
                }
                if matches!(r.end, End::Exited(0)) {
                    return Some(("special-status".into(), "exit status 0 after a redirection error".into()));
                }
            } else {
                if after.is_none() {
                    return Some(("aborted".into(), format!("script aborted by a redirection error on an ordinary command; stderr={:?}", r.stderr)));
                }
                if st == Some(0) {
                    return Some(("status".into(), "$? = 0 after a failed redirection".into()));
                }
            }
        }
    }
    // (ii) files (diagnostics may legitimately land in a file when fd 2 is redirected)
    if stderr_redirected {
        return None;
    }
    let got = file_state(r);
    for (name, want) in &m.files {
        let want = want.as_ref().map(|(_, c)| c.clone());
        if got[name] != want {
            return Some(("file-content".into(), format!("file {name}: {:?}, model {want:?}", got[name])));
        }
    }
    None
}

fn describe(c: &Case) -> serde_json::Value {
    json!({"script": c.script(), "kind": format!("{:?}", c.kind), "noclobber": c.noclobber, "limit": c.limit,
           "redirs": c.redirs.iter().map(|r| r.text()).collect::<Vec<_>>()})
}

pub fn replay(case: &serde_json::Value) -> i32 {
    if case["part"] == "d" && super::c09c::replay_d(case) {
        return 1;
    }
    if case["part"] == "c" && super::c09c::replay(case) {
        return 1;
    }
    let script = case["script"].as_str().unwrap();
    let mut s = match case["shell_reads_script_from"].as_str() {
        Some("file") => {
            let mut s = Setup::default();
            s.argv = vec!["yash".into(), "/tmp/w/main".into()];
            s
        }
        Some("stdin") => {
            let mut s = Setup::default();
            s.argv = vec!["yash".into(), "-s".into()];
            s.stdin = Some(script.as_bytes().to_vec());
            s
        }
        _ => Setup::script(script),
    };
    s.dirs.push("/tmp/w".into());
    s.files.push(("/tmp/w/e".into(), b"E\n".to_vec(), 0o644));
    s.files.push(("/tmp/w/w".into(), b"W\n".to_vec(), 0o644));
    s.files.push(("/tmp/w/main".into(), script.as_bytes().to_vec(), 0o644));
    s.files.push(("/tmp/w/script".into(), b"fds dot\n( fds dotsub )\nfds dot2 <e\n".to_vec(), 0o644));
    s.files.push(("/tmp/w/script2".into(), b"fds outer\n. ./script\nfds outer2\n".to_vec(), 0o644));
    s.cwd = Some("/".into());
    let r = run_once(&s, &Default::default());
    println!("{script}");
    for e in &r.trace {
        println!("  [{}] {}", e.pid, e.text);
    }
    println!("end={:?}\nstderr={}", r.end, r.stderr);
    1
}

/// Descriptors the shell opens for its own use (script being read, dot scripts, saved copies of
/// redirected descriptors, here-document and substitution plumbing) stay at 10 or above with
/// close-on-exec set — also when descriptors 3..9 are all taken by the user — and nothing else
/// appears below 10.
fn internal_descriptors(ctx: &Ctx) -> u64 {
    let inner: &[(&str, &str)] = &[
        ("dot", ". ./script"),
        ("nested-dot", ". ./script2"),
        ("dot-redirected", ". ./script >w 2>&1"),
        ("group-redirected", "{ fds in; ( fds sub ); } >w 2>&1 <e"),
        ("function-redirected", "f() { fds in; }; f 3>w; f <e"),
        ("substitution", "x=$(fds in); y=`fds bq`; : $(fds arg) <e"),
        ("here-document", "{ fds in; cat >/dev/null; } <<E\nbody\nE"),
        ("pipeline", "fds in | { cat >/dev/null; fds last; }"),
        ("pipeline-3", "fds in | cat | { cat >/dev/null; fds last; }"),
        ("pipeline-4", ": | : | fds in | :"),
        ("eval", "eval 'fds in; . ./script'"),
        ("builtin-redirected", "fds in >w; fds in2 2>>w <e"),
        ("trap", "trap 'fds in' USR1; kill -s USR1 $$; trap - USR1"),
        ("async", "{ fds in; } & wait"),
    ];
    let preludes: &[(&str, &[i32])] = &[
        ("", &[0, 1, 2]),
        ("exec 3<e 4<e 5<e 6<e 7<e 8<e 9<e", &[0, 1, 2, 3, 4, 5, 6, 7, 8, 9]),
        ("exec 3<e 5<e 9>>w", &[0, 1, 2, 3, 5, 9]),
    ];
    // how the main script itself is read: -c string, script file operand, standard input;
    // and (for -c) under every descriptor limit 5..14, so that each allocation of an internal
    // descriptor fails at some limit: then nothing may be left open either
    let mut variants: Vec<(&str, Option<u32>)> = vec![("-c", None), ("file", None), ("stdin", None)];
    for n in 5..=14u32 {
        variants.push(("-c", Some(n)));
    }
    let mut runs = 0;
    for (iname, itext) in inner {
        for (prelude, low) in preludes {
            for &(main, limit) in &variants {
                if limit.is_some() && prelude.contains("4<e") {
                    continue; // with 3..9 taken a limit below 11 leaves nothing to allocate at all
                }
                let lim = limit.map(|n| format!("ulimit -n {n}\n")).unwrap_or_default();
                let text = format!("cd /tmp/w\ntrap 'fds exit' EXIT\n{prelude}\n{lim}fds before\n{}\nfds after\n", itext.replace("\\n", "\n"));
                let mut s = match main {
                    "-c" => Setup::script(&text),
                    "file" => {
                        let mut s = Setup::default();
                        s.argv = vec!["yash".into(), "/tmp/w/main".into()];
                        s
                    }
                    _ => {
                        let mut s = Setup::default();
                        s.argv = vec!["yash".into(), "-s".into()];
                        s.stdin = Some(text.clone().into_bytes());
                        s
                    }
                };
                s.dirs.push("/tmp/w".into());
                s.files.push(("/tmp/w/main".into(), text.clone().into_bytes(), 0o644));
                s.files.push(("/tmp/w/e".into(), b"E\n".to_vec(), 0o644));
                s.files.push(("/tmp/w/w".into(), b"W\n".to_vec(), 0o644));
                s.files.push(("/tmp/w/script".into(), b"fds dot\n( fds dotsub )\nfds dot2 <e\n".to_vec(), 0o644));
                s.files.push(("/tmp/w/script2".into(), b"fds outer\n. ./script\nfds outer2\n".to_vec(), 0o644));
                s.cwd = Some("/".into());
                let r = run_once(&s, &Default::default());
                runs += 1;
                let case = || json!({"part": "internal", "scenario": iname, "script": text, "shell_reads_script_from": main, "descriptor_limit": limit});
                if let Some(p) = &r.panic {
                    ctx.violation("c09:panic", &format!("panic: {p}"), case());
                    continue;
                }
                let mut probes = 0;
                for e in &r.trace {
                    let Some(rest) = e.text.strip_prefix("fds ") else { continue };
                    probes += 1;
                    let (tag, table) = rest.split_once(' ').unwrap_or((rest, ""));
                    if let Some(bad) = high_not_cloexec(table) {
                        ctx.violation(
                            "c09:internal-fd-not-cloexec",
                            &format!("at `{tag}` a descriptor >= 10 is open without close-on-exec ({bad}): {table}"),
                            case(),
                        );
                        break;
                    }
                    // below 10: only what the user opened (a redirection in effect may add 3 or 0..2 targets)
                    let lowfds: Vec<i32> = table.split_whitespace().filter_map(|t| t.split('=').next()?.parse().ok()).filter(|fd| *fd < 10).collect();
                    if let Some(extra) = lowfds.iter().find(|fd| !low.contains(fd) && !(**fd == 3 && itext.contains("3>w"))) {
                        ctx.violation(
                            "c09:internal-fd-below-10",
                            &format!("at `{tag}` descriptor {extra} is open although the script never opened it: {table}"),
                            case(),
                        );
                        break;
                    }
                }
                // whatever failed on the way, the table at exit is the table before the scenario
                let snap = |tag: &str| r.trace.iter().find_map(|e| e.text.strip_prefix(&format!("fds {tag} ")).map(strip_offsets));
                if let (Some(b), Some(x)) = (snap("before"), snap("exit")) {
                    let norm = |t: &str| -> Vec<String> { t.split_whitespace().map(|s| s.to_string()).collect() };
                    if norm(&b) != norm(&x) && !itext.starts_with("trap ") {
                        ctx.violation(
                            "c09:internal-fd-left-open",
                            &format!("descriptor table at exit differs from the table before the scenario: {x} vs {b}; stderr {:?}", r.stderr),
                            case(),
                        );
                    }
                }
                // (stdin feed: fd 0 is the script itself; a probe count of 0 means the scenario did not run)
                if limit.is_none() && probes < 3 {
                    ctx.violation("c09:internal-scenario-did-not-run", &format!("only {probes} probes ran; stderr {:?}", r.stderr), case());
                }
            }
        }
    }
    runs
}

pub fn run(tier: Tier) -> i32 {
    let ctx = Ctx::new("C09", "fault_enumeration", tier);
    let thorough = tier == Tier::Thorough;
    let alpha = alphabet(thorough);
    let mut cases: Vec<Case> = vec![];
    let max_len = tier.pick(2, 2);
    let mut lists: Vec<Vec<Redir>> = vec![];
    for a in &alpha {
        lists.push(vec![*a]);
    }
    if max_len >= 2 {
        for a in &alpha {
            for b in &alpha {
                lists.push(vec![*a, *b]);
            }
        }
    }
    if thorough {
        // length 3 on the small alphabet
        let small = alphabet(false);
        for a in small.iter().step_by(2) {
            for b in small.iter().step_by(3) {
                for c in small.iter().step_by(2) {
                    lists.push(vec![*a, *b, *c]);
                }
            }
        }
    }
    for l in &lists {
        for kind in KINDS {
            for noclobber in [false, true] {
                if noclobber && !l.iter().any(|r| r.op == ROp::Out) {
                    continue;
                }
                cases.push(Case { redirs: l.clone(), kind, noclobber, limit: None });
            }
        }
    }
    // faults: descriptor limits
    let fault_lists: Vec<&Vec<Redir>> = if thorough {
        lists.iter().filter(|l| l.len() <= 2).step_by(3).collect()
    } else {
        lists.iter().filter(|l| l.len() == 1).collect()
    };
    let n_plain = cases.len();
    for l in fault_lists {
        for kind in KINDS {
            for limit in 5..=14u32 {
                cases.push(Case { redirs: l.clone(), kind, noclobber: false, limit: Some(limit) });
            }
        }
    }
    let evals = AtomicU64::new(0);
    let nontrivial = std::sync::Mutex::new(std::collections::HashSet::new());
    let failing_redir_cases = AtomicU64::new(0);
    let samples = Samples::new(8);
    cases.par_iter().for_each(|c| {
        let r = run_once(&c.setup(), &Default::default());
        evals.fetch_add(1, Relaxed);
        // non-trivial: at least one redirection failed, or a descriptor limit is in force, or two redirections touch the same fd
        let mut m = Model::initial();
        let fails = c.redirs.iter().any(|rd| m.apply(rd, c.noclobber).is_err());
        let same_fd = c.redirs.len() >= 2 && c.redirs.iter().any(|a| c.redirs.iter().filter(|b| b.target() == a.target()).count() >= 2);
        if fails {
            failing_redir_cases.fetch_add(1, Relaxed);
        }
        if fails || c.limit.is_some() || same_fd {
            nontrivial.lock().unwrap().insert(c.script());
        }
        if let Some((key, what)) = judge(c, &r) {
            ctx.violation(&format!("c09:{key}"), &what, describe(c));
        }
        samples.offer(|| describe(c));
    });
    let internal_runs = internal_descriptors(&ctx);
    let (c_execs, c_judged) = super::c09c::run(&ctx);
    let d_execs = super::c09c::run_d(&ctx);
    let cov = json!({
        "internal_descriptor_scenarios": internal_runs,
        "part_c_interrupted_script_executions": c_execs,
        "part_d_failed_exec_executions": d_execs,
        "part_c_executions_judged": c_judged,
        "evaluations": evals.load(Relaxed) + internal_runs + c_execs + d_execs,
        "distinct_nontrivial": nontrivial.lock().unwrap().len(),
        "rule": "every redirection list of length <= 2 (thorough: + a length-3 slice) over the operator x target-fd x operand alphabet, on each of 11 command kinds, with noclobber on/off where it matters; fault cases repeat lists under `ulimit -n N` for every N in 5..=14 so that each descriptor allocation (save-dup to >=10, open, here-document temp file, dup2) fails at some N. Non-trivial = a redirection fails, or a descriptor limit is in force, or two redirections hit the same descriptor; distinct by script text. Plus 14 scenarios in which the shell holds descriptors of its own (dot scripts, nested dot, saved copies for redirected groups/functions/built-ins, substitutions, here-documents, pipelines, eval, traps, async lists) x 3 user descriptor layouts (none, 3..9 all taken, 3 5 9) x 3 ways of reading the main script (-c, file operand, standard input) and, for -c, under every descriptor limit 5..14 (table at exit = table before the scenario): at every probe every descriptor >= 10 is close-on-exec and nothing the script did not open is below 10. (c) an interactive shell runs a script (by ., source, command ., command source, eval, inside a function, in a redirected group) that blocks in `wait`; SIGINT at every system call: whenever the shell goes on with the next line its descriptor table is what it was before the line.",
        "samples": samples.take(),
        "plain_cases": n_plain,
        "fault_cases": cases.len() - n_plain,
        "cases_with_a_failing_redirection": failing_redir_cases.load(Relaxed),
        "alphabet_size": alpha.len(),
        "exhaustive": true,
    });
    ctx.finish(cov, &["descriptor-table model: lowest-free allocation is not observable (only the target descriptor's description is compared)", "directories and missing parent directories as write targets are left to C19 (simulator open() semantics)"])
}
