//! C15: the executor never loses a wake-up and never polls a finished task.
//! All small task systems × all driver choice sequences (BFS with dedup on the
//! reference model's state), the real `yash_executor::Executor` in lock-step with
//! a FIFO reference model.

use crate::common::*;
use rayon::prelude::*;
use serde_json::json;
use std::cell::RefCell;
use std::collections::{BTreeSet, HashSet, VecDeque};
use std::future::Future;
use std::pin::Pin;
use std::rc::Rc;
use std::sync::atomic::{AtomicU64, Ordering::Relaxed};
use std::task::{Context, Poll, Waker};
use yash_executor::forwarder::Receiver;
use yash_executor::{Executor, Spawner};

#[derive(Clone, Copy, Debug, PartialEq, Eq, Hash, PartialOrd, Ord)]
pub enum Act {
    /// wake self (by ref) and return pending
    Yield,
    /// wake self twice (by value clone + by ref) and return pending
    WakeTwice,
    /// wake self (by ref) and continue: if the script ends here the task completes while it is
    /// already queued again
    WakeSelf,
    /// wait until one of the channels in the mask (bit 0 / bit 1) is signalled
    Wait(u8),
    /// signal channel k; by_ref chooses `wake_by_ref` vs consuming `wake`
    Signal(u8, bool),
    /// clone the waker and drop the clone (reference counting), continue
    CloneDrop,
    /// spawn child script number s through the Spawner, continue
    Spawn(u8),
    /// spawn child script number s and keep its Receiver in the shared slot (replacing the
    /// previous one), continue
    SpawnSlot(u8),
    /// await the Receiver in the slot: pending until the child has finished, then take the value
    AwaitSlot,
    /// poll the Receiver in the slot once with the own waker and go on whatever it says (a
    /// select-like probe: the task's waker stays registered although it no longer waits)
    PeekSlot,
}

/// scripts children can run
const CHILD_SCRIPTS: [&[Act]; 3] = [&[Act::Signal(0, false)], &[Act::Wait(1)], &[Act::Yield, Act::Signal(1, true)]];

#[derive(Clone, Copy, Debug, PartialEq, Eq, Hash)]
pub enum Drive {
    Step,
    Run,
    Signal(u8),
    SpawnNew(u8),
}

// ------------------------------------------------------------------ reference model

#[derive(Clone, Debug, PartialEq, Eq, Hash)]
struct MTask {
    script: Vec<Act>,
    pc: usize,
    done: bool,
    /// channels signalled since this task registered
    signalled: u8,
}

#[derive(Clone, Debug, PartialEq, Eq, Hash, Default)]
struct Model {
    queue: VecDeque<usize>,
    tasks: Vec<MTask>,
    /// waiting lists per channel, in registration order
    waiting: [Vec<usize>; 2],
    log: Vec<(usize, usize)>,
    received: BTreeSet<usize>,
    /// task whose Receiver is in the slot, whether its value has been taken, last poller
    slot: Option<usize>,
    slot_taken: bool,
    slot_waiter: Option<usize>,
    /// (task, value) pairs taken from the slot
    got: Vec<(usize, usize)>,
}

impl Model {
    fn spawn(&mut self, script: Vec<Act>) -> usize {
        self.tasks.push(MTask { script, pc: 0, done: false, signalled: 0 });
        let id = self.tasks.len() - 1;
        self.queue.push_back(id);
        id
    }
    fn wake(&mut self, t: usize) {
        if !self.queue.contains(&t) {
            self.queue.push_back(t);
        }
    }
    fn signal(&mut self, k: u8) {
        let list = std::mem::take(&mut self.waiting[k as usize]);
        for t in list {
            self.tasks[t].signalled |= 1 << k;
            self.wake(t);
        }
    }
    /// Some(completed?) or None if the queue is empty
    fn step(&mut self) -> Option<bool> {
        let t = self.queue.pop_front()?;
        if self.tasks[t].done {
            return Some(true); // stale wake-up of a finished task: not polled
        }
        self.log.push((t, self.tasks[t].pc));
        loop {
            let pc = self.tasks[t].pc;
            let Some(act) = self.tasks[t].script.get(pc).copied() else {
                self.tasks[t].done = true;
                // the result is sent: the task that polled the Receiver last is woken
                if self.slot == Some(t) && !self.slot_taken {
                    if let Some(w) = self.slot_waiter.take() {
                        self.wake(w);
                    }
                }
                return Some(true);
            };
            match act {
                Act::Yield => {
                    self.tasks[t].pc += 1;
                    self.wake(t);
                    return Some(false);
                }
                Act::WakeTwice => {
                    self.tasks[t].pc += 1;
                    self.wake(t);
                    self.wake(t);
                    return Some(false);
                }
                Act::WakeSelf => {
                    self.tasks[t].pc += 1;
                    self.wake(t);
                }
                Act::Wait(mask) => {
                    if self.tasks[t].signalled & mask != 0 {
                        self.tasks[t].signalled = 0;
                        // leave the other channel's list (deregistration)
                        for k in 0..2 {
                            self.waiting[k].retain(|x| *x != t);
                        }
                        self.tasks[t].pc += 1;
                        continue;
                    }
                    for k in 0..2u8 {
                        if mask & (1 << k) != 0 && !self.waiting[k as usize].contains(&t) {
                            self.waiting[k as usize].push(t);
                        }
                    }
                    return Some(false);
                }
                Act::Signal(k, _) => {
                    self.tasks[t].pc += 1;
                    self.signal(k);
                }
                Act::CloneDrop => self.tasks[t].pc += 1,
                Act::Spawn(s) => {
                    self.tasks[t].pc += 1;
                    self.spawn(CHILD_SCRIPTS[s as usize].to_vec());
                }
                Act::SpawnSlot(s) => {
                    self.tasks[t].pc += 1;
                    let id = self.spawn(CHILD_SCRIPTS[s as usize].to_vec());
                    self.slot = Some(id);
                    self.slot_taken = false;
                    self.slot_waiter = None;
                }
                Act::AwaitSlot | Act::PeekSlot => {
                    let Some(child) = self.slot.filter(|_| !self.slot_taken) else {
                        self.tasks[t].pc += 1;
                        continue;
                    };
                    if self.tasks[child].done {
                        self.got.push((t, child * 10 + self.tasks[child].script.len()));
                        self.slot_taken = true;
                        self.tasks[t].pc += 1;
                        continue;
                    }
                    self.slot_waiter = Some(t);
                    if act == Act::PeekSlot {
                        self.tasks[t].pc += 1;
                        continue;
                    }
                    return Some(false);
                }
            }
        }
    }
    fn run(&mut self) -> usize {
        let mut n = 0;
        let mut guard = 0;
        while let Some(c) = self.step() {
            if c {
                n += 1;
            }
            guard += 1;
            if guard > 10_000 {
                break;
            }
        }
        n
    }
}

// ------------------------------------------------------------------ instrumented futures on the real executor

struct Shared {
    log: Vec<(usize, usize)>,
    channels: [Vec<(usize, Waker)>; 2],
    signalled: Vec<u8>,
    next_id: usize,
    errors: Vec<String>,
    polling: Option<usize>,
    spawner: Option<Spawner<'static>>,
    receivers: Vec<(usize, Receiver<usize>)>,
    finished: Vec<bool>,
    drops: usize,
    slot: Option<(usize, Receiver<usize>)>,
    slot_taken: bool,
    got: Vec<(usize, usize)>,
}

struct TaskFut {
    id: usize,
    script: Vec<Act>,
    pc: usize,
    done: bool,
    shared: Rc<RefCell<Shared>>,
}

impl Drop for TaskFut {
    fn drop(&mut self) {
        self.shared.borrow_mut().drops += 1;
    }
}

fn do_signal(shared: &Rc<RefCell<Shared>>, k: u8, by_ref: bool) {
    let list = std::mem::take(&mut shared.borrow_mut().channels[k as usize]);
    for (t, waker) in list {
        shared.borrow_mut().signalled[t] |= 1 << k;
        if by_ref {
            waker.wake_by_ref();
        } else {
            waker.wake();
        }
    }
}

fn new_task(shared: &Rc<RefCell<Shared>>, script: Vec<Act>) -> TaskFut {
    let mut s = shared.borrow_mut();
    let id = s.next_id;
    s.next_id += 1;
    s.signalled.push(0);
    s.finished.push(false);
    TaskFut { id, script, pc: 0, done: false, shared: Rc::clone(shared) }
}

impl Future for TaskFut {
    type Output = usize;
    fn poll(mut self: Pin<&mut Self>, cx: &mut Context<'_>) -> Poll<usize> {
        let this = &mut *self;
        {
            let mut s = this.shared.borrow_mut();
            if this.done {
                s.errors.push(format!("task {} polled after it completed", this.id));
                return Poll::Ready(0);
            }
            if let Some(p) = s.polling {
                s.errors.push(format!("task {} polled while task {p} is being polled (re-entrant)", this.id));
            }
            s.polling = Some(this.id);
            s.log.push((this.id, this.pc));
        }
        let result = loop {
            let Some(act) = this.script.get(this.pc).copied() else {
                this.done = true;
                this.shared.borrow_mut().finished[this.id] = true;
                break Poll::Ready(this.id * 10 + this.script.len());
            };
            match act {
                Act::Yield => {
                    this.pc += 1;
                    cx.waker().wake_by_ref();
                    break Poll::Pending;
                }
                Act::WakeTwice => {
                    this.pc += 1;
                    cx.waker().clone().wake();
                    cx.waker().wake_by_ref();
                    break Poll::Pending;
                }
                Act::WakeSelf => {
                    this.pc += 1;
                    cx.waker().wake_by_ref();
                }
                Act::Wait(mask) => {
                    let sig = this.shared.borrow().signalled[this.id];
                    if sig & mask != 0 {
                        let mut s = this.shared.borrow_mut();
                        s.signalled[this.id] = 0;
                        for k in 0..2 {
                            s.channels[k].retain(|(t, _)| *t != this.id);
                        }
                        drop(s);
                        this.pc += 1;
                        continue;
                    }
                    let mut s = this.shared.borrow_mut();
                    for k in 0..2u8 {
                        if mask & (1 << k) != 0 && !s.channels[k as usize].iter().any(|(t, _)| *t == this.id) {
                            s.channels[k as usize].push((this.id, cx.waker().clone()));
                        }
                    }
                    break Poll::Pending;
                }
                Act::Signal(k, by_ref) => {
                    this.pc += 1;
                    do_signal(&this.shared, k, by_ref);
                }
                Act::CloneDrop => {
                    this.pc += 1;
                    let w = cx.waker().clone();
                    let w2 = w.clone();
                    drop(w);
                    drop(w2);
                }
                Act::SpawnSlot(sidx) => {
                    this.pc += 1;
                    let child = new_task(&this.shared, CHILD_SCRIPTS[sidx as usize].to_vec());
                    let id = child.id;
                    let spawner = this.shared.borrow().spawner.clone().unwrap();
                    // SAFETY: the future owns only 'static data (Rc to harness state)
                    match unsafe { spawner.spawn(child) } {
                        Ok(rx) => {
                            let old = this.shared.borrow_mut().slot.replace((id, rx));
                            this.shared.borrow_mut().slot_taken = false;
                            drop(old);
                        }
                        Err(_) => this.shared.borrow_mut().errors.push("spawner dead".into()),
                    }
                }
                Act::AwaitSlot | Act::PeekSlot => {
                    let taken = this.shared.borrow().slot_taken;
                    let slot = if taken { None } else { this.shared.borrow_mut().slot.take() };
                    let Some((child, mut rx)) = slot else {
                        this.pc += 1;
                        continue;
                    };
                    let r = Pin::new(&mut rx).poll(cx);
                    this.shared.borrow_mut().slot = Some((child, rx));
                    match r {
                        Poll::Ready(v) => {
                            let mut s = this.shared.borrow_mut();
                            s.got.push((this.id, v));
                            s.slot_taken = true;
                            drop(s);
                            this.pc += 1;
                        }
                        Poll::Pending if act == Act::PeekSlot => this.pc += 1,
                        Poll::Pending => break Poll::Pending,
                    }
                }
                Act::Spawn(sidx) => {
                    this.pc += 1;
                    let child = new_task(&this.shared, CHILD_SCRIPTS[sidx as usize].to_vec());
                    let id = child.id;
                    let spawner = this.shared.borrow().spawner.clone().unwrap();
                    // SAFETY: the future owns only 'static data (Rc to harness state)
                    // child script 1 goes through the other entry point (`spawn_pinned`, no receiver)
                    if sidx == 1 {
                        let fut: Pin<Box<dyn Future<Output = ()>>> = Box::pin(async move {
                            child.await;
                        });
                        // SAFETY: as below
                        if unsafe { spawner.spawn_pinned(fut) }.is_err() {
                            this.shared.borrow_mut().errors.push("spawner dead".into());
                        }
                    } else {
                        match unsafe { spawner.spawn(child) } {
                            Ok(rx) => this.shared.borrow_mut().receivers.push((id, rx)),
                            Err(_) => this.shared.borrow_mut().errors.push("spawner dead".into()),
                        }
                    }
                }
            }
        };
        this.shared.borrow_mut().polling = None;
        result
    }
}

struct Real {
    exec: Executor<'static>,
    shared: Rc<RefCell<Shared>>,
}

impl Real {
    fn new() -> Real {
        let exec = Executor::new();
        let shared = Rc::new(RefCell::new(Shared {
            log: vec![],
            channels: [vec![], vec![]],
            signalled: vec![],
            next_id: 0,
            errors: vec![],
            polling: None,
            spawner: Some(exec.spawner()),
            receivers: vec![],
            finished: vec![],
            drops: 0,
            slot: None,
            slot_taken: false,
            got: vec![],
        }));
        Real { exec, shared }
    }
    fn spawn(&self, script: Vec<Act>) {
        let t = new_task(&self.shared, script);
        let id = t.id;
        // SAFETY: as above
        let rx = unsafe { self.exec.spawn(t) };
        self.shared.borrow_mut().receivers.push((id, rx));
    }
    /// The other entry point: `Executor::spawn_pinned` (no receiver).
    fn spawn_pinned(&self, script: Vec<Act>) {
        let t = new_task(&self.shared, script);
        let fut: Pin<Box<dyn Future<Output = ()>>> = Box::pin(async move {
            t.await;
        });
        // SAFETY: as above
        unsafe { self.exec.spawn_pinned(fut) };
    }
}

/// Replays a system + drive history on a fresh real executor and a fresh model
/// in lock-step. Err(description) on the first disagreement.
fn replay_history(system: &[Vec<Act>], hist: &[Drive]) -> Result<Model, String> {
    let _guard = case_guard(
        json!({"system": fmt_sys(system), "drive": hist.iter().map(|d| format!("{d:?}")).collect::<Vec<_>>()}).to_string(),
    );
    let r = catch(|| {
        let real = Real::new();
        let mut m = Model::default();
        for s in system {
            real.spawn(s.clone());
            m.spawn(s.clone());
        }
        let check = |real: &Real, m: &mut Model, what: &str| -> Result<(), String> {
            let s = real.shared.borrow();
            if let Some(e) = s.errors.first() {
                return Err(format!("{what}: {e}"));
            }
            if s.log != m.log {
                return Err(format!("{what}: poll log {:?}, model {:?}", s.log, m.log));
            }
            if s.got != m.got {
                return Err(format!("{what}: values taken from the shared Receiver (task, value) {:?}, model {:?}", s.got, m.got));
            }
            if real.exec.wake_count() != m.queue.len() {
                return Err(format!("{what}: wake_count {} but model queue {:?}", real.exec.wake_count(), m.queue));
            }
            drop(s);
            // receivers: a value exactly once, as soon as the task has finished
            let rxs = std::mem::take(&mut real.shared.borrow_mut().receivers);
            let mut keep = vec![];
            let mut err = None;
            for (id, rx) in rxs {
                let finished = m.tasks.get(id).is_some_and(|t| t.done);
                match rx.try_receive() {
                    Ok(v) => {
                        if !finished || m.received.contains(&id) {
                            err = Some(format!("{what}: receiver of task {id} yielded {v} (finished={finished}, already received={})", m.received.contains(&id)));
                        }
                        if v != id * 10 + m.tasks[id].script.len() {
                            err = Some(format!("{what}: receiver of task {id} yielded a wrong value {v}"));
                        }
                        m.received.insert(id);
                        // a second receive must fail
                        if rx.try_receive().is_ok() {
                            err = Some(format!("{what}: receiver of task {id} yielded its value twice"));
                        }
                    }
                    Err(_) => {
                        if finished && !m.received.contains(&id) {
                            err = Some(format!("{what}: task {id} finished but its receiver has no value"));
                        }
                        keep.push((id, rx));
                    }
                }
            }
            real.shared.borrow_mut().receivers.extend(keep);
            if let Some(e) = err {
                return Err(e);
            }
            // at stall every unfinished task waits on a channel that has not been signalled since
            if m.queue.is_empty() {
                let s = real.shared.borrow();
                for (t, mt) in m.tasks.iter().enumerate() {
                    if mt.done {
                        continue;
                    }
                    let registered = s.channels.iter().any(|c| c.iter().any(|(x, _)| *x == t));
                    // (a task awaiting the shared Receiver whose child has not finished is waiting too)
                    // (also when another task has displaced its waker or taken the value meanwhile:
                    // the wake-up it waits for has not happened; that the *right* task is woken when
                    // the value arrives is decided by the lock-step comparison with the model)
                    let awaiting_slot = matches!(mt.script.get(mt.pc), Some(Act::AwaitSlot));
                    if awaiting_slot {
                        continue;
                    }
                    if !registered || s.signalled[t] != 0 {
                        return Err(format!("{what}: executor stalled but task {t} is neither finished nor waiting (registered={registered}, signalled={})", s.signalled[t]));
                    }
                }
            }
            Ok(())
        };
        check(&real, &mut m, "after spawn")?;
        for (i, d) in hist.iter().enumerate() {
            let what = format!("op {i} {d:?}");
            match d {
                Drive::Step => {
                    let a = real.exec.step();
                    let b = m.step();
                    if a != b {
                        return Err(format!("{what}: step() returned {a:?}, model {b:?}"));
                    }
                }
                Drive::Run => {
                    let a = real.exec.run_until_stalled();
                    let b = m.run();
                    if a != b {
                        return Err(format!("{what}: run_until_stalled() returned {a}, model {b}"));
                    }
                }
                Drive::Signal(k) => {
                    do_signal(&real.shared, *k, false);
                    m.signal(*k);
                }
                Drive::SpawnNew(s) => {
                    if *s == 2 {
                        real.spawn_pinned(CHILD_SCRIPTS[*s as usize].to_vec());
                    } else {
                        real.spawn(CHILD_SCRIPTS[*s as usize].to_vec());
                    }
                    m.spawn(CHILD_SCRIPTS[*s as usize].to_vec());
                }
            }
            check(&real, &mut m, &what)?;
        }
        // tear-down: dropping the executor and the channel wakers drops every future exactly once
        let total = real.shared.borrow().next_id;
        let shared = Rc::clone(&real.shared);
        drop(real);
        // (take the values out before dropping them: dropping a waker may drop a task future,
        // whose Drop impl borrows `shared`)
        let old_channels = std::mem::take(&mut shared.borrow_mut().channels);
        drop(old_channels);
        let old_rx = std::mem::take(&mut shared.borrow_mut().receivers);
        drop(old_rx);
        let old_slot = shared.borrow_mut().slot.take();
        drop(old_slot);
        let old_spawner = shared.borrow_mut().spawner.take();
        drop(old_spawner);
        let drops = shared.borrow().drops;
        if drops != total {
            return Err(format!("{total} task futures created but {drops} dropped after tear-down (leak or double drop)"));
        }
        Ok(m)
    });
    match r {
        Ok(x) => x,
        Err(p) => Err(format!("panic: {p}")),
    }
}

fn scripts(max_len: usize, alphabet: &[Act]) -> Vec<Vec<Act>> {
    let mut out = vec![vec![]];
    let mut frontier = vec![vec![]];
    for _ in 0..max_len {
        let mut next = vec![];
        for s in &frontier {
            for a in alphabet {
                let mut t: Vec<Act> = s.clone();
                t.push(*a);
                next.push(t);
            }
        }
        out.extend(next.iter().cloned());
        frontier = next;
    }
    out
}

fn parse_act(s: &str) -> Act {
    let nums: Vec<u8> = s.split(|c: char| !c.is_ascii_digit()).filter(|t| !t.is_empty()).map(|t| t.parse().unwrap()).collect();
    if s.starts_with("Yield") {
        Act::Yield
    } else if s.starts_with("WakeTwice") {
        Act::WakeTwice
    } else if s.starts_with("WakeSelf") {
        Act::WakeSelf
    } else if s.starts_with("Wait") {
        Act::Wait(nums[0])
    } else if s.starts_with("Signal") {
        Act::Signal(nums[0], s.contains("true"))
    } else if s.starts_with("CloneDrop") {
        Act::CloneDrop
    } else if s.starts_with("SpawnSlot") {
        Act::SpawnSlot(nums[0])
    } else if s.starts_with("AwaitSlot") {
        Act::AwaitSlot
    } else if s.starts_with("PeekSlot") {
        Act::PeekSlot
    } else {
        Act::Spawn(nums[0])
    }
}

pub fn replay(case: &serde_json::Value) -> i32 {
    let system: Vec<Vec<Act>> = case["system"]
        .as_array()
        .unwrap()
        .iter()
        .map(|s| s.as_array().unwrap().iter().map(|a| parse_act(a.as_str().unwrap())).collect())
        .collect();
    let hist: Vec<Drive> = case["drive"]
        .as_array()
        .unwrap()
        .iter()
        .map(|d| {
            let d = d.as_str().unwrap();
            let n: u8 = d.chars().filter(|c| c.is_ascii_digit()).collect::<String>().parse().unwrap_or(0);
            if d.starts_with("Step") {
                Drive::Step
            } else if d.starts_with("Run") {
                Drive::Run
            } else if d.starts_with("Signal") {
                Drive::Signal(n)
            } else {
                Drive::SpawnNew(n)
            }
        })
        .collect();
    match replay_history(&system, &hist) {
        Ok(_) => {
            println!("system {system:?} drive {hist:?}: agrees with the model");
            0
        }
        Err(e) => {
            println!("system {system:?} drive {hist:?}: {e}");
            1
        }
    }
}

pub fn run(tier: Tier) -> i32 {
    let ctx = Ctx::new("C15", "model_checking", tier);
    let thorough = tier == Tier::Thorough;
    let full = [
        Act::Yield,
        Act::WakeTwice,
        Act::WakeSelf,
        Act::Wait(1),
        Act::Wait(2),
        Act::Wait(3),
        Act::Signal(0, false),
        Act::Signal(0, true),
        Act::Signal(1, false),
        Act::CloneDrop,
        Act::Spawn(0),
        Act::Spawn(1),
    ];
    let reduced = [Act::Yield, Act::WakeSelf, Act::Wait(1), Act::Wait(3), Act::Signal(0, false), Act::Signal(1, true), Act::Spawn(1)];
    let mut systems: Vec<Vec<Vec<Act>>> = vec![];
    // two tasks over the full alphabet, scripts of length <= 2
    let s2 = scripts(2, &full);
    for a in &s2 {
        for b in &s2 {
            systems.push(vec![a.clone(), b.clone()]);
        }
    }
    // three tasks over the reduced alphabet
    let s3 = scripts(tier.pick(1, 2), &reduced);
    for a in &s3 {
        for b in &s3 {
            for c in &s3 {
                systems.push(vec![a.clone(), b.clone(), c.clone()]);
            }
        }
    }
    // a Receiver shared by the tasks: spawned into a slot, awaited, probed, handed over
    {
        let rxalpha = [Act::SpawnSlot(1), Act::SpawnSlot(2), Act::AwaitSlot, Act::PeekSlot, Act::Yield, Act::WakeSelf, Act::Wait(1), Act::Signal(1, false)];
        let s2 = scripts(2, &rxalpha);
        for a in &s2 {
            for b in &s2 {
                if a.iter().chain(b.iter()).any(|x| matches!(x, Act::SpawnSlot(_))) && a.iter().chain(b.iter()).any(|x| matches!(x, Act::AwaitSlot | Act::PeekSlot)) {
                    systems.push(vec![a.clone(), b.clone()]);
                }
            }
        }
        let s1 = scripts(1, &rxalpha);
        for a in &s1 {
            for b in &s1 {
                for c in &s1 {
                    let all = [a, b, c];
                    if all.iter().any(|x| x.iter().any(|y| matches!(y, Act::SpawnSlot(_)))) && all.iter().any(|x| x.iter().any(|y| matches!(y, Act::AwaitSlot | Act::PeekSlot))) {
                        systems.push(vec![a.clone(), b.clone(), c.clone()]);
                    }
                }
            }
        }
    }
    if thorough {
        // two tasks with scripts of length 3 over the reduced alphabet
        let s = scripts(3, &reduced);
        for a in &s {
            for b in &s {
                systems.push(vec![a.clone(), b.clone()]);
            }
        }
    }
    let depth = tier.pick(5, 7);
    let drives = [Drive::Step, Drive::Run, Drive::Signal(0), Drive::Signal(1), Drive::SpawnNew(1), Drive::SpawnNew(2)];
    let states = AtomicU64::new(0);
    let transitions = AtomicU64::new(0);
    let samples = Samples::new(6);
    let nontrivial_systems = AtomicU64::new(0);
    systems.par_iter().for_each(|system| {
        let m0 = match replay_history(system, &[]) {
            Ok(m) => m,
            Err(e) => {
                ctx.violation("c15:lockstep", &e, json!({"system": fmt_sys(system), "drive": Vec::<String>::new()}));
                return;
            }
        };
        let mut seen: HashSet<Model> = HashSet::new();
        seen.insert(m0);
        let mut frontier: Vec<Vec<Drive>> = vec![vec![]];
        let mut any_wait = false;
        'bfs: for _ in 0..depth {
            let mut next = vec![];
            for h in &frontier {
                for d in drives {
                    if matches!(d, Drive::SpawnNew(_)) && h.iter().filter(|x| matches!(x, Drive::SpawnNew(_))).count() >= 1 {
                        continue;
                    }
                    let mut h2 = h.clone();
                    h2.push(d);
                    transitions.fetch_add(1, Relaxed);
                    match replay_history(system, &h2) {
                        Err(e) => {
                            let key = if e.contains("wake_count") {
                                "queue-length"
                            } else if e.contains("poll log") {
                                "poll-order"
                            } else if e.contains("polled after") || e.contains("re-entrant") {
                                "bad-poll"
                            } else if e.contains("receiver") {
                                "receiver"
                            } else if e.contains("stalled") {
                                "stall"
                            } else {
                                "lockstep"
                            };
                            ctx.violation(
                                &format!("c15:{key}"),
                                &e,
                                json!({"system": fmt_sys(system), "drive": h2.iter().map(|d| format!("{d:?}")).collect::<Vec<_>>()}),
                            );
                            break 'bfs;
                        }
                        Ok(m) => {
                            if m.waiting.iter().any(|w| !w.is_empty()) {
                                any_wait = true;
                            }
                            if seen.insert(m) {
                                next.push(h2);
                            }
                        }
                    }
                }
            }
            frontier = next;
            if frontier.is_empty() {
                break;
            }
        }
        states.fetch_add(seen.len() as u64, Relaxed);
        if any_wait {
            nontrivial_systems.fetch_add(1, Relaxed);
        }
        samples.offer(|| json!({"system": fmt_sys(system), "model_states": seen.len()}));
    });
    let cov = json!({
        "states": states.load(Relaxed),
        "transitions": transitions.load(Relaxed),
        "traces_validated_against_impl": transitions.load(Relaxed),
        "samples": samples.take(),
        "task_systems": systems.len(),
        "task_systems_in_which_some_task_blocked_on_a_channel": nontrivial_systems.load(Relaxed),
        "driver_depth": depth,
        "explanation": "for every task system (2 tasks x scripts <=2 over 12 actions; 3 tasks over 7 actions; thorough: 2 tasks x scripts <=3) BFS over driver choices {step, run_until_stalled, signal channel 0/1 from outside, spawn through Executor::spawn, spawn through Executor::spawn_pinned} to the depth bound (tasks spawn children through Spawner::spawn and Spawner::spawn_pinned) with dedup on the reference model's state; every history is replayed on a fresh real Executor with instrumented futures; compared after every driver op: poll log, wake_count vs model queue, return values, receivers (value exactly once, right after completion), no poll after Ready, no re-entrant poll, at stall every unfinished task is registered on an unsignalled channel, every future dropped exactly once at tear-down",
    });
    ctx.finish(cov, &["FIFO reference model (queue + waiting lists) trusted", "a stale wake-up of a finished task is modelled as a queue entry that is popped without a poll (as implemented and consistent with the property)"])
}

fn fmt_sys(system: &[Vec<Act>]) -> Vec<Vec<String>> {
    system.iter().map(|s| s.iter().map(|a| format!("{a:?}")).collect()).collect()
}
