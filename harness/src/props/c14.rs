//! C14: data through pipes, command substitutions and here-documents arrives
//! complete and in order — payload sizes × shapes × buffers × schedules.

use crate::common::*;
use crate::vsh::*;
use rayon::prelude::*;
use serde_json::json;
use std::collections::BTreeMap;
use std::sync::atomic::{AtomicU64, Ordering::Relaxed};

#[derive(Clone, Debug)]
struct Case {
    script: String,
    expected: BTreeMap<String, Vec<String>>,
    size: usize,
}

fn strip_nl(mut v: Vec<u8>) -> Vec<u8> {
    while v.last() == Some(&b'\n') {
        v.pop();
    }
    v
}

fn hs(data: &[u8]) -> String {
    format!("hsink n={} h={:x}", data.len(), fnv(data))
}
fn ck(data: &[u8]) -> String {
    format!("chk n={} h={:x} argc=1", data.len(), fnv(data))
}

fn cases(thorough: bool) -> Vec<Case> {
    let sizes: &[usize] = if thorough {
        &[0, 1, 511, 512, 513, 1023, 1024, 1025, 1536, 2047, 2048, 2049, 4096]
    } else {
        &[0, 1, 511, 512, 513, 1023, 1024, 1025, 2049]
    };
    let bufs: &[usize] = if thorough { &[1, 300, 700, 4096] } else { &[300, 700] };
    let mut out = vec![];
    let m = |pairs: Vec<(&str, String)>| -> BTreeMap<String, Vec<String>> {
        let mut m: BTreeMap<String, Vec<String>> = BTreeMap::new();
        for (k, v) in pairs {
            m.entry(k.to_string()).or_default().push(v);
        }
        m
    };
    for &n in sizes {
        for &(t, e) in &[(0usize, 0usize), (1, 0), (3, 0), (2, 100), (0, 7777), (1, 7778), (2, 7779)] {
            // multi-byte payloads only at sizes where characters straddle the buffer boundaries
            if e >= 7777 && ![513usize, 1025, 2049, 4096].contains(&n) {
                continue;
            }
            let data = payload(n, t, e);
            let g = format!("gen {n} {t} {e}");
            for &b in bufs {
                if b == 1 && n > 600 {
                    continue; // 1-byte reads of large payloads: too many blocking points
                }
                out.push(Case {
                    script: format!("{g} | hsink {b}"),
                    expected: m(vec![("M.2", hs(&data))]),
                    size: n,
                });
                out.push(Case {
                    script: format!("{g} | cat {b} | hsink"),
                    expected: m(vec![("M.3", hs(&data))]),
                    size: n,
                });
                if b == 300 || thorough {
                    out.push(Case {
                        script: format!("{g} | cat | cat {b} | hsink {b}"),
                        expected: m(vec![("M.4", hs(&data))]),
                        size: n,
                    });
                }
            }
            // job control on: pipelines run inside one more subshell
            if [0usize, 513, 1025, 2049].contains(&n) && t <= 1 {
                out.push(Case {
                    script: format!("set -m; {g} | hsink 300"),
                    expected: m(vec![("M.1.2", hs(&data))]),
                    size: n,
                });
                out.push(Case {
                    script: format!("set -m; {g} | cat 700 | hsink"),
                    expected: m(vec![("M.1.3", hs(&data))]),
                    size: n,
                });
            }
            let val = strip_nl(data.clone());
            // a value that is empty expands to one empty field inside double quotes
            out.push(Case {
                script: format!("x=$({g}); chk \"$x\""),
                expected: m(vec![("M", ck(&val))]),
                size: n,
            });
            out.push(Case {
                script: format!("x=$({g} | cat); chk \"$x\""),
                expected: m(vec![("M", ck(&val))]),
                size: n,
            });
            out.push(Case {
                script: format!("x=$(chk \"$({g})\"; {g}); chk \"$x\""),
                expected: m(vec![("M.1", ck(&val)), ("M", ck(&val))]),
                size: n,
            });
            out.push(Case {
                script: format!("chk \"$({g})$({g} | cat 700)\""),
                expected: m(vec![("M", ck(&[val.clone(), val.clone()].concat()))]),
                size: n,
            });
            // descriptor layouts: the same transfers with standard descriptors closed, so the
            // pipe ends land on descriptors 0/1/2 themselves
            if [0usize, 1, 513, 1025].contains(&n) && (t, e) != (2, 100) {
                for layout in [">&-", "<&-", "<&- >&-", "2>&-", "<&- >&- 2>&-"] {
                    out.push(Case {
                        script: format!("{{ x=$({g}); chk \"$x\"; }} {layout}"),
                        expected: m(vec![("M", ck(&val))]),
                        size: n,
                    });
                    out.push(Case {
                        script: format!("{{ x=$({g} | cat 700); chk \"$x\"; }} {layout}"),
                        expected: m(vec![("M", ck(&val))]),
                        size: n,
                    });
                    out.push(Case {
                        script: format!("{{ {g} | hsink; }} {layout}"),
                        expected: m(vec![("M.2", hs(&data))]),
                        size: n,
                    });
                    out.push(Case {
                        script: format!("{{ {g} | cat | hsink 300; }} {layout}"),
                        expected: m(vec![("M.3", hs(&data))]),
                        size: n,
                    });
                }
            }
            // here-document: body lines exactly as generated (must end with a newline)
            if t >= 1 && n <= 2049 {
                let body = String::from_utf8(data.clone()).unwrap();
                out.push(Case {
                    script: format!("hsink 300 <<'E'\n{body}E\n"),
                    expected: m(vec![("M", hs(&data))]),
                    size: n,
                });
                out.push(Case {
                    script: format!("cat 700 <<E | hsink\n{body}E\n"),
                    expected: m(vec![("M.2", hs(&data))]),
                    size: n,
                });
            }
        }
    }
    // `<<-` strips the leading tabs of every body line and of the delimiter line, and nothing else
    {
        let lines: [(&str, &str); 8] = [
            ("\tname\tsize", "name\tsize"),
            ("\t\tfoo\t42\t", "foo\t42\t"),
            ("key\tvalue", "key\tvalue"),
            ("\téa\tb", "éa\tb"),
            ("é\tb", "é\tb"),
            ("\t", ""),
            (" \tx", " \tx"),
            ("\t \ty\t\t", " \ty\t\t"),
        ];
        for n in 1..=lines.len() {
            for rot in 0..lines.len() {
                let sel: Vec<(&str, &str)> = (0..n).map(|i| lines[(rot + i) % lines.len()]).collect();
                let body: String = sel.iter().map(|l| format!("{}\n", l.0)).collect();
                let want: String = sel.iter().map(|l| format!("{}\n", l.1)).collect();
                for (open, close) in [("<<-E", "E"), ("<<-'E'", "\tE"), ("<<-\\E", "\t\tE")] {
                    out.push(Case {
                        script: format!("hsink 300 {open}\n{body}{close}\n"),
                        expected: m(vec![("M", hs(want.as_bytes()))]),
                        size: want.len(),
                    });
                }
                out.push(Case {
                    script: format!("cat 700 <<-E | hsink\n{body}\tE\n"),
                    expected: m(vec![("M.2", hs(want.as_bytes()))]),
                    size: want.len(),
                });
            }
        }
    }
    // bytes that are not UTF-8: pipelines carry bytes, and so does a command substitution (a shell
    // variable can hold any byte but NUL)
    for n in [3usize, 513, 1500] {
        let data = payload(n, 1, 7780);
        let val = strip_nl(data.clone());
        let g = format!("gen {n} 1 7780");
        out.push(Case { script: format!("{g} | cat 300 | hsink 700"), expected: m(vec![("M.3", hs(&data))]), size: n });
        out.push(Case { script: format!("x=$({g}); chk \"$x\""), expected: m(vec![("M", ck(&val))]), size: n });
    }
    // far beyond the pipe capacity (1024 bytes in the simulator): 10x, 20x, 64 KiB + 1
    let big: &[usize] = if thorough { &[10240, 20000, 65537] } else { &[10240] };
    for &n in big {
        for &(t, e) in &[(0usize, 0usize), (2, 0)] {
            let data = payload(n, t, e);
            let val = strip_nl(data.clone());
            let g = format!("gen {n} {t} {e}");
            out.push(Case { script: format!("{g} | hsink 4096"), expected: m(vec![("M.2", hs(&data))]), size: n });
            out.push(Case { script: format!("{g} | cat 700 | hsink 300"), expected: m(vec![("M.3", hs(&data))]), size: n });
            out.push(Case { script: format!("x=$({g}); chk \"$x\""), expected: m(vec![("M", ck(&val))]), size: n });
            out.push(Case { script: format!("x=$({g} | cat 4096); chk \"$x\""), expected: m(vec![("M", ck(&val))]), size: n });
        }
    }
    out
}

fn outcome_string(r: &Run) -> String {
    format!("{:?}|{:?}|{:?}|{:?}|{:?}|{:?}", r.end, r.trace_by_proc(), r.unreaped, r.alive, r.stderr, r.panic)
}

fn judge(r: &Run, c: &Case) -> Option<(String, String)> {
    if let Some(p) = &r.panic {
        return Some(("panic".into(), format!("panic: {p}")));
    }
    match &r.end {
        End::Deadlock => return Some(("deadlock".into(), "deadlock".into())),
        End::Livelock => return Some(("livelock".into(), "step horizon exceeded".into())),
        End::Exited(0) => {}
        other => return Some(("status".into(), format!("shell ended {other:?}"))),
    }
    let t = r.trace_by_proc();
    if t != c.expected {
        return Some(("data".into(), format!("got {t:?}, expected {:?}", c.expected)));
    }
    let fds: Vec<i32> = r
        .final_fds
        .as_deref()
        .unwrap_or("0= 1= 2=")
        .split_whitespace()
        .filter_map(|t| t.split('=').next().and_then(|f| f.parse().ok()))
        .collect();
    if fds != [0, 1, 2] {
        return Some(("fd-leak".into(), format!("descriptors open in the shell at exit: {fds:?}")));
    }
    if !r.unreaped.is_empty() || !r.alive.is_empty() || !r.stderr.is_empty() {
        return Some(("leftover".into(), format!("zombies={:?} alive={:?} stderr={:?}", r.unreaped, r.alive, r.stderr)));
    }
    None
}

pub fn replay(case: &serde_json::Value) -> i32 {
    let script = case["script"].as_str().unwrap();
    let prefix: Vec<usize> = case["prefix"].as_array().unwrap().iter().map(|v| v.as_u64().unwrap() as usize).collect();
    let taps = case["taps"].as_bool().unwrap_or(false);
    let setup = Setup::script(script);
    let opts = RunOpts { prefix, taps, ..Default::default() };
    let a = run_once(&setup, &opts);
    let b = run_once(&setup, &opts);
    println!("run 1: {}\nrun 2: {}\nexpected: {}", outcome_string(&a), outcome_string(&b), case["expected"]);
    if outcome_string(&a) != outcome_string(&b) || a.diverged {
        println!("MACHINERY: replay is not deterministic");
        return 2;
    }
    1
}

pub fn run(tier: Tier) -> i32 {
    let ctx = Ctx::new("C14", "model_checking", tier);
    let thorough = tier == Tier::Thorough;
    let cs = cases(thorough);
    let execs = AtomicU64::new(0);
    let points = AtomicU64::new(0);
    let steps = AtomicU64::new(0);
    let capped = AtomicU64::new(0);
    let discarded = AtomicU64::new(0);
    let machinery = AtomicU64::new(0);
    let max_depth = AtomicU64::new(0);
    let unbounded_complete = AtomicU64::new(0);
    let samples = Samples::new(8);
    cs.par_iter().for_each(|c| {
        let setup = Setup::script(&c.script);
        let a = run_once(&setup, &RunOpts::default());
        let b = run_once(&setup, &RunOpts::default());
        if outcome_string(&a) != outcome_string(&b) {
            machinery.fetch_add(1, Relaxed);
            return;
        }
        // small payloads: every cooperative schedule; larger: deviation bounds
        let mut phases: Vec<Explore> = vec![];
        if c.size <= 1025 {
            phases.push(Explore { max_dev: usize::MAX, taps: false, cap_runs: tier.pick(800, 8000) });
        } else if c.size > 4096 {
            phases.push(Explore { max_dev: 1, taps: false, cap_runs: tier.pick(800, 8000) });
        } else {
            phases.push(Explore { max_dev: tier.pick(2, 3), taps: false, cap_runs: tier.pick(800, 8000) });
        }
        phases.push(Explore { max_dev: 1, taps: true, cap_runs: tier.pick(150, 3000) });
        let mut failed = false;
        for (pi, ph) in phases.iter().enumerate() {
            let mut ex = ph.clone();
            loop {
                let stats = explore(&setup, &ex, &RunOpts::default(), |r, prefix| {
                    steps.fetch_add(r.steps as u64, Relaxed);
                    if r.diverged {
                        machinery.fetch_add(1, Relaxed);
                        return false;
                    }
                    if let Some((key, what)) = judge(r, c) {
                        let again = run_once(&setup, &RunOpts { prefix: prefix.to_vec(), taps: ex.taps, ..Default::default() });
                        if outcome_string(&again) != outcome_string(r) {
                            machinery.fetch_add(1, Relaxed);
                            return false;
                        }
                        let script = if c.script.chars().count() > 300 { format!("{}…", c.script.chars().take(300).collect::<String>()) } else { c.script.clone() };
                        // payloads that are not UTF-8 through a command substitution: a class of its own
                        let key = if key == "data" && c.script.contains(" 7780") && c.script.contains("$(") { "data-not-utf8-through-command-substitution".to_string() } else { key };
                        ctx.violation(
                            &format!("c14:{key}"),
                            &what,
                            json!({"script": c.script, "script_head": script, "prefix": prefix, "taps": ex.taps,
                                   "expected": format!("{:?}", c.expected), "observed": outcome_string(r)}),
                        );
                        failed = true;
                        return false;
                    }
                    true
                });
                execs.fetch_add(stats.runs as u64, Relaxed);
                points.fetch_add(stats.decision_points as u64, Relaxed);
                discarded.fetch_add(stats.discarded as u64, Relaxed);
                max_depth.fetch_max(stats.max_depth as u64, Relaxed);
                if pi == 0 && stats.capped && ex.max_dev > 2 && !failed {
                    // unbounded search did not finish under the cap: complete bound 2 instead
                    capped.fetch_add(1, Relaxed);
                    ex.max_dev = 2;
                    ex.cap_runs = tier.pick(3000, 20000);
                    continue;
                }
                if pi == 0 && !stats.capped && ex.max_dev == usize::MAX {
                    unbounded_complete.fetch_add(1, Relaxed);
                }
                break;
            }
            if failed {
                break;
            }
        }
        samples.offer(|| {
            let script = if c.script.chars().count() > 120 { format!("{}…", c.script.chars().take(120).collect::<String>()) } else { c.script.clone() };
            json!({"script": script, "expected": format!("{:?}", c.expected)})
        });
    });
    if machinery.load(Relaxed) > 0 {
        println!("MACHINERY failure(s): {}", machinery.load(Relaxed));
        std::process::exit(2);
    }
    let cov = json!({
        "states": points.load(Relaxed) + execs.load(Relaxed),
        "transitions": steps.load(Relaxed),
        "traces_validated_against_impl": execs.load(Relaxed),
        "samples": samples.take(),
        "cases": cs.len(),
        "executions": execs.load(Relaxed),
        "decision_points": points.load(Relaxed),
        "max_decision_depth": max_depth.load(Relaxed),
        "cases_with_all_cooperative_schedules_explored": unbounded_complete.load(Relaxed),
        "cases_where_unbounded_search_was_capped_and_bound_2_completed_instead": capped.load(Relaxed),
        "executions_discarded_unrepresentable": discarded.load(Relaxed),
        "explanation": "payload sizes around PIPE_BUF(512)/pipe capacity(1024) x trailing/embedded newlines (and payloads of 2-/3-/4-byte characters straddling the boundaries) x pipeline shapes/command substitutions/here-documents (<< and <<- with leading, inner and trailing tabs and multi-byte line starts) x reader buffer sizes; each case under all cooperative schedules (payload <= 1025 bytes), deviation bound 2/3 (<= 4096 bytes) or 1 (10240, 20000, 65537 bytes), plus syscall-tap preemption at deviation bound 1; oracle = byte-exact length+FNV hash at the consumer, exact trailing-newline removal for $( )",
    });
    ctx.finish(cov, &["simulator constants PIPE_BUF=512, pipe capacity=1024", "probe built-ins gen/cat/hsink/chk are trusted"])
}
