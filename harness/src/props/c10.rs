//! C10: the script aborts exactly when errexit or a shell error says so.
//! The C02 program enumerator with a failing command of every category
//! planted at every leaf position, errexit on/off, EXIT trap observed.

use crate::common::*;
use crate::progs;
use crate::refsh::{self, Cmd, FailKind, Style, FAIL_KINDS};
use crate::vsh::*;
use rayon::prelude::*;
use serde_json::json;
use std::sync::atomic::{AtomicU64, Ordering::Relaxed};

const PRELUDE: &str = "readonly ro=0\nf9() { p zz; }\n";

/// Number of `P` leaves in a command.
fn count_leaves(c: &Cmd) -> usize {
    let mut n = 0;
    visit(c, &mut |x| {
        if matches!(x, Cmd::P { .. }) {
            n += 1
        }
    });
    n
}

fn visit(c: &Cmd, f: &mut dyn FnMut(&Cmd)) {
    f(c);
    match c {
        Cmd::Seq(v) | Cmd::Pipe(v) => v.iter().for_each(|x| visit(x, f)),
        Cmd::AndOr(a, rest) => {
            visit(a, f);
            rest.iter().for_each(|(_, x)| visit(x, f));
        }
        Cmd::Not(x) | Cmd::Group(x) | Cmd::Subshell(x) | Cmd::Async(x) | Cmd::Subst(x) => visit(x, f),
        Cmd::If { cond, then, elifs, els } => {
            visit(cond, f);
            visit(then, f);
            for (c, t) in elifs {
                visit(c, f);
                visit(t, f);
            }
            if let Some(e) = els {
                visit(e, f);
            }
        }
        Cmd::Loop { pre, body, .. } => {
            pre.iter().for_each(|x| visit(x, f));
            visit(body, f);
        }
        Cmd::For { body, .. } => visit(body, f),
        Cmd::Case { arms, .. } => arms.iter().for_each(|(_, b)| {
            if let Some(b) = b {
                visit(b, f)
            }
        }),
        Cmd::FuncDef { body, .. } => visit(body, f),
        _ => {}
    }
}

/// Replaces the k-th `P` leaf (preorder) by `new`.
fn replace_leaf(c: &Cmd, k: usize, new: &Cmd) -> Cmd {
    let mut n = 0usize;
    map(c, &mut |x| {
        if matches!(x, Cmd::P { .. }) {
            n += 1;
            if n - 1 == k {
                return Some(new.clone());
            }
        }
        None
    })
}

fn map(c: &Cmd, f: &mut dyn FnMut(&Cmd) -> Option<Cmd>) -> Cmd {
    if let Some(r) = f(c) {
        return r;
    }
    let b = |x: &Cmd, f: &mut dyn FnMut(&Cmd) -> Option<Cmd>| Box::new(map(x, f));
    match c {
        Cmd::Seq(v) => Cmd::Seq(v.iter().map(|x| map(x, f)).collect()),
        Cmd::Pipe(v) => Cmd::Pipe(v.iter().map(|x| map(x, f)).collect()),
        Cmd::AndOr(a, rest) => {
            let a = b(a, f);
            Cmd::AndOr(a, rest.iter().map(|(o, x)| (*o, map(x, f))).collect())
        }
        Cmd::Not(x) => Cmd::Not(b(x, f)),
        Cmd::Group(x) => Cmd::Group(b(x, f)),
        Cmd::Subshell(x) => Cmd::Subshell(b(x, f)),
        Cmd::Async(x) => Cmd::Async(b(x, f)),
        Cmd::Subst(x) => Cmd::Subst(b(x, f)),
        Cmd::If { cond, then, elifs, els } => {
            let cond = b(cond, f);
            let then = b(then, f);
            let elifs = elifs.iter().map(|(c, t)| (map(c, f), map(t, f))).collect();
            let els = els.as_ref().map(|e| b(e, f));
            Cmd::If { cond, then, elifs, els }
        }
        Cmd::Loop { until, id, n, pre, body } => {
            let pre = pre.iter().map(|x| map(x, f)).collect();
            Cmd::Loop { until: *until, id: *id, n: *n, pre, body: b(body, f) }
        }
        Cmd::For { id, items, body } => Cmd::For { id: *id, items: *items, body: b(body, f) },
        Cmd::Case { subject, arms } => Cmd::Case {
            subject: *subject,
            arms: arms.iter().map(|(p, body)| (p.clone(), body.as_ref().map(|x| map(x, f)))).collect(),
        },
        Cmd::FuncDef { name, body } => Cmd::FuncDef { name: *name, body: b(body, f) },
        other => other.clone(),
    }
}

fn has_pipe(c: &Cmd) -> bool {
    let mut found = false;
    visit(c, &mut |x| {
        if matches!(x, Cmd::Pipe(v) if v.len() > 1) {
            found = true
        }
    });
    found
}

#[derive(Clone, Debug)]
struct Case {
    prog: Cmd,
    /// what makes the case non-trivial
    planted: Option<FailKind>,
}

fn wrap(body: Cmd, errexit: bool, nounset: bool, monitor: bool, syntax_error: bool) -> Cmd {
    let mut v = vec![Cmd::TrapExit(0)];
    if monitor {
        v.push(Cmd::SetM(true));
    }
    if nounset {
        v.push(Cmd::SetU(true));
    }
    if errexit {
        v.push(Cmd::SetE(true));
    }
    v.push(body);
    if syntax_error {
        v.push(Cmd::SyntaxError);
    }
    v.push(Cmd::P { label: 0, st: 0 });
    let mut c = Cmd::Seq(v);
    refsh::relabel(&mut c);
    c
}

fn cases(tier: Tier) -> Vec<Case> {
    let n = tier.pick(4, 4);
    let bases = progs::programs(n);
    let mut out = vec![];
    for base in &bases {
        // no planted failure: non-zero simple commands, pipelines and subshells under errexit
        for errexit in [false, true] {
            out.push(Case { prog: wrap(base.clone(), errexit, false, false, false), planted: None });
        }
        if has_pipe(base) {
            out.push(Case { prog: wrap(base.clone(), true, false, true, false), planted: None });
            out.push(Case { prog: wrap(base.clone(), false, false, true, false), planted: None });
        }
        if refsh::size(base) <= 2 {
            for errexit in [false, true] {
                out.push(Case { prog: wrap(base.clone(), errexit, false, false, true), planted: None });
            }
        }
        let leaves = count_leaves(base);
        for k in 0..leaves {
            for kind in FAIL_KINDS {
                let planted = replace_leaf(base, k, &Cmd::Fail { kind, label: 0 });
                for errexit in [false, true] {
                    out.push(Case {
                        prog: wrap(planted.clone(), errexit, kind == FailKind::Nounset, false, false),
                        planted: Some(kind),
                    });
                }
            }
        }
    }
    // exempt contexts x environments created inside them: the exemption from errexit covers
    // everything executed as part of the condition / non-final and-or operand / negated pipeline,
    // including subshells, substitutions, pipeline elements and asynchronous lists started there
    {
        let p = || Cmd::P { label: 0, st: 0 };
        let bx = |c: Cmd| Box::new(c);
        let failing_then_probe = |last: i32| Cmd::Seq(vec![Cmd::S(1), p(), Cmd::S(last)]);
        let mut inners: Vec<Cmd> = vec![];
        for last in [0, 3] {
            let b = failing_then_probe(last);
            inners.push(Cmd::Subshell(bx(b.clone())));
            inners.push(Cmd::Subst(bx(b.clone())));
            inners.push(Cmd::Pipe(vec![b.clone(), Cmd::S(last)]));
            inners.push(Cmd::Pipe(vec![Cmd::S(0), b.clone()]));
            inners.push(Cmd::Subshell(bx(Cmd::Subshell(bx(b.clone())))));
            inners.push(Cmd::Subshell(bx(Cmd::Seq(vec![Cmd::Group(bx(b.clone())), p()]))));
            inners.push(Cmd::Seq(vec![Cmd::Async(bx(b.clone())), Cmd::WaitLast]));
            inners.push(Cmd::Group(bx(b.clone())));
        }
        for inner in &inners {
            let mut ctxs: Vec<Cmd> = vec![
                Cmd::If { cond: bx(inner.clone()), then: bx(p()), elifs: vec![], els: Some(bx(p())) },
                Cmd::If { cond: bx(Cmd::S(1)), then: bx(p()), elifs: vec![(inner.clone(), p())], els: Some(bx(p())) },
                Cmd::Loop { until: false, id: 0, n: 1, pre: vec![inner.clone()], body: bx(p()) },
                Cmd::Loop { until: true, id: 0, n: 1, pre: vec![inner.clone()], body: bx(p()) },
                Cmd::AndOr(bx(inner.clone()), vec![(true, p())]),
                Cmd::AndOr(bx(inner.clone()), vec![(false, p())]),
                Cmd::AndOr(bx(Cmd::S(0)), vec![(true, inner.clone()), (false, p())]),
                Cmd::Not(bx(inner.clone())),
                Cmd::Seq(vec![Cmd::FuncDef { name: 0, body: bx(Cmd::Group(bx(inner.clone()))) }, Cmd::If { cond: bx(Cmd::Call(0)), then: bx(p()), elifs: vec![], els: Some(bx(p())) }]),
                Cmd::Seq(vec![Cmd::FuncDef { name: 0, body: bx(Cmd::Group(bx(inner.clone()))) }, Cmd::Not(bx(Cmd::Call(0)))]),
            ];
            // the same environments outside any exempt context (errexit applies inside them)
            ctxs.push(inner.clone());
            for c in ctxs {
                for errexit in [true, false] {
                    out.push(Case { prog: wrap(Cmd::Seq(vec![c.clone(), p()]), errexit, false, false, false), planted: None });
                }
            }
        }
    }
    // errexit toggled mid-script
    let small = progs::programs(2);
    for a in &small {
        for b in small.iter().step_by(3) {
            let body = Cmd::Seq(vec![Cmd::SetE(true), a.clone(), Cmd::SetE(false), b.clone()]);
            out.push(Case { prog: wrap(body, false, false, false, false), planted: None });
            let body = Cmd::Seq(vec![a.clone(), Cmd::SetE(true), b.clone()]);
            out.push(Case { prog: wrap(body, false, false, false, false), planted: None });
        }
    }
    out
}

fn script_of(prog: &Cmd) -> String {
    let style = Style { newline: true, ..Default::default() };
    format!("{PRELUDE}{}", refsh::print(prog, style))
}

fn judge(r: &Run, exp: &refsh::Outcome) -> Option<(String, String)> {
    if let Some(p) = &r.panic {
        return Some(("panic".into(), format!("panic: {p}")));
    }
    let t = r.trace_by_proc();
    // EXIT trap exactly once in the main shell (marker `ma`)
    let exit_markers = t.get("M").map_or(0, |v| v.iter().filter(|m| m.starts_with("ma:")).count());
    if exit_markers != 1 {
        return Some(("exit-trap".into(), format!("EXIT trap ran {exit_markers} times; trace {t:?}; stderr={:?}", r.stderr)));
    }
    if !refsh::traces_match(&exp.traces, &t) {
        // classify: did commands run after the abort point, or did the shell stop too early?
        let got_len: usize = t.values().map(|v| v.len()).sum();
        let exp_len: usize = exp.traces.values().map(|v| v.len()).sum();
        let key = if got_len > exp_len { "ran-past-abort" } else if got_len < exp_len { "aborted-early" } else { "markers" };
        return Some((key.into(), format!("got {t:?}, expected {:?}; stderr={:?}", exp.traces, r.stderr)));
    }
    match &r.end {
        End::Exited(s) if refsh::status_matches(exp.status, *s) => {}
        other => return Some(("status".into(), format!("shell ended {other:?}, expected exit {}", refsh::status_str(exp.status)))),
    }
    if !r.stderr.is_empty() != exp.stderr {
        return Some(("stderr".into(), format!("diagnostic expected={} got {:?}", exp.stderr, r.stderr)));
    }
    None
}

pub fn replay(case: &serde_json::Value) -> i32 {
    let script = case["script"].as_str().unwrap();
    let mut opts = RunOpts::default();
    if let Some(k) = case["inject_at_syscall"].as_u64() {
        opts.inject = Some(crate::vsh::Inject { at: vec![(k as usize, 124)], pid: 2 });
        opts.log_taps = true;
    }
    let r = run_once(&Setup::script(script), &opts);
    for e in &r.trace {
        println!("  [{} @{}] {}", e.pid, e.at_tap, e.text);
    }
    let main_taps: Vec<String> = r.tap_log.iter().filter(|(p, _)| *p == 2).enumerate().map(|(i, (_, n))| format!("{i}:{n}")).collect();
    println!("system calls of the main shell: {}", main_taps.join(" "));
    println!("script:\n{script}\n--\nend={:?}\ntrace={:?}\nstderr={}\nexpected={}", r.end, r.trace_by_proc(), r.stderr, case["expected"]);
    1
}

// ---------------------------------------------------------------------------------------------
// (d) an abort is never cancelled by a trap action that runs for a signal caught during the
// failing command: scripts with a diverting (or plain) USR1 trap x failing commands x contexts,
// one signal injected into the main shell at every system-call boundary.

const TRAP_ACTIONS: &[&str] = &["return 0", "break", "continue", "p t", "s 0", "return 7", "p t; return"];
/// (failing command, aborts only under errexit). Each traces `failing` while it is being
/// expanded/executed, so a run that shows the marker has entered the failing command.
const FAILERS: &[(&str, bool)] = &[
    ("s 1 $(p failing)", true),
    ("( p failing; exit 3 )", true),
    ("s 0 | s 2 $(p failing)", true),
    ("{ s 4 $(p failing); }", true),
    ("s 1 $(p failing) 2>/dev/null", true),
    (". ./nonexistent$(p failing)", false),
    ("ro=2$(p failing)", false),
    (": ${unset_var?$(p failing)}", false),
    ("return$(p failing) x y", false),
];
const CONTEXTS_D: &[&str] = &[
    "f() { for i in 1 2; do p pre; FAIL; p reached; done; p afterloop; }; f; p after",
    "for i in 1 2; do p pre; FAIL; p reached; done; p after",
    "f() { p pre; FAIL; p reached; }; g() { f; p ing; }; g; p after",
    "f() { while p pre; do FAIL; p reached; break; done; p afterloop; }; f; p after",
];

fn dominance_scripts() -> Vec<(String, bool)> {
    // (script, whether the USR1 action diverts)
    let mut v = vec![];
    for act in TRAP_ACTIONS {
        for (fail, needs_errexit) in FAILERS {
            for cx in CONTEXTS_D {
                for errexit in [true, false] {
                    if *needs_errexit && !errexit {
                        continue;
                    }
                    let body = cx.replace("FAIL", fail);
                    let e = if errexit { "set -e; " } else { "" };
                    let diverting = act.contains("return") || act.contains("break") || act.contains("continue");
                    v.push((format!("readonly ro=0\n{e}trap '{act}' USR1; trap 'p exit' EXIT\n{body}\n"), diverting));
                }
            }
        }
    }
    v
}

/// Returns (runs, runs in which the failing command was entered, violation).
fn dominance(ctx: &Ctx, script: &str, diverting_action: bool) -> (u64, u64) {
    use crate::vsh::Inject;
    let setup = Setup::script(script);
    let usr1 = 124;
    let base = run_once(&setup, &RunOpts { inject: Some(Inject { at: vec![], pid: 2 }), ..Default::default() });
    let End::Exited(base_status) = base.end else {
        ctx.violation("c10:dominance-baseline", &format!("undisturbed run ended {:?}", base.end), json!({"part": "d", "script": script}));
        return (1, 0);
    };
    let main_markers = |r: &Run| -> Vec<String> { r.trace.iter().filter(|e| e.pid == 2).map(|e| e.text.split(':').next().unwrap_or("").to_string()).collect() };
    let bm = main_markers(&base);
    // the undisturbed run must abort in the failing command: pre, then only the EXIT trap
    if base_status == 0 || bm.iter().filter(|m| *m == "exit").count() != 1 || bm.iter().any(|m| ["reached", "after", "afterloop", "ing"].contains(&m.as_str())) {
        ctx.violation("c10:dominance-baseline", &format!("undisturbed run did not abort as documented: status {base_status}, main markers {bm:?}"), json!({"part": "d", "script": script}));
        return (1, 0);
    }
    let k0 = base.trace.iter().find(|e| e.pid == 2 && e.text.starts_with("pre:")).map(|e| e.at_tap).unwrap_or(0);
    let (mut runs, mut entered) = (1u64, 0u64);
    for k in k0..base.target_taps + 2 {
        let r = run_once(&setup, &RunOpts { inject: Some(Inject { at: vec![(k, usr1)], pid: 2 }), ..Default::default() });
        runs += 1;
        let case = || json!({"part": "d", "script": script, "inject_at_syscall": k});
        if let Some(p) = &r.panic {
            ctx.violation("c10:dominance-panic", &format!("panic: {p}"), case());
            continue;
        }
        let exits = r.trace.iter().filter(|e| e.pid == 2 && e.text.starts_with("exit:")).count();
        if exits > 1 {
            ctx.violation("c10:dominance-exit-trap", &format!("EXIT trap ran {exits} times"), case());
        }
        let Some(pos) = r.trace.iter().position(|e| e.text.starts_with("failing:")) else {
            continue; // the trap action diverted before the failing command was entered
        };
        entered += 1;
        let later: Vec<String> = r.trace[pos + 1..].iter().filter(|e| e.pid == 2).map(|e| e.text.split(':').next().unwrap_or("").to_string()).collect();
        let bad: Vec<&String> = later.iter().filter(|m| !["exit", "t"].contains(&m.as_str())).collect();
        if !bad.is_empty() {
            ctx.violation(
                "c10:abort-cancelled-by-trap",
                &format!("commands ran after the abort point: main shell traced {later:?} after the failing command (signal delivered at system call {k})"),
                case(),
            );
            continue;
        }
        // A `return [n]` / `break` / `continue` action that happens to run while the EXIT trap is
        // starting ends that trap action and, for `return n`, sets the exit status (it works like
        // `exit n` there): only non-diverting actions must leave status and EXIT trap untouched.
        if diverting_action {
            continue;
        }
        if exits != 1 {
            ctx.violation("c10:dominance-exit-trap", &format!("EXIT trap ran {exits} times in an aborting run"), case());
        }
        if r.end != End::Exited(base_status) {
            ctx.violation(
                "c10:abort-status-changed-by-trap",
                &format!("shell ended {:?}; the undisturbed abort ends Exited({base_status})", r.end),
                case(),
            );
        }
    }
    (runs, entered)
}

// (e2) commands that consist of assignments only (XCU 2.9.1: "If there is no command name, but the
// command contained a command substitution, the command shall complete with the exit status of the
// last command substitution performed. Otherwise, the command shall complete with a zero exit
// status"): every sequence of up to three assignments over {plain, `$(s 0)`, `$(s 3)`, `$(s 5)`,
// a value with two substitutions} in the six contexts, errexit off and on.
fn assignment_only_commands(ctx: &Ctx) -> u64 {
    // (text of the value, status it contributes: None = no command substitution)
    let values: [(&str, Option<i32>); 6] = [("1", None), ("$(s 0)", Some(0)), ("$(s 3)", Some(3)), ("$(s 5)", Some(5)), ("$(s 3)$(s 0)", Some(0)), ("\"$(s 0)$(s 5)\"", Some(5))];
    let mut cmds: Vec<(String, i32)> = vec![];
    let mut frontier: Vec<(Vec<usize>,)> = vec![(vec![],)];
    for _ in 0..3 {
        let mut next = vec![];
        for (f,) in &frontier {
            for v in 0..values.len() {
                let mut g = f.clone();
                g.push(v);
                next.push((g,));
            }
        }
        for (g,) in &next {
            let text: Vec<String> = g.iter().enumerate().map(|(i, v)| format!("v{i}={}", values[*v].0)).collect();
            let status = g.iter().rev().find_map(|v| values[*v].1).unwrap_or(0);
            cmds.push((text.join(" "), status));
        }
        frontier = next;
    }
    let n = std::sync::atomic::AtomicU64::new(0);
    cmds.par_iter().for_each(|(cmd, status)| {
        for (ctxname, pre, post, exempt) in [
            ("top", "", "", false),
            ("group", "{ ", "; }", false),
            ("function", "f() { ", "; }; f", false),
            ("if-condition", "if ", "; then p t; else p e; fi", true),
            ("and-or-left", "", " || p o", true),
            ("negated", "! ", "", true),
        ] {
            for errexit in [false, true] {
                let script = format!("trap 'p x' EXIT\n{}{pre}{cmd}{post}\np a\n", if errexit { "set -e\n" } else { "" });
                let r = run_once(&Setup::script(&script), &Default::default());
                n.fetch_add(1, Relaxed);
                let tr = r.all_trace();
                let st = |m: &str| -> Option<i32> { tr.iter().find_map(|t| t.strip_prefix(&format!("{m}:")).and_then(|v| v.parse().ok())) };
                let exits = tr.iter().filter(|t| t.starts_with("x:")).count();
                let fails = *status != 0;
                let problem = if r.panic.is_some() {
                    Some(("panic", format!("{:?}", r.panic)))
                } else if exits != 1 {
                    Some(("exit-trap-count", format!("the EXIT trap ran {exits} times")))
                } else if errexit && !exempt && fails {
                    if st("a").is_some() {
                        Some(("ran-past-abort", "the command after the failing one ran although errexit is on".to_string()))
                    } else if !matches!(r.end, End::Exited(s) if s == *status) {
                        Some(("status", format!("the shell ended {:?}, expected exit status {status}", r.end)))
                    } else {
                        None
                    }
                } else {
                    match ctxname {
                        "if-condition" => (st("t").is_some() == fails || st("e").is_some() != fails).then(|| ("assignment-status", format!("the command's status should be {status}, but the `if` took the {} branch", if st("t").is_some() { "then" } else { "else" }))),
                        "and-or-left" => (st("o").is_some() != fails).then(|| ("assignment-status", format!("`cmd || p o`: status should be {status}, the right-hand side {}", if st("o").is_some() { "ran" } else { "did not run" }))),
                        "negated" => (st("a") != Some(if fails { 0 } else { 1 })).then(|| ("assignment-status", format!("`! cmd` left $? = {:?} for a command of status {status}", st("a")))),
                        _ => (st("a") != Some(*status)).then(|| ("assignment-status", format!("$? after the command is {:?}, expected {status}", st("a")))),
                    }
                };
                if let Some((key, what)) = problem {
                    ctx.violation(&format!("c10:assignments-only:{key}"), &format!("`{pre}{cmd}{post}` (errexit {errexit}): {what}; markers {tr:?}; stderr {:?}", r.stderr.lines().next()), json!({"script": script}));
                    return;
                }
            }
        }
    });
    n.load(Relaxed)
}

// (e) a failing redirection on a command without a name (XCU 2.9.1: "the command shall
// immediately fail with an exit status greater than zero"): sets `$?` without errexit, aborts
// under errexit (outside the exempt contexts), whatever assignments and command substitutions
// the command also has
fn nameless_redirection_errors(ctx: &Ctx) -> u64 {
    let mut n = 0;
    let cmds = [
        "</nonexistent/x",
        "v=1 </nonexistent/x",
        "v=$(s 0) </nonexistent/x",
        "v=$(s 3) </nonexistent/x",
        "</nonexistent/x v=$(s 0)",
        ">/bin/true/x",
        "v=$(s 0) w=$(s 0) 2>/bin/true/x",
        "v=1 </nonexistent/x >/tmp/created",
    ];
    for cmd in cmds {
        for (ctxname, pre, post, exempt) in [
            ("top", "", "", false),
            ("group", "{ ", "; }", false),
            ("function", "f() { ", "; }; f", false),
            ("if-condition", "if ", "; then p t; else p e; fi", true),
            ("and-or-left", "", " || p o", true),
            ("negated", "! ", "", true),
        ] {
            for errexit in [false, true] {
                let script = format!("trap 'p x' EXIT\n{}{pre}{cmd}{post}\np a\n", if errexit { "set -e\n" } else { "" });
                let r = run_once(&Setup::script(&script), &Default::default());
                n += 1;
                let tr = r.all_trace();
                let st = |m: &str| -> Option<i32> { tr.iter().find_map(|t| t.strip_prefix(&format!("{m}:")).and_then(|v| v.parse().ok())) };
                let exits = tr.iter().filter(|t| t.starts_with("x:")).count();
                let problem = if r.panic.is_some() {
                    Some(("panic", format!("{:?}", r.panic)))
                } else if exits != 1 {
                    Some(("exit-trap-count", format!("the EXIT trap ran {exits} times")))
                } else if errexit && !exempt {
                    // aborts: nothing after the failing command runs, the exit status is non-zero
                    if st("a").is_some() {
                        Some(("ran-past-abort", "the command after the failing one ran although errexit is on".to_string()))
                    } else if !matches!(r.end, End::Exited(s) if s != 0) {
                        Some(("status", format!("the shell ended {:?}, expected a non-zero exit status", r.end)))
                    } else {
                        None
                    }
                } else {
                    // continues; `$?` after the command is non-zero (zero after `!`, and the else / `||` branch runs)
                    match ctxname {
                        "if-condition" => (st("e").is_none() || st("t").is_some()).then(|| ("redirection-error-status", "a failing redirection in an `if` condition did not select the else branch".to_string())),
                        "and-or-left" => st("o").is_none().then(|| ("redirection-error-status", "`cmd || p o`: the right-hand side did not run after a failing redirection".to_string())),
                        "negated" => (st("a") != Some(0)).then(|| ("redirection-error-status", format!("`! cmd` left $? = {:?}, expected 0", st("a")))),
                        _ => (!st("a").is_some_and(|v| v != 0)).then(|| ("redirection-error-status", format!("$? after the command is {:?}, expected non-zero", st("a")))),
                    }
                };
                if let Some((key, what)) = problem {
                    let masked = cmd.contains("$(s 0)");
                    let key = if key == "redirection-error-status" || key == "ran-past-abort" { if masked { format!("{key}-masked-by-command-substitution") } else { key.to_string() } } else { key.to_string() };
                    ctx.violation(&format!("c10:nameless:{key}"), &format!("`{pre}{cmd}{post}` (errexit {errexit}): {what}; markers {tr:?}; stderr {:?}", r.stderr.lines().next()), json!({"script": script}));
                }
            }
        }
    }
    n
}

// (f) errexit while a signal trap action runs: the failing command of the action aborts the shell
// with *its* status, nothing runs afterwards, the EXIT trap runs once
fn errexit_in_trap_actions(ctx: &Ctx) -> u64 {
    let mut n = 0;
    for action in ["s 7", "s 7; p t2", "(s 7)", "s 0 | s 7", "f"] {
        for (ctxname, body) in [("top", "kill -s USR1 $$"), ("function", "g() { kill -s USR1 $$; p g; }; g"), ("loop", "for i in 1 2; do kill -s USR1 $$; p l; done")] {
            let script = format!("set -e\nf() {{ s 7; }}\ntrap 'p x' EXIT\ntrap '{action}' USR1\n{body}\np after\n");
            let r = run_once(&Setup::script(&script), &Default::default());
            n += 1;
            let tr = r.all_trace();
            let exits = tr.iter().filter(|t| t.starts_with("x:")).count();
            let later: Vec<&String> = tr.iter().filter(|t| !t.starts_with("x:")).collect();
            let problem = if r.panic.is_some() {
                Some(("panic", format!("{:?}", r.panic)))
            } else if !later.is_empty() {
                Some(("errexit-in-trap-action-ran-on", format!("commands ran after the failing command of the trap action: {later:?}")))
            } else if exits != 1 {
                Some(("errexit-in-trap-action-exit-trap", format!("the EXIT trap ran {exits} times")))
            } else if r.end != End::Exited(7) {
                Some(("errexit-in-trap-action-status", format!("the shell ended {:?}, expected exit status 7 (that of the failing command)", r.end)))
            } else {
                None
            };
            if let Some((key, what)) = problem {
                ctx.violation(&format!("c10:{key}"), &format!("trap action `{action}` under errexit, signal raised at {ctxname}: {what}; markers {tr:?}"), json!({"script": script}));
            }
        }
    }
    n
}

// (g) an expansion error is an expansion error wherever the word stands — also in the operand of a
// redirection, whatever kind of command carries it: a non-interactive shell stops
fn expansion_errors_in_redirection_operands(ctx: &Ctx) -> u64 {
    let mut n = 0;
    for cmd in ["p a <${nosuch?}", "f <${nosuch?}", "{ p a; } >${nosuch?}", "<${nosuch?}", "v=1 2>${nosuch?}", "/bin/true <${nosuch?}", "p a <<E${nosuch?}\nx\nE", "( p a ) <${nosuch?}", "if s 0; then p a; fi <${nosuch?}"] {
        for errexit in [false, true] {
            let script = format!("{}f() {{ p f; }}\ntrap 'p x' EXIT\n{cmd}\np after\n", if errexit { "set -e\n" } else { "" });
            let r = run_once(&Setup::script(&script), &Default::default());
            n += 1;
            let tr = r.all_trace();
            let exits = tr.iter().filter(|t| t.starts_with("x:")).count();
            let later: Vec<&String> = tr.iter().filter(|t| !t.starts_with("x:")).collect();
            let problem = if r.panic.is_some() {
                Some(("panic", format!("{:?}", r.panic)))
            } else if !later.is_empty() {
                Some((if cmd.starts_with('<') || cmd.starts_with("v=1 ") { "expansion-error-in-redirection-operand-of-nameless-command-ran-on" } else { "expansion-error-in-redirection-operand-ran-on" }, format!("commands ran after the expansion error: {later:?}")))
            } else if exits != 1 {
                Some(("exit-trap-count", format!("the EXIT trap ran {exits} times")))
            } else if !matches!(r.end, End::Exited(s) if s != 0) {
                Some(("status", format!("the shell ended {:?}, expected a non-zero exit status", r.end)))
            } else {
                None
            };
            if let Some((key, what)) = problem {
                ctx.violation(&format!("c10:{key}"), &format!("`{cmd}` (errexit {errexit}): {what}; stderr {:?}", r.stderr.lines().next()), json!({"script": script}));
            }
        }
    }
    n
}

// (h) assignment errors — every means by which the shell itself assigns to a variable, applied to
// a read-only one (`r`) or, for the forms that only assign to an unset variable, a read-only unset
// one (`u`): plain and prefixed assignments, the `=` / `:=` switches, every assigning operator of
// arithmetic expansion (`=`, compound assignments, prefix and postfix `++` / `--`), the `for` loop
// variable — in a simple command's word, an assignment value, a redirection operand and a `case`
// subject, errexit off and on: the shell stops, nothing runs afterwards, the EXIT trap runs once,
// the exit status is non-zero.
fn assignment_errors(ctx: &Ctx) -> u64 {
    let forms = [
        "r=2", "r=2 p a", "r=2 :", ": ${u=x}", ": ${u:=x}", ": \"${u:=x}\"", ": $((r=2))", ": $((r+=1))", ": $((r-=1))", ": $((r*=2))", ": $((r<<=1))", ": $((r|=4))", ": $((++r))", ": $((--r))", ": $((r++))",
        ": $((r--))", ": \"$((r++))\"", "v=$((r++))", "v=$((r=2))", "p a >/tmp/o$((r++))", "case $((r--)) in (*) p c;; esac", ": $((1 ? r++ : 0))", ": $((r++ + 1))", ": $(( (r++) ))", "for r in a b; do p l; done",
    ];
    let mut n = 0;
    for cmd in forms {
        for errexit in [false, true] {
            for (pre, post) in [("", ""), ("f() { ", "; }; f"), ("{ ", "; }")] {
                let script = format!("{}readonly r=1 u\ntrap 'p x' EXIT\n{pre}{cmd}{post}\np after\n", if errexit { "set -e\n" } else { "" });
                let r = run_once(&Setup::script(&script), &Default::default());
                n += 1;
                let tr = r.all_trace();
                let exits = tr.iter().filter(|t| t.starts_with("x:")).count();
                let later: Vec<&String> = tr.iter().filter(|t| !t.starts_with("x:")).collect();
                let problem = if r.panic.is_some() {
                    Some(("panic", format!("{:?}", r.panic)))
                } else if !later.is_empty() {
                    Some(("assignment-error-ran-on", format!("commands ran after the assignment to a read-only variable: {later:?}")))
                } else if exits != 1 {
                    Some(("exit-trap-count", format!("the EXIT trap ran {exits} times")))
                } else if !matches!(r.end, End::Exited(s) if s != 0) {
                    Some(("status", format!("the shell ended {:?}, expected a non-zero exit status", r.end)))
                } else {
                    None
                };
                if let Some((key, what)) = problem {
                    ctx.violation(&format!("c10:{key}"), &format!("`{pre}{cmd}{post}` with r and u read-only (errexit {errexit}): {what}; stderr {:?}", r.stderr.lines().next()), json!({"script": script}));
                }
            }
        }
    }
    n
}

pub fn run(tier: Tier) -> i32 {
    let ctx = Ctx::new("C10", "exploration", tier);
    let nameless = assignment_errors(&ctx) + nameless_redirection_errors(&ctx) + errexit_in_trap_actions(&ctx) + expansion_errors_in_redirection_operands(&ctx) + assignment_only_commands(&ctx);
    let dscripts = dominance_scripts();
    let d_runs = AtomicU64::new(0);
    let d_entered = AtomicU64::new(0);
    dscripts.par_iter().for_each(|(s, diverting)| {
        let _g = case_guard(s.clone());
        let (r, e) = dominance(&ctx, s, *diverting);
        d_runs.fetch_add(r, Relaxed);
        d_entered.fetch_add(e, Relaxed);
    });
    let cs = cases(tier);
    let evals = AtomicU64::new(0);
    let skipped = AtomicU64::new(0);
    let nontrivial = AtomicU64::new(0);
    let aborting = AtomicU64::new(0);
    let samples = Samples::new(8);
    cs.par_iter().for_each(|c| {
        let exp = match refsh::run(&c.prog) {
            Ok(e) => e,
            Err(_) => {
                skipped.fetch_add(1, Relaxed);
                return;
            }
        };
        let script = script_of(&c.prog);
        let r = run_once(&Setup::script(&script), &Default::default());
        evals.fetch_add(1, Relaxed);
        // the final probe `p` (last command of the script) did not run => the script was aborted early
        let last_label = {
            let mut n = 0u16;
            visit(&c.prog, &mut |x| match x {
                Cmd::P { label, .. } | Cmd::Fail { label, .. } | Cmd::TrapExit(label) => n = n.max(*label),
                Cmd::Loop { id, .. } | Cmd::For { id, .. } => n = n.max(*id),
                _ => {}
            });
            refsh::label_str(n)
        };
        let aborted = !exp.traces.get("M").is_some_and(|v| v.iter().any(|m| m.starts_with(&format!("{last_label}:"))));
        if aborted {
            aborting.fetch_add(1, Relaxed);
        }
        if aborted || c.planted.is_some() {
            nontrivial.fetch_add(1, Relaxed);
        }
        if let Some((key, what)) = judge(&r, &exp) {
            ctx.violation(
                &format!("c10:{key}"),
                &what,
                json!({"script": script, "planted": format!("{:?}", c.planted), "expected": format!("{exp:?}")}),
            );
        }
        samples.offer(|| json!({"script": script, "expected_traces": format!("{:?}", exp.traces), "status": refsh::status_str(exp.status)}));
    });
    let cov = json!({
        "evaluations": evals.load(Relaxed) + d_runs.load(Relaxed) + nameless,
        "part_e_nameless_commands_with_failing_redirections": nameless,
        "distinct_nontrivial": nontrivial.load(Relaxed) + d_entered.load(Relaxed),
        "rule": format!("every C02 program of at most {} nodes, (a) as is with errexit off/on (+ job control on when it contains a pipeline, + a syntax error on a later line for small ones), (b) with each of 13 failure categories (not found; redirection error on regular built-in / function / compound / special built-in / command-wrapped special; read-only assignment prefixed to special / regular / nothing; ${{u?}}; unset under nounset; special built-in usage error, plain and via `command`) planted at every probe position, errexit off/on, (c) errexit toggled mid-script; (c2) 16 environments (subshell, substitution, pipeline element, nested subshell, group in subshell, async list, group) containing a failing non-final command x 10 exempt contexts (if/elif/while/until conditions, and-or operands, negation, functions called from them) and outside any, errexit on/off; every script has an EXIT trap and a final probe. Oracle: refsh + the documented consequences of shell errors; statuses the manual only calls non-zero are compared as non-zero. Non-trivial = a failure is planted or the reference run aborts before the final probe; distinct by script.", tier.pick(4, 4)),
        "samples": samples.take(),
        "cases": cs.len(),
        "part_d_trap_vs_abort_scripts": dscripts.len(),
        "part_d_runs_one_signal_at_each_syscall": d_runs.load(Relaxed),
        "part_d_runs_where_failing_command_was_entered": d_entered.load(Relaxed),
        "part_d_rule": "trap action x failing command x context (function, loop, nested function) x errexit; SIGUSR1 injected into the main shell at every system-call boundary after the traps are set; whenever the failing command was entered no main-shell command other than the trap action and the EXIT trap may run afterwards, and, for actions that do not themselves divert, the EXIT trap runs exactly once and the exit status equals that of the undisturbed abort",
        "cases_skipped_unspecified": skipped.load(Relaxed),
        "cases_where_the_script_aborts_early": aborting.load(Relaxed),
        "exhaustive": true,
    });
    ctx.finish(cov, &["refsh + docs/src/termination.md table trusted", "run on the simulated OS under the default schedule"])
}
