//! C16: variable scope, lifetime and attributes — the real `VariableSet`
//! explored in lock-step with a naive stack-of-maps model (BFS by history
//! replay through the public RAII context guards), plus scripts through vsh.

use crate::common::*;
use crate::vsh::{self, Setup};
use rayon::prelude::*;
use serde_json::json;
use std::collections::{BTreeMap, HashSet};
use yash_env::variable::{Context, PositionalParams, Scope, Value, VariableSet};
use yash_syntax::source::Location;

#[derive(Clone, Copy, Debug, PartialEq, Eq, Hash)]
pub enum Sc {
    G,
    L,
    V,
}
impl Sc {
    fn real(self) -> Scope {
        match self {
            Sc::G => Scope::Global,
            Sc::L => Scope::Local,
            Sc::V => Scope::Volatile,
        }
    }
}

#[derive(Clone, Copy, Debug, PartialEq, Eq, Hash)]
pub enum Act {
    Touch,
    Assign,
    Export,
    ReadOnly,
}

#[derive(Clone, Copy, Debug, PartialEq, Eq, Hash)]
pub enum Op {
    PushRegular,
    PushVolatile,
    Pop,
    GetOrNew(u8, Sc, Act),
    Unset(u8, Sc),
}

const NAMES: [&str; 2] = ["x", "y"];

// ------------------------------------------------------------------ model

#[derive(Clone, Debug, PartialEq, Eq, Hash, Default, PartialOrd, Ord)]
struct MVar {
    value: Option<String>,
    exported: bool,
    read_only: bool,
}

#[derive(Clone, Debug, PartialEq, Eq, Hash)]
struct MCtx {
    volatile: bool,
    params: Vec<String>,
    vars: BTreeMap<u8, MVar>,
}

#[derive(Clone, Debug, PartialEq, Eq, Hash)]
struct Model {
    ctxs: Vec<MCtx>,
}

impl Model {
    fn new() -> Model {
        Model {
            ctxs: vec![MCtx {
                volatile: false,
                params: vec![],
                vars: BTreeMap::new(),
            }],
        }
    }
    fn top_regular(&self) -> usize {
        self.ctxs.iter().rposition(|c| !c.volatile).unwrap()
    }
    fn index_of(&self, sc: Sc) -> usize {
        match sc {
            Sc::G => 0,
            Sc::L => self.top_regular(),
            Sc::V => self.top_regular() + 1,
        }
    }
    /// index of the context holding the visible variable
    fn visible(&self, n: u8) -> Option<usize> {
        self.ctxs.iter().rposition(|c| c.vars.contains_key(&n))
    }
    fn get(&self, n: u8) -> Option<&MVar> {
        self.visible(n).map(|i| &self.ctxs[i].vars[&n])
    }
    fn get_scoped(&self, n: u8, sc: Sc) -> Option<&MVar> {
        let i = self.visible(n)?;
        (i >= self.index_of(sc)).then(|| &self.ctxs[i].vars[&n])
    }
    /// Documented behaviour of `get_or_new`; returns the context index of the returned variable.
    fn get_or_new(&mut self, n: u8, sc: Sc) -> usize {
        match sc {
            Sc::G | Sc::L => {
                let floor = if sc == Sc::G { 0 } else { self.top_regular() };
                let mut removed: Option<MVar> = None;
                loop {
                    match self.visible(n) {
                        Some(i) if i >= floor => {
                            if self.ctxs[i].volatile {
                                let v = self.ctxs[i].vars.remove(&n).unwrap();
                                removed.get_or_insert(v);
                                continue;
                            }
                            if let Some(r) = removed {
                                self.ctxs[i].vars.insert(n, r);
                            }
                            return i;
                        }
                        _ => {
                            self.ctxs[floor].vars.insert(n, removed.unwrap_or_default());
                            return floor;
                        }
                    }
                }
            }
            Sc::V => {
                let top = self.ctxs.len() - 1;
                assert!(self.ctxs[top].volatile);
                match self.visible(n) {
                    Some(i) if i == top => {}
                    Some(i) => {
                        let v = self.ctxs[i].vars[&n].clone();
                        self.ctxs[top].vars.insert(n, v);
                    }
                    None => {
                        self.ctxs[top].vars.insert(n, MVar::default());
                    }
                }
                top
            }
        }
    }
    /// Documented behaviour of `unset`: Ok(previous topmost) or Err(read-only).
    fn unset(&mut self, n: u8, sc: Sc) -> Result<Option<MVar>, ()> {
        let from = self.index_of(sc);
        let idxs: Vec<usize> = (from..self.ctxs.len())
            .filter(|i| self.ctxs[*i].vars.contains_key(&n))
            .collect();
        if idxs.iter().any(|i| self.ctxs[*i].vars[&n].read_only) {
            return Err(());
        }
        let mut last = None;
        for i in idxs {
            last = self.ctxs[i].vars.remove(&n);
        }
        Ok(last)
    }
    fn iter(&self, sc: Sc) -> Vec<(u8, MVar)> {
        let from = self.index_of(sc);
        let mut v = vec![];
        for n in 0..NAMES.len() as u8 {
            if let Some(i) = self.visible(n) {
                if i >= from {
                    v.push((n, self.ctxs[i].vars[&n].clone()));
                }
            }
        }
        v
    }
    fn env(&self) -> Vec<String> {
        let mut v = vec![];
        for n in 0..NAMES.len() as u8 {
            if let Some(var) = self.get(n) {
                if var.exported {
                    if let Some(val) = &var.value {
                        v.push(format!("{}={}", NAMES[n as usize], val));
                    }
                }
            }
        }
        v
    }
    fn params(&self) -> &Vec<String> {
        &self.ctxs[self.top_regular()].params
    }
}

// ------------------------------------------------------------------ lock-step interpreter

fn conv(v: Option<&yash_env::variable::Variable>) -> Option<MVar> {
    v.map(|v| MVar {
        value: match &v.value {
            None => None,
            Some(Value::Scalar(s)) => Some(s.clone()),
            Some(Value::Array(a)) => Some(format!("{a:?}")),
        },
        exported: v.is_exported,
        read_only: v.read_only_location.is_some(),
    })
}

fn observe(set: &VariableSet, m: &Model) -> Option<String> {
    for n in 0..NAMES.len() as u8 {
        let name = NAMES[n as usize];
        let got = conv(set.get(name));
        if got.as_ref() != m.get(n) {
            return Some(format!("get({name}) = {got:?}, model {:?}", m.get(n)));
        }
        for sc in [Sc::G, Sc::L, Sc::V] {
            let got = conv(set.get_scoped(name, sc.real()));
            if got.as_ref() != m.get_scoped(n, sc) {
                return Some(format!(
                    "get_scoped({name},{sc:?}) = {got:?}, model {:?}",
                    m.get_scoped(n, sc)
                ));
            }
        }
    }
    for sc in [Sc::G, Sc::L, Sc::V] {
        let mut got: Vec<(u8, MVar)> = set
            .iter(sc.real())
            .map(|(name, v)| {
                (
                    NAMES.iter().position(|x| *x == name).unwrap() as u8,
                    conv(Some(v)).unwrap(),
                )
            })
            .collect();
        got.sort();
        if got != m.iter(sc) {
            return Some(format!("iter({sc:?}) = {got:?}, model {:?}", m.iter(sc)));
        }
    }
    let mut env: Vec<String> = set
        .env_c_strings()
        .into_iter()
        .map(|c| c.into_string().unwrap())
        .collect();
    env.sort();
    if env != m.env() {
        return Some(format!("env_c_strings = {env:?}, model {:?}", m.env()));
    }
    if &set.positional_params().values != m.params() {
        return Some(format!(
            "positional params = {:?}, model {:?}",
            set.positional_params().values,
            m.params()
        ));
    }
    None
}

/// Canonical rendering of the implementation's internal state (Debug output
/// with the hash-map entries sorted).
fn canon_debug(set: &VariableSet) -> String {
    let s = format!("{set:?}");
    let Some((vars, ctx)) = s.split_once("}, contexts: ") else {
        return s;
    };
    let Some(vars) = vars.strip_prefix("VariableSet { all_variables: {") else {
        return s;
    };
    let mut entries = vec![];
    let (mut depth, mut in_str, mut esc, mut start) = (0i32, false, false, 0usize);
    for (i, ch) in vars.char_indices() {
        if in_str {
            if esc {
                esc = false;
            } else if ch == '\\' {
                esc = true;
            } else if ch == '"' {
                in_str = false;
            }
            continue;
        }
        match ch {
            '"' => in_str = true,
            '[' | '{' | '(' => depth += 1,
            ']' | '}' | ')' => depth -= 1,
            ',' if depth == 0 => {
                entries.push(vars[start..i].trim().to_string());
                start = i + 1;
            }
            _ => {}
        }
    }
    entries.push(vars[start..].trim().to_string());
    entries.sort();
    format!("{entries:?}|{ctx}")
}

struct Interp<'a> {
    ops: &'a [Op],
    pos: usize,
    model: Model,
    error: Option<(usize, String)>,
    /// read-only variables must keep their value: (ctx index, name) -> value at the time of marking
    final_canon: String,
    popped: bool,
}

impl Interp<'_> {
    /// Executes ops until the matching Pop (or the end). `set` is the real set
    /// (possibly behind a guard).
    fn run(&mut self, set: &mut VariableSet) {
        while self.pos < self.ops.len() && self.error.is_none() {
            let op = self.ops[self.pos];
            self.pos += 1;
            let depth = self.model.ctxs.len();
            match op {
                Op::PushRegular => {
                    let params = vec![format!("p{depth}")];
                    self.model.ctxs.push(MCtx {
                        volatile: false,
                        params: params.clone(),
                        vars: BTreeMap::new(),
                    });
                    let mut guard = set.push_context(Context::Regular {
                        positional_params: PositionalParams {
                            values: params,
                            last_modified_location: None,
                        },
                    });
                    self.check(&guard);
                    self.run(&mut guard);
                    drop(guard);
                    if self.error.is_none() && self.popped {
                        self.popped = false;
                        self.check(set);
                    }
                }
                Op::PushVolatile => {
                    self.model.ctxs.push(MCtx {
                        volatile: true,
                        params: vec![],
                        vars: BTreeMap::new(),
                    });
                    let mut guard = set.push_context(Context::Volatile);
                    self.check(&guard);
                    self.run(&mut guard);
                    drop(guard);
                    if self.error.is_none() && self.popped {
                        self.popped = false;
                        self.check(set);
                    }
                }
                Op::Pop => {
                    self.model.ctxs.pop();
                    self.popped = true;
                    return;
                }
                Op::GetOrNew(n, sc, act) => {
                    let name = NAMES[n as usize];
                    let mi = self.model.get_or_new(n, sc);
                    let mut var = set.get_or_new(name, sc.real());
                    let value = format!("{}{}", ["g", "l", "v"][sc as usize], depth);
                    match act {
                        Act::Touch => {}
                        Act::Assign => {
                            let r = var.assign(value.clone(), None);
                            let mv = self.model.ctxs[mi].vars.get_mut(&n).unwrap();
                            let mr = if mv.read_only {
                                Err(())
                            } else {
                                Ok(mv.value.replace(value))
                            };
                            let agree = match (&r, &mr) {
                                (Ok((old, _)), Ok(mold)) => {
                                    old.as_ref().map(|v| match v {
                                        Value::Scalar(s) => s.clone(),
                                        Value::Array(a) => format!("{a:?}"),
                                    }) == *mold
                                }
                                (Err(_), Err(())) => true,
                                _ => false,
                            };
                            if !agree {
                                self.error = Some((
                                    self.pos - 1,
                                    format!("assign returned {r:?}, model {mr:?}"),
                                ));
                                return;
                            }
                        }
                        Act::Export => {
                            var.export(true);
                            self.model.ctxs[mi].vars.get_mut(&n).unwrap().exported = true;
                        }
                        Act::ReadOnly => {
                            var.make_read_only(Location::dummy("ro"));
                            self.model.ctxs[mi].vars.get_mut(&n).unwrap().read_only = true;
                        }
                    }
                    self.check(set);
                }
                Op::Unset(n, sc) => {
                    let name = NAMES[n as usize];
                    let mr = self.model.unset(n, sc);
                    let r = set.unset(name, sc.real()).map(|v| conv(v.as_ref()));
                    let agree = match (&r, &mr) {
                        (Ok(a), Ok(b)) => a == b,
                        (Err(_), Err(())) => true,
                        _ => false,
                    };
                    if !agree {
                        self.error = Some((
                            self.pos - 1,
                            format!("unset({name},{sc:?}) returned {r:?}, model {mr:?}"),
                        ));
                        return;
                    }
                    self.check(set);
                }
            }
        }
        if self.pos >= self.ops.len() && self.final_canon.is_empty() && self.error.is_none() {
            // innermost point reached at the end of the history
            self.final_canon = canon_debug(set);
        }
    }

    fn check(&mut self, set: &VariableSet) {
        if self.error.is_none() {
            if let Some(e) = observe(set, &self.model) {
                self.error = Some((self.pos.saturating_sub(1), e));
            }
        }
    }
}

impl<'a> Interp<'a> {
    fn new(ops: &'a [Op]) -> Interp<'a> {
        Interp {
            ops,
            pos: 0,
            model: Model::new(),
            error: None,
            final_canon: String::new(),
            popped: false,
        }
    }
}

/// Replays a history on a fresh real set in lock-step with the model.
/// Returns Err((op index, description)) on the first disagreement (or panic),
/// else Ok((model at the end, canonical impl state at the end)).
fn replay_history(ops: &[Op]) -> Result<(Model, String), (usize, String)> {
    let _guard = case_guard(format!("{{\"history\": {:?}}}", ops.iter().map(|o| format!("{o:?}")).collect::<Vec<_>>()));
    let r = catch(|| {
        let mut set = VariableSet::new();
        let mut it = Interp::new(ops);
        it.check(&set);
        it.run(&mut set);
        // a Pop at the outermost level cannot happen (alphabet), so `run` returns at the end
        (it.error, it.model, it.final_canon)
    });
    match r {
        Err(p) => Err((ops.len().saturating_sub(1), format!("panic: {p}"))),
        Ok((Some(e), _, _)) => Err(e),
        Ok((None, m, c)) => Ok((m, c)),
    }
}

fn enabled(m: &Model, max_ctx: usize) -> Vec<Op> {
    let mut v = vec![];
    if m.ctxs.len() < max_ctx + 1 {
        v.push(Op::PushRegular);
        v.push(Op::PushVolatile);
    }
    if m.ctxs.len() > 1 {
        v.push(Op::Pop);
    }
    let top_volatile = m.ctxs.last().unwrap().volatile;
    for n in 0..NAMES.len() as u8 {
        for sc in [Sc::G, Sc::L, Sc::V] {
            if sc == Sc::V && !top_volatile {
                continue; // documented precondition (panics otherwise)
            }
            for act in [Act::Assign, Act::Export, Act::ReadOnly, Act::Touch] {
                v.push(Op::GetOrNew(n, sc, act));
            }
        }
        for sc in [Sc::G, Sc::L, Sc::V] {
            v.push(Op::Unset(n, sc));
        }
    }
    v
}

fn classify(msg: &str, ops: &[Op], at: usize) -> String {
    if let Some(Op::Unset(_, sc)) = ops.get(at) {
        if matches!(sc, Sc::L | Sc::V) {
            return format!("unset-scope-{sc:?}");
        }
    }
    if msg.starts_with("panic") {
        return "panic".into();
    }
    "lockstep".into()
}

fn parse_ops(v: &serde_json::Value) -> Vec<Op> {
    v.as_array()
        .unwrap()
        .iter()
        .map(|s| {
            let s = s.as_str().unwrap();
            let name = |s: &str| if s.contains("(0") { 0u8 } else { 1u8 };
            let sc = |s: &str| {
                if s.contains(" G") {
                    Sc::G
                } else if s.contains(" L") {
                    Sc::L
                } else {
                    Sc::V
                }
            };
            if s == "PushRegular" {
                Op::PushRegular
            } else if s == "PushVolatile" {
                Op::PushVolatile
            } else if s == "Pop" {
                Op::Pop
            } else if s.starts_with("Unset") {
                Op::Unset(name(s), sc(s))
            } else {
                let act = if s.contains("Assign") {
                    Act::Assign
                } else if s.contains("Export") {
                    Act::Export
                } else if s.contains("ReadOnly") {
                    Act::ReadOnly
                } else {
                    Act::Touch
                };
                Op::GetOrNew(name(s), sc(s), act)
            }
        })
        .collect()
}

pub fn replay(case: &serde_json::Value) -> i32 {
    if let Some(script) = case["script"].as_str() {
        let r = vsh::run_once(&Setup::script(script), &Default::default());
        println!("script: {script}\ntrace: {:?}\nexpected: {}\nstderr: {}", r.all_trace(), case["expected"], r.stderr);
        return 1;
    }
    let ops = parse_ops(&case["history"]);
    match replay_history(&ops) {
        Err((at, e)) => {
            println!("history {ops:?}\nfails at op {at}: {e}");
            1
        }
        Ok(_) => {
            println!("history {ops:?} agrees with the model");
            0
        }
    }
}

// ------------------------------------------------------------------ scripts through the shell

struct ScriptCase {
    script: String,
    expected: Vec<String>,
}

/// Scripts exercising the same rules through the language; `args` markers show values,
/// `envp` shows the environment an external stub received.
fn script_cases() -> Vec<ScriptCase> {
    let mut v: Vec<ScriptCase> = vec![];
    // prefix assignments: regular built-in / function / external do not outlive the command
    for cmd in ["args", "f", "ext", "command args", "command ext"] {
        let during = |val: &str| -> Vec<String> {
            match cmd {
                "args" | "command args" => vec!["args".into()],
                "f" => vec![format!("args[{val}]")],
                _ => vec![format!("exec[x={val}]")],
            }
        };
        for pre in ["", "x=0; ", "x=0; export x; ", "unset x; "] {
            let after = match pre {
                "" | "unset x; " => "args[]".to_string(),
                _ => "args[0]".to_string(),
            };
            let mut e = during("1");
            e.push(after);
            let script = format!("f() {{ args \"$x\"; }}; {pre}x=1 {cmd}; args \"$x\"; envp x");
            let mut exp: Vec<String> = e;
            // environment afterwards
            exp.push(if pre.contains("export") { "exec[x=0]".into() } else { "exec[]".into() });
            v.push(ScriptCase { script, expected: exp });
        }
    }
    let mut add = |s: &str, e: &[&str]| {
        v.push(ScriptCase {
            script: s.to_string(),
            expected: e.iter().map(|x| x.to_string()).collect(),
        })
    };
    // special built-ins: assignment persists
    for cmd in [":", "export y", "readonly z", "eval :", "set -- a", ". /tmp/empty"] {
        add(
            &format!("x=0; x=1 {cmd}; args \"$x\""),
            &["args[1]"],
        );
    }
    // every built-in the manual lists (docs/src/builtins/README.md, read at run time): an
    // assignment prefixed to one the manual calls special — the POSIX list and its alias `source` —
    // persists, one prefixed to any other built-in does not
    {
        let readme = std::fs::read_to_string("/repo/docs/src/builtins/README.md").unwrap_or_default();
        let mut special: Vec<String> = vec![];
        let mut in_special = false;
        for line in readme.lines() {
            if line.starts_with("### ") {
                in_special = line.contains("Special built-ins");
            }
            if in_special {
                if let Some(rest) = line.strip_prefix("- [`") {
                    special.push(rest.split('`').next().unwrap().to_string());
                }
                if line.contains("[`source`]") && line.contains("alias for `.`") {
                    special.push("source".into());
                }
            }
        }
        assert!(special.len() >= 15, "could not read the list of special built-ins from the manual: {special:?}");
        for (name, line) in [
            (".", "x=1 . /tmp/empty"),
            ("source", "x=1 source /tmp/empty"),
            (":", "x=1 :"),
            ("break", "for i in 1; do x=1 break; done"),
            ("continue", "for i in 1; do x=1 continue; done"),
            ("eval", "x=1 eval :"),
            ("exec", "x=1 exec"),
            ("export", "x=1 export y"),
            ("readonly", "x=1 readonly z"),
            ("return", "f() { x=1 return; }; f"),
            ("set", "x=1 set -- a"),
            ("shift", "x=1 shift 0"),
            ("times", "x=1 times >/dev/null"),
            ("trap", "x=1 trap - USR1"),
            ("unset", "x=1 unset nosuch"),
            ("alias", "x=1 alias >/dev/null"),
            ("bg", "x=1 bg 2>/dev/null"),
            ("cd", "x=1 cd ."),
            ("command", "x=1 command :"),
            ("fg", "x=1 fg 2>/dev/null"),
            ("getopts", "x=1 getopts a v"),
            ("jobs", "x=1 jobs"),
            ("kill", "x=1 kill -l >/dev/null"),
            ("read", "x=1 read v </dev/null"),
            ("type", "x=1 type : >/dev/null"),
            ("ulimit", "x=1 ulimit >/dev/null"),
            ("umask", "x=1 umask >/dev/null"),
            ("unalias", "x=1 unalias -a"),
            ("wait", "x=1 wait"),
            ("typeset", "x=1 typeset y"),
            ("pwd", "x=1 pwd >/dev/null"),
            ("true", "x=1 true"),
            ("false", "x=1 false"),
        ] {
            let persists = special.iter().any(|s| s == name);
            add(&format!("x=0; {line}; args \"$x\""), &[if persists { "args[1]" } else { "args[0]" }]);
        }
    }
    // declarations whose value contains an equal sign: the operand is split at the *first* one
    // (typeset.md), so the local, the export and the read-only mark are the named variable's
    add("f() { typeset v=k=1; args \"$v\"; v=changed; args \"$v\"; }; v=g; f; args \"$v\"", &["args[k=1]", "args[changed]", "args[g]"]);
    add("export E=a=b=c; args \"$E\"; envp E", &["args[a=b=c]", "exec[E=a=b=c]"]);
    add("f() { typeset -x L==; envp L; }; f; envp L", &["exec[L==]", "exec[]"]);
    add("readonly R=a=b; args \"$R\"; (R=x) 2>/dev/null; args \"$R\"", &["args[a=b]", "args[a=b]"]);
    add("typeset T=; args \"${T-unset}\"; typeset U; args \"${U-unset}\"", &["args[]", "args[unset]"]);
    // ... but not when run via `command`
    add("x=0; x=1 command :; args \"$x\"", &["args[0]"]);
    add("x=0; x=1 command eval 'args $x'; args \"$x\"", &["args[1]", "args[0]"]);
    // nested temporary assignments (function called with a temporary assignment makes another)
    add(
        "f() { args \"$x\"; x=in args; args \"$x\"; x=in2 g; args \"$x\"; }; g() { args \"$x\"; }; x=out f; args \"$x\"",
        &["args[out]", "args", "args[out]", "args[in2]", "args[out]", "args[]"],
    );
    add(
        "f() { x=in ext; envp x; }; x=out f; envp x",
        &["exec[x=in]", "exec[x=out]", "exec[]"],
    );
    add(
        "f() { x=in command eval 'args $x; x=deep g'; args \"$x\"; }; g() { args \"$x\"; }; x=out f; args \"$x\"",
        &["args[in]", "args[deep]", "args[out]", "args[]"],
    );
    // locals and positional parameters vanish at return, globals persist
    add(
        "f() { typeset l=1; g=2; args \"$l\" \"$g\" \"$#\" \"$1\"; }; set -- P Q; f A; args \"${l-unset}\" \"$g\" \"$#\" \"$1\"",
        &["args[1][2][1][A]", "args[unset][2][2][P]"],
    );
    add(
        "f() { typeset x=1; g; args \"$x\"; }; g() { args \"$x\"; x=2; typeset x=3; args \"$x\"; }; x=0; f; args \"$x\"",
        &["args[1]", "args[3]", "args[2]", "args[0]"],
    );
    add(
        "f() { typeset x; x=5; args \"$x\"; unset x; args \"${x-unset}\"; }; x=0; f; args \"$x\"",
        // documented in builtins/unset.md: a global hidden by a local is unset as well
        &["args[5]", "args[unset]", "args[]"],
    );
    add(
        "f() { set -- 1 2 3; shift; args \"$@\"; }; set -- a b; f; args \"$@\"",
        &["args[2][3]", "args[a][b]"],
    );
    // temporary assignment seen inside the function, local shadowing it
    add(
        "f() { args \"$x\"; typeset x=L; args \"$x\"; envp x; }; x=T f; args \"${x-unset}\"",
        // the new local is a fresh, unexported variable hiding the exported temporary one
        &["args[T]", "args[L]", "exec[]", "args[unset]"],
    );
    // assignment inside a function to a temporarily assigned variable persists globally (documented migration)
    add(
        "f() { x=G; args \"$x\"; }; x=T f; args \"${x-unset}\"",
        &["args[G]", "args[G]"],
    );
    // read-only variables are never modified or unset
    add(
        "readonly x=1; x=2; args \"$x\"",
        &[],
    );
    // error of a special built-in: the non-interactive shell exits, nothing is unset
    add("readonly x=1; unset x; args \"$x\"", &[]);
    add("readonly x=1; command unset x; args \"$x\"", &["args[1]"]);
    add("readonly x=1; (unset x; args no); args \"$x\"", &["args[1]"]);
    // assignment error: the non-interactive shell exits (termination.md); in a subshell only it exits
    add("readonly x=1; x=2 args; args \"$x\"", &[]);
    add("readonly x=1; (x=2 args); args \"$x\"", &["args[1]"]);
    add("readonly x=1; (x=2 ext); args \"$x\"; envp x", &["args[1]", "exec[]"]);
    add("readonly x=1; export x; (x=2 ext); envp x", &["exec[x=1]"]);
    add("readonly x=1; (x=2 f); args \"$x\"", &["args[1]"]);
    // typeset.md: a local may hide a read-only variable defined outside the function; the global is untouched
    add(
        "readonly x=1; f() { typeset x=2; args \"$x\"; }; f; args \"$x\"",
        &["args[2]", "args[1]"],
    );
    add(
        "readonly x=1; f() { x=2; args in; }; f; args \"$x\"",
        &[],
    );
    add(
        "f() { readonly x=1; }; f; (x=2; args no); args \"$x\"",
        &["args[1]"],
    );
    add(
        "x=1; export x; readonly x; for x in 2 3; do args loop; done; args \"$x\"",
        &[],
    );
    add("readonly x=1; read x </dev/null; args \"$x\"", &["args[1]"]);
    add("readonly x=1; command export x=2; args \"$x\"; envp x", &["args[1]", "exec[]"]);
    // environment = exported variables with their current values
    add(
        "a=1; b=2; export a; envp a b; a=3; envp a b; export b; unset a; envp a b",
        &["exec[a=1]", "exec[a=3]", "exec[b=2]"],
    );
    add(
        "export a=1; f() { typeset a=2; envp a; typeset -x a; envp a; }; f; envp a",
        &["exec[]", "exec[a=2]", "exec[a=1]"],
    );
    add(
        "export a=1; f() { typeset a; envp a; a=9; envp a; }; f; envp a",
        &["exec[]", "exec[]", "exec[a=1]"],
    );
    add("a=1 b=2 ext; export b; a=3 ext", &["exec[a=1,b=2]", "exec[a=3]"]);
    add("export a=1; a=2 ext; envp a; (a=5; envp a); envp a", &["exec[a=2]", "exec[a=1]", "exec[a=5]", "exec[a=1]"]);
    add("export a=1; unset a; a=2; envp a", &["exec[]"]);
    // every means of assignment x every scope situation: the assignment reaches the innermost
    // visible variable of that name (the function's own local, else a caller's local, else the
    // global), or creates a global; locals vanish at return, globals assigned inside persist
    // every way of *reading* a variable sees the innermost visible one: a local declared without a
    // value hides the outer scalar from `$x`, `${x-U}`, `$((x))`, field splitting (IFS), tilde
    // expansion (HOME) and getopts (OPTIND) alike
    add("x=5; f() { typeset x; args \"${x-U}\" \"$((x+1))\" \"${#x}\"; }; f; args \"$x\" \"$((x+1))\"", &["args[U][1][0]", "args[5][6]"]);
    add("x=5; g() { typeset x; f; }; f() { args \"${x-U}\" \"$((x+1))\"; }; g; f", &["args[U][1]", "args[5][6]"]);
    add("x=5; f() { typeset x; : $((x+=2)); args \"$x\"; }; f; args \"$x\"", &["args[2]", "args[5]"]);
    add("IFS=:; f() { typeset IFS; set -- $1; args \"$#\" \"$1\"; }; f a:b; set -- a:b; set -- $1; args \"$#\"", &["args[1][a:b]", "args[2]"]);
    add("IFS=:; f() { typeset IFS; x=a:b; args $x; y=\"$*\"; args \"$y\"; }; f p q", &["args[a:b]", "args[p q]"]);
    add("HOME=/g; f() { typeset HOME; args ~; }; f; args ~", &["args[~]", "args[/g]"]);
    add("HOME=/g; f() { typeset HOME=/l; args ~ ~/x; }; f; args ~", &["args[/l][/l/x]", "args[/g]"]);
    add("x=5; f() { typeset -x x; envp x; args \"${x-U}\"; }; f; args \"$x\"", &["exec[]", "args[U]", "args[5]"]);
    add("export x=5; f() { typeset x; envp x; }; f; envp x", &["exec[]", "exec[x=5]"]);
    v.extend(assignment_means_cases());
    v
}

/// (text, kind): kind 0 = assigns always, 1 = `${x=7}` (only without a value), 2 = `${x:=7}` (also
/// when empty), 3 = declares a local of the running function
const MEANS: [(&str, u8); 11] = [
    ("x=7", 0),
    (": ${x=7}", 1),
    (": ${x:=7}", 2),
    (": $((x=7))", 0),
    ("read x </tmp/seven", 0),
    ("for x in 7; do :; done", 0),
    ("export x=7", 0),
    ("typeset -g x=7", 0),
    (": \"${x:=7}\"", 2),
    ("eval x=7", 0),
    ("typeset x=7", 3),
];

fn assignment_means_cases() -> Vec<ScriptCase> {
    // a variable in one context: None = absent, Some(None) = declared without a value, Some(Some(v))
    type Slot = Option<Option<String>>;
    let show = |ctxs: &[Slot]| -> String {
        match ctxs.iter().rev().flatten().next() {
            Some(Some(v)) => v.clone(),
            _ => "U".to_string(),
        }
    };
    let apply = |ctxs: &mut Vec<Slot>, kind: u8, in_function: bool| {
        if kind == 3 && in_function {
            *ctxs.last_mut().unwrap() = Some(Some("7".into()));
            return;
        }
        let cur: Option<String> = ctxs.iter().rev().flatten().next().cloned().flatten();
        let assign = match kind {
            1 => cur.is_none(),
            2 => cur.as_deref().is_none_or(|v| v.is_empty()),
            _ => true,
        };
        if !assign {
            return;
        }
        match ctxs.iter().rposition(|c| c.is_some()) {
            Some(i) => ctxs[i] = Some(Some("7".into())),
            None => ctxs[0] = Some(Some("7".into())),
        }
    };
    let mut v = vec![];
    let globals: [(&str, Slot); 3] = [("", None), ("x=; ", Some(Some(String::new()))), ("x=0; ", Some(Some("0".into())))];
    let locals: [(&str, Slot); 3] = [("", None), ("typeset x=; ", Some(Some(String::new()))), ("typeset x; ", Some(None))];
    for (m, kind) in MEANS {
        for (gtext, gslot) in &globals {
            // top level
            {
                let mut ctxs = vec![gslot.clone()];
                apply(&mut ctxs, kind, false);
                v.push(ScriptCase { script: format!("{gtext}{m}; args out \"${{x-U}}\""), expected: vec![format!("args[out][{}]", show(&ctxs))] });
            }
            for (ltext, lslot) in &locals {
                // f alone
                {
                    let mut ctxs = vec![gslot.clone(), lslot.clone()];
                    apply(&mut ctxs, kind, true);
                    let inside = show(&ctxs);
                    ctxs.pop();
                    v.push(ScriptCase {
                        script: format!("f() {{ {ltext}{m}; args in \"${{x-U}}\"; }}; {gtext}f; args out \"${{x-U}}\""),
                        expected: vec![format!("args[in][{inside}]"), format!("args[out][{}]", show(&ctxs))],
                    });
                }
                // g (with or without a local of its own) calls f (without a local)
                if !ltext.is_empty() {
                    let mut ctxs = vec![gslot.clone(), lslot.clone(), None];
                    apply(&mut ctxs, kind, true);
                    let inside = show(&ctxs);
                    ctxs.pop();
                    let in_g = show(&ctxs);
                    ctxs.pop();
                    v.push(ScriptCase {
                        script: format!("f() {{ {m}; args in \"${{x-U}}\"; }}; g() {{ {ltext}f; args g \"${{x-U}}\"; }}; {gtext}g; args out \"${{x-U}}\""),
                        expected: vec![format!("args[in][{inside}]"), format!("args[g][{in_g}]"), format!("args[out][{}]", show(&ctxs))],
                    });
                }
            }
        }
    }
    v
}

// ------------------------------------------------------------------ driver

pub fn run(tier: Tier) -> i32 {
    let ctx = Ctx::new("C16", "model_checking", tier);
    let maxdepth = tier.pick(6, 7);
    let max_ctx = 3;
    // BFS by history replay: frontier of histories, dedup on (model, canonical impl state)
    let mut seen: HashSet<(Model, String)> = HashSet::new();
    let (m0, c0) = replay_history(&[]).unwrap();
    seen.insert((m0.clone(), c0));
    let mut frontier: Vec<(Vec<Op>, Model)> = vec![(vec![], m0)];
    let mut transitions = 0u64;
    let mut by_depth = vec![1u64];
    let samples = Samples::new(8);
    let mut closure = false;
    for depth in 0..maxdepth {
        let results: Vec<(Vec<Op>, Result<(Model, String), (usize, String)>)> = frontier
            .par_iter()
            .flat_map_iter(|(hist, model)| {
                enabled(model, max_ctx).into_iter().map(move |op| {
                    let mut h = hist.clone();
                    h.push(op);
                    let r = replay_history(&h);
                    (h, r)
                })
            })
            .collect();
        let mut next = vec![];
        for (h, r) in results {
            transitions += 1;
            match r {
                Err((at, msg)) => {
                    let key = classify(&msg, &h, at);
                    ctx.violation(
                        &format!("c16:{key}"),
                        &msg,
                        json!({"history": h.iter().map(|o| format!("{o:?}")).collect::<Vec<_>>(), "fails_at": at}),
                    );
                }
                Ok((m, c)) => {
                    if seen.insert((m.clone(), c)) {
                        samples.offer(|| json!({"history": h.iter().map(|o| format!("{o:?}")).collect::<Vec<_>>()}));
                        next.push((h, m));
                    }
                }
            }
        }
        by_depth.push(next.len() as u64);
        frontier = next;
        if frontier.is_empty() {
            closure = true;
            break;
        }
        let _ = depth;
    }

    // scripts through the whole shell
    let scripts = script_cases();
    let mut script_runs = 0u64;
    for sc in &scripts {
        let mut setup = Setup::script(&sc.script);
        setup.files.push(("/tmp/empty".into(), vec![], 0o644));
        setup.files.push(("/tmp/seven".into(), b"7\n".to_vec(), 0o644));
        let r = vsh::run_once(&setup, &Default::default());
        script_runs += 1;
        let got: Vec<String> = r.all_trace().into_iter().filter(|t| !t.starts_with("fds exec") && !t.starts_with("execpath:")).collect();
        if got != sc.expected || r.panic.is_some() {
            ctx.violation(
                "c16:script",
                &format!("got {got:?}, expected {:?}; stderr={:?} panic={:?}", sc.expected, r.stderr, r.panic),
                json!({"script": sc.script, "expected": sc.expected}),
            );
        }
    }

    let cov = json!({
        "states": seen.len(),
        "transitions": transitions,
        "traces_validated_against_impl": transitions + script_runs,
        "samples": samples.take(),
        "depth_bound": maxdepth,
        "new_states_by_depth": by_depth,
        "closure_reached": closure,
        "max_contexts_above_base": max_ctx,
        "scripts_through_shell": scripts.len(),
        "exhaustive": true,
        "explanation": "BFS over operation histories on the real VariableSet (contexts pushed/popped through the public RAII guards by a recursive interpreter), every return value and every read (get, get_scoped x3, iter x3, env_c_strings, positional_params) compared with a stack-of-maps model after every operation; states deduplicated on (model state, canonicalised Debug rendering of the implementation state); plus scripts through the whole shell (prefix assignments to each command kind, locals, read-only, environment of executed programs via the exec stub; and 11 means of assignment (plain, ${x=w}, ${x:=w} bare and quoted, $((x=..)), read, for, export, typeset -g, eval, typeset) x global {absent, empty, set} x the function's or the caller's local {none, empty, declared without value} at top level, in a function and in a function called by a function: the value seen inside, by the caller and after return against the rule: innermost visible variable, else global)",
    });
    ctx.finish(cov, &["names {x,y}; <=3 contexts above the base context; Scope::Volatile only when the topmost context is volatile (documented precondition)"])
}
