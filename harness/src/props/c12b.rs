//! C12 part (b): the job table as seen through the shell. Breadth-first search over histories of
//! job-control commands (`… &`, `jobs`, `fg`, `bg`, `wait`, `kill` with every job-ID form) executed
//! by the real shell (with `set -m`) on the simulated OS. After every command the probe built-in
//! `jl` dumps the shell's job list; a reference model of the documented behaviour
//! (docs/src/interactive/job_control.md, builtins/{jobs,fg,bg,wait,kill}.md) predicts which job
//! every job ID designates (from the `+`/`-` marks of the previous dump), the effect of the
//! command, its output and exit status, and checks the invariants of the property on every dump.
//! States are deduplicated on the canonical model state; histories are replayed from scratch under
//! two deterministic scheduling policies (first / last runnable process).

use crate::common::*;
use crate::vsh::*;
use rayon::prelude::*;
use serde_json::json;
use std::collections::{BTreeMap, HashSet};
use std::sync::atomic::{AtomicU64, Ordering::Relaxed};

#[derive(Clone, Copy, PartialEq, Eq, Hash, Debug)]
enum Ev {
    Stop,
    Hang,
    Exit(i32),
}

/// Job bodies: what the job does each time it runs until its next event.
const TYPES: &[(&str, &[Ev])] = &[
    ("hang", &[Ev::Hang]),
    ("kill -s STOP 0; s 3", &[Ev::Stop, Ev::Exit(3)]),
    ("kill -s STOP 0; kill -s STOP 0; s 4", &[Ev::Stop, Ev::Stop, Ev::Exit(4)]),
    ("kill -s STOP 0; hang", &[Ev::Stop, Ev::Hang]),
    ("s 5", &[Ev::Exit(5)]),
    ("s 0", &[Ev::Exit(0)]),
];

const SIGSTOP: i32 = 116;
const SIGKILL: i32 = 9;
const MAXJ: usize = 3;

#[derive(Clone, Copy, PartialEq, Eq, Hash, Debug)]
pub enum Id {
    Default,
    Plus,
    PctPct,
    Pct,
    Minus,
    Num(usize),
    /// `%?jK;` — substring unique to the job started by the K-th command
    Sub(usize),
    /// `%?: j` — substring of every job name
    SubAll,
    /// `%{ : jK;` — prefix unique to the job started by the K-th command
    Prefix(usize),
}

#[derive(Clone, Copy, PartialEq, Eq, Hash, Debug)]
pub enum Sig {
    Stop,
    Kill,
    Cont,
}

#[derive(Clone, Copy, PartialEq, Eq, Hash, Debug)]
pub enum Op {
    Start(usize),
    Jobs,
    /// `jobs ID`: reports one job
    JobsOf(Id),
    Fg(Id),
    Bg(Id),
    Wait(Option<Id>),
    WaitBang,
    Kill(Sig, Id),
}

fn id_text(id: Id) -> String {
    match id {
        Id::Default => String::new(),
        Id::Plus => "%+".into(),
        Id::PctPct => "%%".into(),
        Id::Pct => "%".into(),
        Id::Minus => "%-".into(),
        Id::Num(n) => format!("%{n}"),
        Id::Sub(k) => format!("'%?j{k};'"),
        Id::SubAll => "'%?: j'".into(),
        Id::Prefix(k) => format!("'%{{ : j{k};'"),
    }
}

fn job_text(k: usize, ty: usize) -> String {
    format!("{{ : j{k}; {}; }}", TYPES[ty].0)
}

fn op_text(op: &Op, k: usize) -> String {
    match op {
        Op::Start(t) => format!("{}&", job_text(k, *t)),
        Op::Jobs => "jobs".into(),
        Op::JobsOf(id) => format!("jobs {}", id_text(*id)),
        Op::Fg(id) => format!("fg {}", id_text(*id)),
        Op::Bg(id) => format!("bg {}", id_text(*id)),
        Op::Wait(None) => "wait".into(),
        Op::Wait(Some(id)) => format!("wait {}", id_text(*id)),
        Op::WaitBang => "wait $!".into(),
        Op::Kill(s, id) => format!(
            "kill -s {} {}",
            match s {
                Sig::Stop => "STOP",
                Sig::Kill => "KILL",
                Sig::Cont => "CONT",
            },
            id_text(*id)
        ),
    }
}

pub fn script_of(hist: &[Op]) -> String {
    let mut s = String::from("set -m\n");
    for (k, op) in hist.iter().enumerate() {
        s.push_str(&op_text(op, k));
        s.push('\n');
        s.push_str(&format!("jl {k}\n"));
    }
    // (the shell would otherwise exit with the last status, e.g. kill itself for a 384+n status)
    s.push_str("s 0\n");
    s
}

#[derive(Clone, Copy, PartialEq, Eq, Hash, Debug)]
enum View {
    Running,
    Stopped,
    Done(i32),
    Killed(i32),
}

impl View {
    fn alive(self) -> bool {
        matches!(self, View::Running | View::Stopped)
    }
    fn shown(self) -> String {
        match self {
            View::Running => "Running".into(),
            View::Stopped => "Stopped(SIGSTOP)".into(),
            View::Done(0) => "Done".into(),
            View::Done(n) => format!("Done({n})"),
            View::Killed(SIGKILL) => "Killed(SIGKILL)".into(),
            View::Killed(n) => format!("Killed({n})"),
        }
    }
    fn wait_status(self) -> Option<i32> {
        match self {
            View::Done(n) => Some(n),
            View::Killed(s) => Some(384 + s),
            _ => None,
        }
    }
}

#[derive(Clone, PartialEq, Eq, Debug)]
struct MJob {
    serial: usize,
    ty: usize,
    pid: i32,
    /// events of the body already passed
    pc: usize,
    view: View,
    changed: bool,
    name: String,
}

impl MJob {
    fn next(&self) -> Ev {
        TYPES[self.ty].1[self.pc.min(TYPES[self.ty].1.len() - 1)]
    }
}

#[derive(Clone, PartialEq, Eq, Debug, Default)]
pub struct MState {
    jobs: BTreeMap<usize, MJob>,
    cur: Option<usize>,
    prev: Option<usize>,
    bang: i32,
}

impl MState {
    fn canon(&self) -> String {
        let mut s = String::new();
        for (i, j) in &self.jobs {
            s.push_str(&format!("{i}:{}:{}:{:?}:{}:{};", j.ty, j.pc, j.view, j.changed, j.pid == self.bang));
        }
        s.push_str(&format!("c{:?}p{:?}", self.cur, self.prev));
        s
    }
}

#[derive(Clone, Debug)]
struct ObsJob {
    idx: usize,
    pid: i32,
    view: View,
    changed: bool,
    job_controlled: bool,
    name: String,
}

#[derive(Clone, Debug)]
struct Obs {
    status: i32,
    bang: i32,
    cur: Option<usize>,
    prev: Option<usize>,
    jobs: Vec<ObsJob>,
    stdout: String,
}

fn parse_opt(s: &str) -> Option<usize> {
    s.strip_prefix("Some(")?.strip_suffix(')')?.parse().ok()
}

fn parse_view(s: &str) -> Option<View> {
    if s == "Running" {
        return Some(View::Running);
    }
    let num = |t: &str| -> Option<i32> {
        let d: String = t.chars().skip_while(|c| !c.is_ascii_digit()).take_while(|c| c.is_ascii_digit()).collect();
        d.parse().ok()
    };
    if s.starts_with("Halted(Stopped(") {
        return (num(s)? == SIGSTOP).then_some(View::Stopped);
    }
    if s.starts_with("Halted(Exited(") {
        return Some(View::Done(num(s)?));
    }
    if s.starts_with("Halted(Signaled") {
        return Some(View::Killed(num(s)?));
    }
    None
}

fn parse_jl(text: &str) -> Option<(usize, Obs)> {
    let rest = text.strip_prefix("jl ")?;
    let (head, jobs) = rest.split_once(" |")?;
    let mut it = head.split(' ');
    let tag: usize = it.next()?.parse().ok()?;
    let mut o = Obs { status: 0, bang: 0, cur: None, prev: None, jobs: vec![], stdout: String::new() };
    for kv in it {
        let (k, v) = kv.split_once('=')?;
        match k {
            "st" => o.status = v.parse().ok()?,
            "bang" => o.bang = v.parse().ok()?,
            "cur" => o.cur = parse_opt(v),
            "prev" => o.prev = parse_opt(v),
            _ => {}
        }
    }
    for j in jobs.split('\x1e').skip(1) {
        let f: Vec<&str> = j.split('\x1f').collect();
        if f.len() != 6 {
            return None;
        }
        o.jobs.push(ObsJob {
            idx: f[0].parse().ok()?,
            pid: f[1].parse().ok()?,
            view: parse_view(f[2])?,
            changed: f[3] == "true",
            job_controlled: f[4] == "true",
            name: f[5].to_string(),
        });
    }
    Some((tag, o))
}

enum Res {
    Job(usize),
    NotFound,
    Ambiguous,
}

fn resolve(m: &MState, id: Id) -> Res {
    let opt = |o: Option<usize>| o.map_or(Res::NotFound, Res::Job);
    let by = |f: &dyn Fn(&MJob) -> bool| {
        let v: Vec<usize> = m.jobs.iter().filter(|(_, j)| f(j)).map(|(i, _)| *i).collect();
        match v.len() {
            0 => Res::NotFound,
            1 => Res::Job(v[0]),
            _ => Res::Ambiguous,
        }
    };
    match id {
        Id::Default | Id::Plus | Id::PctPct | Id::Pct => opt(m.cur),
        Id::Minus => opt(m.prev),
        Id::Num(n) => opt(m.jobs.contains_key(&(n - 1)).then_some(n - 1)),
        Id::Sub(k) => by(&|j| j.serial == k),
        Id::Prefix(k) => by(&|j| j.serial == k),
        Id::SubAll => by(&|_| true),
    }
}

/// Can `wait` for this job return? (finished, or running towards its exit)
fn waitable(j: &MJob) -> bool {
    !j.view.alive() || (j.view == View::Running && matches!(j.next(), Ev::Exit(_)))
}

fn enabled(m: &MState, depth: usize, thorough: bool) -> Vec<Op> {
    let mut v = vec![];
    if m.jobs.len() < MAXJ {
        for t in 0..TYPES.len() {
            v.push(Op::Start(t));
        }
    }
    v.push(Op::Jobs);
    let alt = [Id::Plus, Id::PctPct, Id::Pct][depth % 3];
    let mut ids = vec![Id::Default, alt, Id::Minus];
    for n in 1..=MAXJ {
        ids.push(Id::Num(n));
    }
    if thorough {
        ids.push(Id::Num(MAXJ + 1));
        ids.push(Id::SubAll);
        if let Some(j) = m.jobs.values().next() {
            ids.push(Id::Sub(j.serial));
        }
        if let Some(j) = m.jobs.values().last() {
            ids.push(Id::Prefix(j.serial));
        }
    }
    for &id in &ids {
        let target = resolve(m, id);
        let fg_ok = match &target {
            Res::Job(i) => !m.jobs[i].view.alive() || m.jobs[i].next() != Ev::Hang,
            _ => true,
        };
        if fg_ok {
            v.push(Op::Fg(id));
        }
        if thorough && id != Id::Default {
            v.push(Op::JobsOf(id));
        }
        v.push(Op::Bg(id));
        if id != Id::Default {
            let wait_ok = match &target {
                Res::Job(i) => waitable(&m.jobs[i]),
                _ => true,
            };
            if wait_ok {
                v.push(Op::Wait(Some(id)));
            }
            let alive = match &target {
                Res::Job(i) => m.jobs[i].view.alive(),
                _ => true,
            };
            if alive {
                for s in [Sig::Stop, Sig::Kill, Sig::Cont] {
                    v.push(Op::Kill(s, id));
                }
            }
        }
    }
    if m.jobs.values().all(waitable) {
        v.push(Op::Wait(None));
    }
    if m.bang != 0 && m.jobs.values().find(|j| j.pid == m.bang).is_none_or(waitable) {
        v.push(Op::WaitBang);
    }
    v
}

/// Checks the property's invariants on one dump.
fn invariants(o: &Obs) -> Result<(), String> {
    let n = o.jobs.len();
    let get = |i: usize| o.jobs.iter().find(|j| j.idx == i);
    if n == 0 && (o.cur.is_some() || o.prev.is_some()) {
        return Err("empty job list with a current/previous job".into());
    }
    if n > 0 && !o.cur.is_some_and(|c| get(c).is_some()) {
        return Err("non-empty job list without an (existing) current job".into());
    }
    if n >= 2 && !(o.prev.is_some_and(|p| get(p).is_some()) && o.prev != o.cur) {
        return Err("two or more jobs without a distinct previous job".into());
    }
    if n == 1 && o.prev.is_some() {
        return Err("one job but a previous job is designated".into());
    }
    let susp = o.jobs.iter().filter(|j| j.view == View::Stopped).count();
    if susp >= 1 && get(o.cur.unwrap()).unwrap().view != View::Stopped {
        return Err("a suspended job exists but the current job is not suspended".into());
    }
    if susp >= 2 && get(o.prev.unwrap()).unwrap().view != View::Stopped {
        return Err("two suspended jobs exist but the previous job is not suspended".into());
    }
    let mut pids = HashSet::new();
    let mut idxs = HashSet::new();
    for j in &o.jobs {
        if !pids.insert(j.pid) {
            return Err("one process ID designates two jobs".into());
        }
        if !idxs.insert(j.idx) {
            return Err("one job number designates two jobs".into());
        }
    }
    Ok(())
}

fn jobs_line(i: usize, m: &MState, j: &MJob) -> String {
    let mark = if m.cur == Some(i) {
        '+'
    } else if m.prev == Some(i) {
        '-'
    } else {
        ' '
    };
    format!("[{}] {} {:<20} {}\n", i + 1, mark, j.view.shown(), j.name)
}

/// One step of the reference model: checks the observation after `op` against what the
/// documentation allows from `pre`, and returns the model state after it.
fn step(pre: &MState, op: &Op, serial: usize, o: &Obs) -> Result<MState, String> {
    invariants(o)?;
    let blocking = matches!(op, Op::Fg(_) | Op::Wait(_) | Op::WaitBang);
    // expected effect on the target
    let mut post = pre.clone();
    let mut removed: Vec<usize> = vec![];
    let mut want_status: Result<i32, &str> = Ok(0); // Err = "non-zero"
    let mut want_stdout: Option<String> = Some(String::new());
    let mut want_bang: Option<i32> = Some(pre.bang);
    let mut target: Option<usize> = None;
    let mut new_job = false;
    let id_of = |op: &Op| match op {
        Op::Fg(id) | Op::Bg(id) | Op::Kill(_, id) | Op::JobsOf(id) => Some(*id),
        Op::Wait(Some(id)) => Some(*id),
        _ => None,
    };
    let res = match op {
        Op::WaitBang => Some(pre.jobs.iter().find(|(_, j)| j.pid == pre.bang).map_or(Res::NotFound, |(i, _)| Res::Job(*i))),
        _ => id_of(op).map(|id| resolve(pre, id)),
    };
    match (op, &res) {
        (Op::Start(_), _) => {
            new_job = true;
            want_bang = None;
        }
        (Op::Jobs, _) => {
            let mut out = String::new();
            for (i, j) in &pre.jobs {
                out.push_str(&jobs_line(*i, pre, j));
                if !j.view.alive() {
                    removed.push(*i);
                }
            }
            want_stdout = Some(out);
            for j in post.jobs.values_mut() {
                j.changed = false;
            }
        }
        (Op::Wait(None), _) => {
            // waits for all jobs; all of them are finished afterwards and forgotten
            removed = pre.jobs.keys().copied().collect();
            want_status = Ok(0);
        }
        (Op::Wait(Some(_)) | Op::WaitBang, Some(Res::NotFound)) => want_status = Ok(127),
        (_, Some(Res::NotFound | Res::Ambiguous)) => want_status = Err("non-zero"),
        (_, Some(Res::Job(i))) => {
            let i = *i;
            target = Some(i);
            let j = post.jobs.get_mut(&i).unwrap();
            match op {
                Op::Fg(_) => {
                    want_stdout = Some(format!("{}\n", j.name));
                    if let Some(st) = j.view.wait_status() {
                        want_status = Ok(st);
                        removed.push(i);
                    } else {
                        match j.next() {
                            Ev::Stop => {
                                j.view = View::Stopped;
                                j.pc += 1;
                                want_status = Ok(384 + SIGSTOP);
                            }
                            Ev::Exit(n) => {
                                want_status = Ok(n);
                                removed.push(i);
                            }
                            Ev::Hang => return Err("model: fg on a hanging job generated".into()),
                        }
                    }
                }
                Op::JobsOf(_) => {
                    let line = jobs_line(i, pre, &pre.jobs[&i]);
                    want_stdout = Some(line);
                    if !j.view.alive() {
                        removed.push(i);
                    }
                    j.changed = false;
                }
                Op::Bg(_) => {
                    want_stdout = Some(format!("[{}] {}\n", i + 1, j.name));
                    want_bang = Some(j.pid);
                    if j.view == View::Stopped {
                        j.view = View::Running;
                    }
                }
                Op::Wait(_) | Op::WaitBang => {
                    let st = match j.view.wait_status() {
                        Some(st) => st,
                        None => match j.next() {
                            Ev::Exit(n) => n,
                            _ => return Err("model: wait on a job that cannot finish generated".into()),
                        },
                    };
                    want_status = Ok(st);
                    removed.push(i);
                }
                Op::Kill(Sig::Stop, _) => {
                    if j.view == View::Running {
                        j.view = View::Stopped;
                    }
                }
                Op::Kill(Sig::Kill, _) => {
                    if j.view.alive() {
                        j.view = View::Killed(SIGKILL);
                    }
                }
                Op::Kill(Sig::Cont, _) => {
                    if j.view == View::Stopped {
                        j.view = View::Running;
                    }
                }
                _ => unreachable!(),
            }
        }
        _ => unreachable!(),
    }
    // compare job by job
    let failed = matches!(res, Some(Res::NotFound | Res::Ambiguous)) && !matches!(op, Op::Wait(_) | Op::WaitBang);
    let mut newly_stopped: Vec<usize> = vec![];
    let mut anything_changed = new_job || !removed.is_empty();
    for (i, pj) in &pre.jobs {
        let oj = o.jobs.iter().find(|j| j.idx == *i);
        if removed.contains(i) {
            if oj.is_some_and(|oj| oj.pid == pj.pid) {
                // `wait` without operands and `jobs` must forget finished jobs; a job that was
                // still running when the command looked may remain only if it is not finished
                return Err(format!("job {} should have been removed from the job list by `{}`", i + 1, op_text(op, serial)));
            }
            continue;
        }
        let Some(oj) = oj else {
            return Err(format!("job {} disappeared from the job list during `{}`", i + 1, op_text(op, serial)));
        };
        if oj.pid != pj.pid || oj.name != pj.name {
            return Err(format!("job number {} now designates another job (pid {} -> {})", i + 1, pj.pid, oj.pid));
        }
        let want = &post.jobs[i];
        let mut allowed = vec![(want.view, want.pc)];
        if blocking && Some(*i) != target && want.view == View::Running {
            // a runnable job may have reached its next event while the shell was blocked
            match want.next() {
                Ev::Stop => allowed.push((View::Stopped, want.pc + 1)),
                Ev::Exit(n) => allowed.push((View::Done(n), want.pc + 1)),
                Ev::Hang => {}
            }
        }
        let Some(&(v, pc)) = allowed.iter().find(|(v, _)| *v == oj.view) else {
            return Err(format!(
                "after `{}` job {} ({}) is shown as {:?}; the documentation allows {:?}",
                op_text(op, serial),
                i + 1,
                pj.name,
                oj.view,
                allowed.iter().map(|a| a.0).collect::<Vec<_>>()
            ));
        };
        // (a job resumed by `fg` that stops again has been suspended anew)
        if v == View::Stopped && (pj.view != View::Stopped || (matches!(op, Op::Fg(_)) && Some(*i) == target)) {
            newly_stopped.push(*i);
        }
        if v != pj.view {
            anything_changed = true;
        }
        let j = post.jobs.get_mut(i).unwrap();
        j.view = v;
        j.pc = pc;
        if (matches!(op, Op::Jobs) || (matches!(op, Op::JobsOf(_)) && Some(*i) == target)) && oj.changed {
            return Err(format!("`jobs` reported job {} but its state is still marked as unreported", i + 1));
        }
        j.changed = oj.changed;
        if !oj.job_controlled {
            return Err(format!("job {} is not job-controlled although it was started with `set -m`", i + 1));
        }
    }
    for i in &removed {
        post.jobs.remove(i);
    }
    // jobs in the dump that the model does not know
    for oj in &o.jobs {
        if post.jobs.contains_key(&oj.idx) {
            continue;
        }
        if !new_job {
            return Err(format!("unexpected job {} (pid {}) in the job list after `{}`", oj.idx + 1, oj.pid, op_text(op, serial)));
        }
        new_job = false;
        let Op::Start(ty) = op else { unreachable!() };
        if pre.jobs.values().any(|j| j.pid == oj.pid) {
            return Err("a new job has the process ID of an existing job".into());
        }
        if oj.view != View::Running || !oj.job_controlled || oj.name != job_text(serial, *ty) {
            return Err(format!("new job is recorded as {oj:?}, expected Running, job-controlled, named `{}`", job_text(serial, *ty)));
        }
        if o.bang != oj.pid {
            return Err(format!("$! is {} after starting the job with pid {}", o.bang, oj.pid));
        }
        post.jobs.insert(oj.idx, MJob { serial, ty: *ty, pid: oj.pid, pc: 0, view: View::Running, changed: oj.changed, name: oj.name.clone() });
    }
    if new_job {
        return Err("the asynchronous command did not add a job to the job list".into());
    }
    if failed && (anything_changed || o.cur != pre.cur || o.prev != pre.prev) {
        return Err(format!("`{}` failed but changed the job list", op_text(op, serial)));
    }
    // status, output, $!
    match want_status {
        Ok(n) if o.status != n => return Err(format!("`{}` returned {}, expected {n}", op_text(op, serial), o.status)),
        Err(_) if o.status == 0 => return Err(format!("`{}` returned 0, expected an error", op_text(op, serial))),
        _ => {}
    }
    if failed {
        want_stdout = Some(String::new());
    }
    if let Some(w) = &want_stdout {
        if *w != o.stdout {
            return Err(format!("`{}` printed {:?}, expected {:?}", op_text(op, serial), o.stdout, w));
        }
    }
    if let Some(b) = want_bang {
        if !failed && o.bang != b {
            return Err(format!("$! is {} after `{}`, expected {b}", o.bang, op_text(op, serial)));
        }
    }
    // current / previous job rules
    // (`bg` and `fg` select the job they resume; the manual does not say whether that moves the marks)
    if !anything_changed && !matches!(op, Op::Bg(_) | Op::Fg(_)) && (o.cur != pre.cur || o.prev != pre.prev) {
        return Err(format!("current/previous job changed ({:?}/{:?} -> {:?}/{:?}) although no job changed state", pre.cur, pre.prev, o.cur, o.prev));
    }
    match newly_stopped.len() {
        0 => {}
        1 => {
            if o.cur != Some(newly_stopped[0]) {
                return Err(format!("job {} was suspended but the current job is {:?}", newly_stopped[0] + 1, o.cur.map(|c| c + 1)));
            }
            let only_this = removed.is_empty()
                && pre.jobs.iter().all(|(i, pj)| *i == newly_stopped[0] || post.jobs.get(i).is_some_and(|j| j.view == pj.view));
            if only_this {
                if let Some(pc) = pre.cur {
                    if pc != newly_stopped[0] && o.prev != Some(pc) {
                        return Err(format!("job {} was suspended; the old current job {} should be the previous job, which is {:?}", newly_stopped[0] + 1, pc + 1, o.prev.map(|c| c + 1)));
                    }
                }
            }
        }
        _ => {
            if !o.cur.is_some_and(|c| newly_stopped.contains(&c)) {
                return Err("jobs were suspended but none of them is the current job".into());
            }
        }
    }
    post.cur = o.cur;
    post.prev = o.prev;
    post.bang = o.bang;
    Ok(post)
}

/// Runs a history and steps the model through it. Ok(final model state) or Err((key, message)).
fn run_history(hist: &[Op], policy_last: bool) -> Result<MState, (String, String)> {
    let script = script_of(hist);
    let r = run_once(&Setup::script(&script), &RunOpts { policy_last, ..Default::default() });
    if let Some(p) = &r.panic {
        return Err(("panic".into(), format!("panic: {p}")));
    }
    if !matches!(r.end, End::Exited(_)) {
        return Err(("end".into(), format!("shell ended {:?}; stderr {:?}", r.end, r.stderr)));
    }
    let mut chunks: Vec<String> = vec![];
    let mut rest = r.stdout.as_str();
    for k in 0..hist.len() {
        let sep = format!("--{k}--\n");
        let Some(p) = rest.find(&sep) else {
            return Err(("stdout".into(), format!("separator {k} missing in standard output {:?}", r.stdout)));
        };
        chunks.push(rest[..p].to_string());
        rest = &rest[p + sep.len()..];
    }
    let mut obs: Vec<Obs> = vec![];
    for e in r.trace.iter().filter(|e| e.pid == 2) {
        if let Some((tag, mut o)) = parse_jl(&e.text) {
            if tag != obs.len() {
                return Err(("trace".into(), "job-list dumps out of order".into()));
            }
            o.stdout = chunks[tag].clone();
            obs.push(o);
        } else if e.text.starts_with("jl ") {
            return Err(("trace".into(), format!("unparsable job-list dump {:?}", e.text)));
        }
    }
    if obs.len() != hist.len() {
        return Err(("trace".into(), format!("{} job-list dumps for {} commands; stderr {:?}", obs.len(), hist.len(), r.stderr)));
    }
    let mut m = MState::default();
    // $! before any job
    m.bang = obs.first().map(|o| if matches!(hist[0], Op::Start(_)) { 0 } else { o.bang }).unwrap_or(0);
    for (k, op) in hist.iter().enumerate() {
        match step(&m, op, k, &obs[k]) {
            Ok(n) => m = n,
            Err(msg) => {
                let key = msg.split(['`', '(', ':']).next().unwrap_or("").trim().chars().take(60).collect::<String>();
                return Err((format!("step:{}:{key}", op_kind(op)), format!("step {k}: {msg}")));
            }
        }
    }
    Ok(m)
}

fn op_kind(op: &Op) -> &'static str {
    match op {
        Op::Start(_) => "start",
        Op::Jobs | Op::JobsOf(_) => "jobs",
        Op::Fg(_) => "fg",
        Op::Bg(_) => "bg",
        Op::Wait(_) | Op::WaitBang => "wait",
        Op::Kill(..) => "kill",
    }
}

pub fn replay(case: &serde_json::Value) -> i32 {
    let script = case["script"].as_str().unwrap();
    let policy_last = case["policy_last"].as_bool().unwrap_or(false);
    let r = run_once(&Setup::script(script), &RunOpts { policy_last, ..Default::default() });
    println!("{script}--\nend={:?}\nstdout={:?}\nstderr={}", r.end, r.stdout, r.stderr);
    for e in &r.trace {
        println!("  [{}] {}", e.pid, e.text.replace('\x1e', " | ").replace('\x1f', ";"));
    }
    1
}

pub struct Cov {
    pub states: u64,
    pub transitions: u64,
    pub json: serde_json::Value,
}

pub fn run(ctx: &Ctx, tier: Tier) -> Cov {
    let thorough = tier == Tier::Thorough;
    let maxdepth = tier.pick(4, 6);
    let transitions = AtomicU64::new(0);
    let mut states_total = 0u64;
    let samples = Samples::new(6);
    let mut per_policy = vec![];
    let mut op_counts: BTreeMap<&'static str, u64> = BTreeMap::new();
    for policy_last in [false, true] {
        let mut seen: HashSet<String> = HashSet::new();
        seen.insert(MState::default().canon());
        let mut frontier: Vec<(Vec<Op>, MState)> = vec![(vec![], MState::default())];
        let mut by_depth = vec![1u64];
        for depth in 0..maxdepth {
            let results: Vec<(Vec<Op>, std::result::Result<MState, (String, String)>)> = frontier
                .par_iter()
                .flat_map_iter(|(hist, m)| {
                    enabled(m, depth, thorough).into_iter().map(move |op| {
                        let mut h = hist.clone();
                        h.push(op);
                        h
                    })
                })
                .map(|h| {
                    let _g = case_guard(script_of(&h));
                    let r = run_history(&h, policy_last);
                    transitions.fetch_add(1, Relaxed);
                    (h, r)
                })
                .collect();
            let mut next = vec![];
            for (h, r) in results {
                *op_counts.entry(op_kind(h.last().unwrap())).or_default() += 1;
                match r {
                    Ok(m) => {
                        if seen.insert(m.canon()) {
                            samples.offer(|| json!({"script": script_of(&h), "policy_last": policy_last}));
                            next.push((h, m));
                        }
                    }
                    Err((key, msg)) => {
                        ctx.violation(
                            &format!("c12b:{key}"),
                            &msg,
                            json!({"part": "b", "script": script_of(&h), "policy_last": policy_last, "history": h.iter().enumerate().map(|(k, o)| op_text(o, k)).collect::<Vec<_>>()}),
                        );
                    }
                }
            }
            by_depth.push(next.len() as u64);
            frontier = next;
            if frontier.is_empty() {
                break;
            }
        }
        states_total += seen.len() as u64;
        per_policy.push(json!({"policy": if policy_last { "last runnable process first" } else { "first runnable process first" }, "states": seen.len(), "new_states_by_depth": by_depth, "frontier_states_not_expanded": frontier.len()}));
    }
    let t = transitions.load(Relaxed);
    Cov {
        states: states_total,
        transitions: t,
        json: json!({
            "explanation": "BFS over histories of job-control commands run by the real shell (set -m) on the simulated OS; after every command the `jl` probe dumps the shell's job list; the reference model (documented behaviour of &, jobs, fg, bg, wait, kill and job IDs) resolves %, %%, %+, %-, %n, %?str, %str from the previous dump's marks, predicts effect/output/status/$!, and the property's invariants are checked on every dump; every history is replayed from scratch; states deduplicated on (job types, progress, shown state, reported flag, current, previous, $!)",
            "depth_bound": maxdepth,
            "max_jobs": MAXJ,
            "job_bodies": TYPES.iter().map(|t| t.0).collect::<Vec<_>>(),
            "histories_executed": t,
            "distinct_model_states": states_total,
            "per_policy": per_policy,
            "transitions_by_command": op_counts,
            "samples": samples.take(),
        }),
    }
}
