//! C06: the parser is total and printing a parsed command re-parses to the same
//! tree. Token sequences, mutations of the scripted-test corpus and raw
//! character soup; structural comparison through a location-erasing rendering.

use crate::common::*;
use futures_util::FutureExt;
use rayon::prelude::*;
use serde_json::json;
use std::sync::atomic::{AtomicU64, Ordering::Relaxed};
use yash_syntax::parser::Parser;
use yash_syntax::parser::lex::Lexer;
use yash_syntax::syntax::List;

/// Parses a whole program the way the shell's read-eval loop does (command
/// line by command line). Ok(lists) or Err(message).
fn parse_program(src: &str) -> Result<Vec<List>, String> {
    parse_program_in(src, false)
}

/// `portable`: with the `portable` shell option on (the parser then accepts POSIX syntax only).
fn parse_program_in(src: &str, portable: bool) -> Result<Vec<List>, String> {
    let mut lexer = Lexer::with_code(src);
    if portable {
        let mut mode = yash_env::parser::Mode::default();
        mode.portable = true;
        lexer.set_mode(mode);
    }
    let mut parser = Parser::new(&mut lexer);
    let mut out = vec![];
    let mut guard = 0;
    loop {
        guard += 1;
        if guard > 100_000 {
            return Err("HANG: more than 100000 command lines".into());
        }
        match parser.command_line().now_or_never() {
            None => return Err("BLOCKED: parser future is pending on in-memory input".into()),
            Some(Ok(Some(list))) => out.push(list),
            Some(Ok(None)) => return Ok(out),
            Some(Err(e)) => return Err(e.to_string()),
        }
    }
}

/// Debug rendering with every `Location { … }` (and other source-position
/// bookkeeping) replaced by a placeholder, so that two trees can be compared
/// structurally.
pub fn erase_locations(debug: &str) -> String {
    let bytes = debug.as_bytes();
    let mut out = String::with_capacity(debug.len());
    let mut i = 0;
    while i < bytes.len() {
        if debug[i..].starts_with("Location {") {
            // skip to the matching brace (strings inside may contain braces)
            let mut depth = 0;
            let mut in_str = false;
            let mut esc = false;
            let mut j = i;
            while j < bytes.len() {
                let c = bytes[j] as char;
                if in_str {
                    if esc {
                        esc = false;
                    } else if c == '\\' {
                        esc = true;
                    } else if c == '"' {
                        in_str = false;
                    }
                } else if c == '"' {
                    in_str = true;
                } else if c == '{' {
                    depth += 1;
                } else if c == '}' {
                    depth -= 1;
                    if depth == 0 {
                        j += 1;
                        break;
                    }
                }
                j += 1;
            }
            out.push_str("@L");
            i = j;
        } else {
            let ch = debug[i..].chars().next().unwrap();
            out.push(ch);
            i += ch.len_utf8();
        }
    }
    out
}

fn structure(lists: &[List]) -> String {
    erase_locations(&format!("{lists:?}"))
}

fn has_here_doc(structure: &str) -> bool {
    structure.contains("HereDoc")
}

struct Counters {
    inputs: AtomicU64,
    parsed_ok: AtomicU64,
    roundtrips: AtomicU64,
    heredoc_skipped: AtomicU64,
}

fn classify(src: &str, printed: &str) -> &'static str {
    if printed.contains("$'") && src.contains("\\c") {
        "dollar-single-quote-control-escape"
    } else if src.contains("()") && src.contains('$') {
        "function-name-with-expansion"
    } else {
        "roundtrip"
    }
}

/// Totality with an alias table in effect (recursive, mutually recursive and global aliases make
/// the parser re-read its own output): Ok/Err, never a panic or a hang.
fn check_total_with_aliases(ctx: &Ctx, src: &str, table: &[(&str, &str, bool)], counters: &Counters) {
    use yash_env::alias::{AliasSet, HashEntry};
    use yash_syntax::source::Location;
    counters.inputs.fetch_add(1, Relaxed);
    let case = json!({"input": src, "aliases": table.iter().map(|(n, v, g)| format!("{}{n}={v:?}", if *g { "-g " } else { "" })).collect::<Vec<_>>()});
    let _guard = case_guard(case.to_string());
    let mut set = AliasSet::new();
    for (n, v, g) in table {
        set.insert(HashEntry::new(n.to_string(), v.to_string(), *g, Location::dummy("alias")));
    }
    let r = catch(|| {
        let mut lexer = Lexer::with_code(src);
        let mut cfg = Parser::config();
        cfg.aliases(&set);
        let mut parser = cfg.input(&mut lexer);
        for _ in 0..10_000 {
            match parser.command_line().now_or_never() {
                None => return Err("BLOCKED"),
                Some(Ok(Some(_))) => {}
                Some(Ok(None)) | Some(Err(_)) => return Ok(()),
            }
        }
        Err("HANG")
    });
    match r {
        Err(p) => {
            ctx.violation("c06:panic-with-aliases", &format!("parser panicked on {src:?}: {p}"), case);
        }
        Ok(Err(e)) => {
            ctx.violation("c06:hang-with-aliases", &format!("{e} on {src:?}"), case);
        }
        Ok(Ok(())) => {}
    }
}

const ALIAS_TABLES: &[&[(&str, &str, bool)]] = &[
    &[("a", "a", false), ("b", "b a", false)],
    &[("a", "b ", false), ("b", "a ", false), ("c", "a b ", false)],
    &[("c", "c x", true)],
    &[("a", "b x", true), ("b", "a y", true)],
    &[("a", "x a ", true), ("b", "a", false), ("c", "b ", false)],
    &[("a", "if", false), ("b", "then", false), ("c", "fi", false)],
    &[("a", "! a", false), ("b", "( b", false), ("c", "{ c; }", true)],
    &[("a", "for a in a", true), ("b", "case b in b", true), ("c", "<c", true)],
    // replacements shorter and longer than the name, next to command substitutions
    &[("abc", "x", false), ("a", "abc $(x) ", false), ("b", "", false), ("c", "x $(abc) y", false)],
];
const ALIAS_TOKENS: &[&str] = &["a", "b", "c", "x", "!", ";", "|", "&&", "(", ")", "{", "}", "if", "then", "fi", "<f", ">c", "for", "in", "do", "done", "case", "esac", "\n", "a=1", "'a'", "abc", "$(c d)", "\"$(a)\""];

/// (opener, innermost text, closer) of the towers of nested constructs.
const TOWERS: &[(&str, &str, &str, &str)] = &[
    ("subshell", "(", ":", ")"),
    ("group", "{ ", ":", ";}"),
    ("command-substitution", "x=$(", ":", ")"),
    ("double-quoted-substitution", "\"$(", ":", ")\""),
    ("parameter-switch", "${x:-", "a", "}"),
    ("if", "if ", ":", "; then :; fi"),
    ("arithmetic", "$((1+", "1", "))"),
    // `$((` that turns out to be `$( (`: the arithmetic attempt fails at the very end
    ("arithmetic-or-subshell", "$((", ":", ") )"),
    ("backquote-in-dquote", "\"`", ":", "`\""),
];

fn tower(kind: &str, depth: usize) -> Option<String> {
    let (_, open, mid, close) = TOWERS.iter().find(|t| t.0 == kind)?;
    let prefix = if open.starts_with('$') || open.starts_with('"') { ": " } else { "" };
    Some(format!("{prefix}{}{mid}{}\n", open.repeat(depth), close.repeat(depth)))
}

pub fn parse_probe(kind: &str, depth: usize) -> i32 {
    let Some(src) = tower(kind, depth) else { return 3 };
    match parse_program(&src) {
        Ok(_) => println!("ok"),
        Err(e) => println!("err {}", e.chars().take(80).collect::<String>()),
    }
    0
}

/// Runs `yv parse-probe kind depth` with a wall-clock limit. Ok(()) = returned, Err(what) otherwise.
fn probe_subprocess(kind: &str, depth: usize, limit_s: u64) -> Result<(), String> {
    probe_subprocess_with("parse-probe", kind, depth, limit_s)
}

/// `yv <verb> kind depth` in a subprocess under a wall-clock limit.
pub fn probe_subprocess_with(verb: &str, kind: &str, depth: usize, limit_s: u64) -> Result<(), String> {
    use std::os::unix::process::ExitStatusExt;
    let exe = std::env::current_exe().map_err(|e| e.to_string())?;
    let mut child = std::process::Command::new(exe)
        .args([verb, kind, &depth.to_string()])
        .stdout(std::process::Stdio::null())
        .stderr(std::process::Stdio::null())
        .spawn()
        .map_err(|e| e.to_string())?;
    let deadline = std::time::Instant::now() + std::time::Duration::from_secs(limit_s);
    loop {
        match child.try_wait() {
            Ok(Some(st)) => {
                return match (st.code(), st.signal()) {
                    (Some(0), _) => Ok(()),
                    (Some(c), _) => Err(format!("MACHINERY exit code {c}")),
                    (None, Some(sig)) => Err(format!("killed by signal {sig} (stack overflow)")),
                    _ => Err("unknown".into()),
                };
            }
            Ok(None) if std::time::Instant::now() > deadline => {
                let _ = child.kill();
                let _ = child.wait();
                return Err(format!("did not finish within {limit_s} s"));
            }
            Ok(None) => std::thread::sleep(std::time::Duration::from_millis(5)),
            Err(e) => return Err(e.to_string()),
        }
    }
}

/// The same round trip with the `portable` option on: what the parser accepts in that mode must
/// be printed in a form it accepts in that mode.
fn check_portable(ctx: &Ctx, src: &str, counters: &Counters) {
    let Ok(Ok(parsed)) = catch(|| parse_program_in(src, true)) else { return };
    let s1 = structure(&parsed);
    let trailing = src.chars().rev().take_while(|c| *c == '\\').count();
    if has_here_doc(&s1) || trailing % 2 == 1 {
        return;
    }
    counters.roundtrips.fetch_add(1, Relaxed);
    let printed: String = parsed.iter().map(|l| l.to_string()).collect::<Vec<_>>().join("\n");
    let again = catch(|| parse_program_in(&printed, true));
    // (empty command lines vanish when printed: compare the non-empty lists)
    let nonempty = |l: &[List]| structure(&l.iter().filter(|x| !x.0.is_empty()).cloned().collect::<Vec<_>>());
    let ok = matches!(&again, Ok(Ok(l)) if nonempty(l) == nonempty(&parsed));
    if !ok {
        ctx.violation(
            "c06:roundtrip-portable-mode",
            &format!("with `portable` on, {src:?} parses and prints as {printed:?}, which then gives {:?}", again.map(|r| r.map(|l| l.iter().map(|x| x.to_string()).collect::<Vec<_>>()))),
            json!({"input": src, "printed": printed, "portable": true}),
        );
    }
}

fn check_input(ctx: &Ctx, src: &str, counters: &Counters) {
    check_portable(ctx, src, counters);
    counters.inputs.fetch_add(1, Relaxed);
    let _guard = case_guard(json!({"input": src}).to_string());
    let parsed = match catch(|| parse_program(src)) {
        Err(p) => {
            let key = if src.trim_end().ends_with("${") || src.contains("${") { "c06:panic-braced-param" } else { "c06:panic" };
            ctx.violation(key, &format!("parser panicked on {src:?}: {p}"), json!({"input": src}));
            return;
        }
        Ok(Err(e)) => {
            if e.starts_with("HANG") || e.starts_with("BLOCKED") {
                ctx.violation("c06:hang", &format!("{e} on {src:?}"), json!({"input": src}));
            }
            return;
        }
        Ok(Ok(lists)) => lists,
    };
    counters.parsed_ok.fetch_add(1, Relaxed);
    let s1 = structure(&parsed);
    if has_here_doc(&s1) {
        counters.heredoc_skipped.fetch_add(1, Relaxed);
        return;
    }
    // an unescaped lone backslash at the very end of the input has no printable
    // form that survives being followed by other text: unspecified, totality only
    let trailing = src.chars().rev().take_while(|c| *c == '\\').count();
    if trailing % 2 == 1 {
        return;
    }
    // print: one line per command line (as job names / typeset -f do per command)
    let printed: String = parsed.iter().map(|l| l.to_string()).collect::<Vec<_>>().join("\n");
    counters.roundtrips.fetch_add(1, Relaxed);
    match catch(|| parse_program(&printed)) {
        Err(p) => {
            ctx.violation("c06:panic", &format!("parser panicked on printed text {printed:?}: {p}"), json!({"input": src, "printed": printed}));
        }
        Ok(Err(e)) => {
            ctx.violation(
                &format!("c06:{}", classify(src, &printed)),
                &format!("{src:?} prints as {printed:?}, which does not parse: {e}"),
                json!({"input": src, "printed": printed}),
            );
        }
        Ok(Ok(again)) => {
            // empty command lines vanish when printed: compare non-empty lists
            let a: Vec<List> = parsed.into_iter().filter(|l| !l.0.is_empty()).collect();
            let b: Vec<List> = again.into_iter().filter(|l| !l.0.is_empty()).collect();
            let (sa, sb) = (structure(&a), structure(&b));
            if sa != sb {
                ctx.violation(
                    &format!("c06:{}", classify(src, &printed)),
                    &format!("{src:?} prints as {printed:?}, which parses to a different tree"),
                    json!({"input": src, "printed": printed, "tree": sa.chars().take(600).collect::<String>(), "reparsed": sb.chars().take(600).collect::<String>()}),
                );
            }
        }
    }
}

const TOKENS: &[&str] = &[
    "a", "b", "x=1", "y=", "'q r'", "\"d $v\"", "$v", "${v}", "${v:-w}", "${#v}", "${v%%p*}", "$(c d)", "`c`", "$((1+2))", "$'e\\n\\x41\\cA'", "\\;",
    "~/p", "*?[x]", "if", "then", "elif", "else", "fi", "do", "done", "case", "esac", "while", "until", "for", "in", "{", "}", "!", "function",
    "[[", "]]", ";", "&", "|", "&&", "||", ";;", "(", ")", "\n", "<f", ">f", ">>f", "2>&1", "<&-", ">|f", "<>f", "3<f", "<<E", "<<-E", "'", "\"",
    "$(", "${", "`", "$((", "$'", "#c", "f()", "a()", "()", "a$", "{ a; }", "( b )", "'f g'", "\"$v\"x", "a:",
];

/// One representative per class that `char` predicates distinguish beyond ASCII: numeric but not
/// a decimal digit (², ½, Ⅰ), non-ASCII decimal digits (fullwidth, Arabic-Indic), letters
/// (lower, upper, title case, no case), non-ASCII white space (NBSP, NEL, U+2028, U+3000),
/// zero-width and format characters, combining mark, C1 control, DEL is in ASCII, symbols,
/// 3- and 4-byte encodings, private use, replacement character, the last scalar value.
pub const UNICODE_REPS: &str = "²½Ⅰ１٣éΣßǅあ\u{a0}\u{85}\u{2028}\u{3000}\u{200b}\u{feff}\u{301}\u{80}€😀\u{e000}\u{fffd}\u{10ffff}";
const PAIR_SECOND: [char; 12] = ['a', '1', '$', '\\', '\'', '"', '}', ')', '\n', ' ', '²', '１'];
/// Lexer contexts; `X` is the hole.
const CONTEXTS: &[&str] = &[
    "X", "aX", "Xa", "a X b", "$X", "a$X", "\"$X\"", "\"X\"", "'X'", "\\X", "${X}", "${X", "${vX}", "${v:-X}", "${v#X}", "${#X}", "${vX", "$((X))", "$((1X2))", "$(X)", "`X`", "`\\X`",
    "X=1", "aX=1", "a=X", "a=(X)", "X()", "fX() { :; }", "f() X", "<X", ">X", "3X>f", "X<f", "X>&1", ">&X", "<<X\nb\nX\n", "<<-X\n\tb\nX\n", "<<E\nX\nE\n", "<<'E'\nX\nE\n", "$'X'", "$'\\X'", "$'\\xX'", "$'\\cX'", "$'\\uX'", "$'\\0X'", "#X", "a #X\nb", "~X", "~X/b", "a:~X", "[X]", "a[X]b", "[!X]", "[[:X:]]",
    "case a in X) ;; esac", "case X in a) ;; esac", "for X in a; do :; done", "for i in X; do :; done", "if X; then :; fi", "{ X; }", "(X)", "a | X", "a && X", "! X", "a;X", "a&X", "function X { :; }", "a\\\nX", "X\\\nb", "alias X=b", "a 2X>f",
];

fn corpus() -> Vec<(String, String)> {
    let dir = "/repo/yash-cli/tests/scripted_test";
    let mut scripts = vec![];
    let Ok(rd) = std::fs::read_dir(dir) else {
        return scripts;
    };
    let mut paths: Vec<_> = rd.filter_map(|e| e.ok()).map(|e| e.path()).collect();
    paths.sort();
    for p in paths {
        if p.extension().is_none_or(|x| x != "sh") {
            continue;
        }
        let Ok(text) = std::fs::read_to_string(&p) else {
            continue;
        };
        let mut cur: Option<String> = None;
        for line in text.lines() {
            if line.starts_with("test_") || line.starts_with("testcase ") {
                cur = Some(String::new());
                continue;
            }
            if line.starts_with("__IN__") || line.starts_with("__OUT__") || line.starts_with("__ERR__") {
                if let Some(s) = cur.take() {
                    scripts.push((p.file_name().unwrap().to_string_lossy().into_owned(), s));
                }
                continue;
            }
            if let Some(s) = cur.as_mut() {
                s.push_str(line);
                s.push('\n');
            }
        }
    }
    scripts
}

/// Splits into "tokens" (maximal runs of non-blank characters; newlines are tokens) keeping separators.
fn rough_tokens(s: &str) -> Vec<String> {
    let mut out = vec![];
    let mut cur = String::new();
    for c in s.chars() {
        if c == '\n' {
            if !cur.is_empty() {
                out.push(std::mem::take(&mut cur));
            }
            out.push("\n".into());
        } else if c == ' ' || c == '\t' {
            if !cur.is_empty() {
                out.push(std::mem::take(&mut cur));
            }
        } else {
            cur.push(c);
        }
    }
    if !cur.is_empty() {
        out.push(cur);
    }
    out
}

fn join(tokens: &[String]) -> String {
    let mut s = String::new();
    for t in tokens {
        if t == "\n" {
            s.push('\n');
        } else {
            if !s.is_empty() && !s.ends_with('\n') {
                s.push(' ');
            }
            s.push_str(t);
        }
    }
    s
}

pub fn replay(case: &serde_json::Value) -> i32 {
    if let (Some(kind), Some(depth)) = (case["tower"].as_str(), case["depth"].as_u64()) {
        println!("tower {kind} depth {depth}: {:?} (input starts {:?})", probe_subprocess(kind, depth as usize, 30), tower(kind, depth as usize).map(|s| s.chars().take(40).collect::<String>()));
        return 1;
    }
    if case["part"].as_str() == Some("job-name") {
        let script = case["script"].as_str().unwrap();
        let mut setup = crate::vsh::Setup::script(script);
        setup.auto_continue = false;
        let r = crate::vsh::run_once(&setup, &Default::default());
        println!("script:\n{script}\n--\nend={:?}\ntrace={:?}\nstderr={}", r.end, r.all_trace(), r.stderr);
        return 1;
    }
    let src = case["input"].as_str().unwrap();
    if let Some(al) = case["aliases"].as_array() {
        println!("input {src:?} parsed with the alias table {al:?}: run `./check C06` — the table is one of ALIAS_TABLES; a hang is reported by the 30 s watchdog");
        return 1;
    }
    let r = catch(|| parse_program(src));
    println!("input {src:?}\nparse: {:?}", r.as_ref().map(|r| r.as_ref().map(|l| l.iter().map(|x| x.to_string()).collect::<Vec<_>>())));
    1
}

pub fn run(tier: Tier) -> i32 {
    let ctx = Ctx::new("C06", "exploration", tier);
    let counters = Counters { inputs: AtomicU64::new(0), parsed_ok: AtomicU64::new(0), roundtrips: AtomicU64::new(0), heredoc_skipped: AtomicU64::new(0) };
    let samples = Samples::new(8);
    let read_ahead_judged = AtomicU64::new(0);
    // (a) token sequences
    let tmax = tier.pick(3, 4);
    let nt = TOKENS.len();
    (0..nt).into_par_iter().for_each(|first| {
        let mut idx = vec![first];
        loop {
            let toks: Vec<String> = idx.iter().map(|i| TOKENS[*i].to_string()).collect();
            let mut text = join(&toks);
            if text.contains("<<") {
                text.push_str("\nbody $v\nE\n");
            }
            check_input(&ctx, &text, &counters);
            if text.matches('\n').count() >= 1 {
                super::c06h::read_ahead(&ctx, &text, &read_ahead_judged);
            }
            if first == 7 {
                samples.offer(|| json!({"input": text}));
            }
            // next sequence in length-lexicographic order with fixed first token
            if idx.len() < tmax {
                idx.push(0);
            } else {
                loop {
                    if idx.len() == 1 {
                        return;
                    }
                    let last = idx.len() - 1;
                    if idx[last] + 1 < nt {
                        idx[last] += 1;
                        break;
                    }
                    idx.pop();
                }
            }
        }
    });
    let token_inputs = counters.inputs.load(Relaxed);
    // (b) the scripted-test corpus and its mutations
    let scripts = corpus();
    scripts.par_iter().for_each(|(_f, s)| {
        check_input(&ctx, s, &counters);
        super::c06h::read_ahead(&ctx, s, &read_ahead_judged);
        let toks = rough_tokens(s);
        if toks.len() > 400 {
            return;
        }
        for i in 0..toks.len() {
            // deletion
            let mut t = toks.clone();
            t.remove(i);
            check_input(&ctx, &join(&t), &counters);
            // swap with the next token
            if i + 1 < toks.len() {
                let mut t = toks.clone();
                t.swap(i, i + 1);
                check_input(&ctx, &join(&t), &counters);
            }
            // truncation
            if tier == Tier::Thorough || i % 3 == 0 {
                check_input(&ctx, &join(&toks[..i]), &counters);
            }
        }
        // truncation at every character for short scripts
        if s.len() < 200 {
            for (i, _) in s.char_indices() {
                check_input(&ctx, &s[..i], &counters);
            }
        }
    });
    // (g) here-documents: delimiter spellings x bodies x shapes against XCU 2.7.4 by hand
    let (heredoc_inputs, heredoc_terminated) = super::c06h::here_docs(&ctx, &samples);
    // (c) raw character soup
    let raw: Vec<char> = "a $'\"`\\{}()<>&|;!#=\n*€é~-".chars().collect();
    let mut cur = vec![String::new()];
    for _ in 0..tier.pick(3, 4) {
        let next: Vec<String> = cur.iter().flat_map(|s| raw.iter().map(move |c| format!("{s}{c}"))).collect();
        next.par_iter().for_each(|s| check_input(&ctx, s, &counters));
        cur = next;
    }
    // (d) every character class in every lexer context: contexts with one hole X (and with two
    // adjacent holes) × all 128 ASCII characters + one representative per Unicode class the
    // standard character predicates distinguish
    let mut classes: Vec<char> = (0u8..128).map(|b| b as char).collect();
    classes.extend(UNICODE_REPS.chars());
    let before_d = counters.inputs.load(Relaxed);
    CONTEXTS.par_iter().for_each(|cx| {
        for a in &classes {
            check_input(&ctx, &cx.replace('X', &a.to_string()), &counters);
        }
        let second: &[char] = if tier == Tier::Thorough { &classes } else { &PAIR_SECOND };
        for a in &classes {
            for b in second {
                check_input(&ctx, &cx.replace('X', &format!("{a}{b}")), &counters);
            }
        }
    });
    let class_inputs = counters.inputs.load(Relaxed) - before_d;
    // (e) totality while alias substitution is in effect
    let before_e = counters.inputs.load(Relaxed);
    let nt2 = ALIAS_TOKENS.len();
    let amax = tier.pick(3, 4);
    ALIAS_TABLES.par_iter().for_each(|table| {
        let mut idx = vec![0usize];
        loop {
            let toks: Vec<String> = idx.iter().map(|i| ALIAS_TOKENS[*i].to_string()).collect();
            check_total_with_aliases(&ctx, &join(&toks), table, &counters);
            if idx.len() < amax {
                idx.push(0);
            } else {
                loop {
                    let last = idx.len() - 1;
                    if idx[last] + 1 < nt2 {
                        idx[last] += 1;
                        break;
                    }
                    idx.pop();
                    if idx.is_empty() {
                        return;
                    }
                }
            }
        }
    });
    let alias_inputs = counters.inputs.load(Relaxed) - before_e;
    // (f) towers of nested constructs: every depth 1..=12 of every construct in-process (round
    // trip included); depth 30 and depth 100000 in a subprocess under a wall-clock limit — a parser
    // whose work is exponential in the depth does not finish the former, a recursion without a
    // depth limit overflows the stack on the latter
    let mut tower_probes = 0u64;
    for (kind, ..) in TOWERS {
        for depth in 1..=12 {
            check_input(&ctx, &tower(kind, depth).unwrap(), &counters);
        }
        for (depth, limit) in [(30usize, 5u64), (100_000, 20)] {
            tower_probes += 1;
            match probe_subprocess(kind, depth, limit) {
                Ok(()) => {}
                Err(e) if e.starts_with("MACHINERY") => {
                    println!("{e}");
                    std::process::exit(2);
                }
                Err(e) => {
                    let class = if e.contains("signal") { "stack-overflow" } else { "no-termination" };
                    ctx.violation(
                        &format!("c06:{class}:{kind}"),
                        &format!("{depth} nested `{kind}` constructs: the parser {e}"),
                        json!({"tower": kind, "depth": depth}),
                    );
                }
            }
        }
    }
    // (i) job names denote the commands that were entered
    let job_names = super::c06j::run(&ctx);
    let cov = json!({
        "job_names": job_names,
        "character_class_inputs": class_inputs,
        "inputs_parsed_with_alias_tables": alias_inputs,
        "tower_probes_in_subprocesses": tower_probes,
        "tower_kinds": TOWERS.len(),
        "alias_tables": ALIAS_TABLES.len(),
        "character_class_contexts": CONTEXTS.len(),
        "character_classes": classes.len(),
        "evaluations": counters.inputs.load(Relaxed) + counters.roundtrips.load(Relaxed),
        "distinct_nontrivial": counters.roundtrips.load(Relaxed),
        "rule": format!("(a) every sequence of <= {tmax} tokens over {} tokens (words with every expansion kind, assignments, all reserved words, all operators, redirections with and without fd, here-document operators with a body, unclosed quotes / $( / ${{ / ` / $(( / $', comment, function headers); (b) every script of the scripted-test corpus ({} scripts) plus every single-token deletion, adjacent swap and truncation (and every character truncation of short ones); (c) every string of length <= {} over 25 raw characters incl. multi-byte; (d) lexer contexts with one hole x all 128 ASCII characters and Unicode class representatives, and with two adjacent holes; (e) every sequence of <= 3/4 tokens over 26 tokens parsed with each of 9 alias tables (self-recursive, mutually recursive, blank-ending chains, global aliases incl. self-referencing and cyclic ones, aliases producing reserved words and operators): the parser must terminate without panic; (f) towers of 9 nested constructs at every depth 1..12 in-process and at depths 30 and 100000 in a subprocess with a wall-clock limit; (g) here-documents `c <<D` / `c <<-D` for 11 delimiter spellings (plain, quoted in every style, empty, containing a blank, non-ASCII, partly quoted) x every body of <= 3/4 lines over ~14 lines built around the delimiter (itself, doubled, with a blank before / after, with leading tabs, a prefix, empty, tab-only) x 3 shapes (terminated and followed by a command, ending at the delimiter without newline, unterminated): content, the commands that follow, the error for an unterminated body, and the number of lines pulled from a counting line-by-line input when the command is returned (no read-ahead) against XCU 2.7.4 by hand; (h) read-ahead minimality: for every multi-line token sequence and corpus script the parser is fed line by line, and a command returned after line k must not be obtainable, identical, from the input cut after line k-1 (except after a backslash-newline); (i) job names: every C02 program of <= 3/4 nodes started as an asynchronous list, and foreground pipelines / subshells stopped in a set -m shell: the name recorded for the job parses to the command entered. Every input must make the parser return Ok or Err without panic/hang; for every Ok tree without here-documents the printed text must parse to a structurally equal tree (Debug rendering with all Locations erased), in the default parsing mode and with the `portable` option on. Non-trivial = inputs that parsed and were round-tripped.", TOKENS.len(), scripts.len(), tier.pick(3, 4)),
        "samples": samples.take(),
        "token_sequence_inputs": token_inputs,
        "corpus_scripts": scripts.len(),
        "inputs": counters.inputs.load(Relaxed),
        "parsed_ok": counters.parsed_ok.load(Relaxed),
        "roundtrips_checked": counters.roundtrips.load(Relaxed),
        "skipped_here_documents": counters.heredoc_skipped.load(Relaxed),
        "here_document_inputs": heredoc_inputs,
        "here_documents_terminated": heredoc_terminated,
        "read_ahead_inputs_judged": read_ahead_judged.load(Relaxed),
        "exhaustive": true,
    });
    ctx.finish(cov, &["structural equality = Debug rendering with Location values erased", "here-document trees are out of scope of the round trip by the statement (totality still checked)"])
}
