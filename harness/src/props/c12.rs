//! C12: job table consistency — BFS over the real `JobList` to a depth bound.

use crate::common::*;
use serde_json::json;
use std::collections::{HashMap, HashSet, VecDeque};
use yash_env::job::{Job, JobList, Pid, ProcessResult, ProcessState};
use yash_env::semantics::ExitStatus;
use yash_env::signal;

#[derive(Clone, Debug, PartialEq, Eq, Hash)]
pub enum Op {
    Insert { pid: i32, susp: bool },
    Update { pid: i32, st: u8 },
    SetCur(usize),
    Remove(usize),
    RemoveFinished,
    Reported(usize),
    ExtractReportedFinished,
}

fn sig() -> signal::Number {
    signal::Number::from_raw_unchecked(std::num::NonZero::new(19).unwrap())
}

fn st(code: u8) -> ProcessState {
    match code {
        0 => ProcessState::Running,
        1 => ProcessState::stopped(sig()),
        2 => ProcessState::exited(ExitStatus(0)),
        _ => ProcessState::Halted(ProcessResult::Signaled {
            signal: sig(),
            core_dump: false,
        }),
    }
}

/// Applies an op. `serial` gives each inserted job a unique identity (its name).
/// Returns an error string if an op-specific postcondition fails.
fn apply(l: &mut JobList, op: &Op, serial: &mut u32) -> Option<String> {
    match op {
        Op::Insert { pid, susp } => {
            let mut j = Job::new(Pid(*pid));
            if *susp {
                j.state = st(1);
            }
            *serial += 1;
            // names share prefixes/substrings so that %name and %?name can be unique, ambiguous or absent
            let base = ["sleep 1", "sleep 2", "cat", "sl"][(*pid as usize) % 4];
            j.name = format!("{base} #{serial}");
            let name = j.name.clone();
            let i = l.insert(j);
            if l.get(i).map(|j| j.name.clone()) != Some(name) {
                return Some("insert returned an index that does not hold the new job".into());
            }
        }
        Op::Update { pid, st: s } => {
            let before = l.find_by_pid(Pid(*pid));
            let r = l.update_status(Pid(*pid), st(*s));
            if r != before {
                return Some("update_status returned an index other than the job's".into());
            }
            if let Some(i) = r {
                if l[i].state != st(*s) {
                    return Some("update_status did not store the state".into());
                }
            }
        }
        Op::SetCur(i) => {
            let exists = l.get(*i).is_some();
            let any_susp = l.iter().any(|(_, j)| j.state.is_stopped());
            let is_susp = l.get(*i).is_some_and(|j| j.state.is_stopped());
            let r = l.set_current_job(*i);
            let should_ok = exists && (is_susp || !any_susp);
            if r.is_ok() != should_ok {
                return Some(format!(
                    "set_current_job({i}) returned {r:?}, expected ok={should_ok}"
                ));
            }
            if r.is_ok() && l.current_job() != Some(*i) {
                return Some("set_current_job succeeded but current job differs".into());
            }
        }
        Op::Remove(i) => {
            let had = l.get(*i).cloned();
            let r = l.remove(*i);
            if r != had {
                return Some("remove returned a different job".into());
            }
        }
        Op::RemoveFinished => {
            l.remove_if(|_, j| !j.state.is_alive());
            if l.iter().any(|(_, j)| !j.state.is_alive()) {
                return Some("remove_if left a matching job".into());
            }
        }
        Op::Reported(i) => {
            if let Some(mut j) = l.get_mut(*i) {
                j.state_reported();
            }
        }
        Op::ExtractReportedFinished => {
            let n = l
                .iter()
                .filter(|(_, j)| !j.state.is_alive() && !j.state_changed)
                .count();
            let got = l
                .extract_if(|_, j| !j.state.is_alive() && !j.state_changed)
                .count();
            if n != got {
                return Some("extract_if yielded a wrong number of jobs".into());
            }
        }
    }
    None
}

const MAXJOBS: usize = 4;

/// Canonical form: visible content plus the indices the next inserts would get
/// (the slab's free list influences future index assignment and therefore the
/// selection made by `any_job_but_current`).
fn canon(l: &JobList) -> String {
    let v: Vec<String> = l
        .iter()
        .map(|(i, j)| format!("{}:{}:{:?}:{}", i, j.pid, j.state, j.state_changed))
        .collect();
    let mut probe = l.clone();
    let mut next = vec![];
    for k in 0..(MAXJOBS + 1 - l.len().min(MAXJOBS)) {
        next.push(probe.insert(Job::new(Pid(1000 + k as i32))));
    }
    format!(
        "{:?}|cur={:?}|prev={:?}|next={:?}",
        v,
        l.current_job(),
        l.previous_job(),
        next
    )
}

fn invariants(l: &JobList) -> Option<String> {
    let n = l.len();
    let cur = l.current_job();
    let prev = l.previous_job();
    if n != l.iter().count() {
        return Some("len() disagrees with iter()".into());
    }
    if n == 0 && (cur.is_some() || prev.is_some()) {
        return Some("empty table with current/previous job".into());
    }
    if n > 0 && !cur.is_some_and(|c| l.get(c).is_some()) {
        return Some("non-empty table without (existing) current job".into());
    }
    if n >= 2 && !(prev.is_some_and(|p| l.get(p).is_some()) && prev != cur) {
        return Some("two or more jobs without distinct previous job".into());
    }
    if n == 1 && prev.is_some() {
        return Some("single job but previous job designated".into());
    }
    let susp = l.iter().filter(|(_, j)| j.state.is_stopped()).count();
    if susp >= 1 && !cur.is_some_and(|c| l[c].state.is_stopped()) {
        return Some("suspended job exists but current job is not suspended".into());
    }
    if susp >= 2 && !prev.is_some_and(|p| l[p].state.is_stopped()) {
        return Some("two suspended jobs but previous job is not suspended".into());
    }
    let mut pids = HashSet::new();
    for (i, j) in l.iter() {
        if !pids.insert(j.pid) {
            return Some("one pid designates two jobs".into());
        }
        if l.find_by_pid(j.pid) != Some(i) {
            return Some("find_by_pid disagrees with iter".into());
        }
    }
    for pid in 10..14 {
        if let Some(i) = l.find_by_pid(Pid(pid)) {
            if l.get(i).map(|j| j.pid) != Some(Pid(pid)) {
                return Some("find_by_pid returns an index of another job".into());
            }
        }
    }
    job_ids(l)
}

/// Job-ID resolution (`yash_env::job::id`) against the documented meaning, in this state.
fn job_ids(l: &JobList) -> Option<String> {
    use yash_env::job::id::{parse, FindError};
    let res = |s: &str| parse(s).map(|id| id.find(l));
    let want_opt = |o: Option<usize>| Ok(o.ok_or(FindError::NotFound));
    for s in ["%", "%%", "%+"] {
        if res(s) != want_opt(l.current_job()) {
            return Some(format!("{s} does not designate the current job"));
        }
    }
    if res("%-") != want_opt(l.previous_job()) {
        return Some("%- does not designate the previous job".into());
    }
    for n in 1..=MAXJOBS + 2 {
        let want = want_opt(l.get(n - 1).map(|_| n - 1));
        if res(&format!("%{n}")) != want {
            return Some(format!("%{n} does not designate the job with number {n}"));
        }
    }
    if parse("1").is_ok() || parse("").is_ok() || parse("x%1").is_ok() {
        return Some("a string without leading % parsed as a job ID".into());
    }
    let by = |f: &dyn Fn(&str) -> bool| {
        let m: Vec<usize> = l.iter().filter(|(_, j)| f(&j.name)).map(|(i, _)| i).collect();
        match m.len() {
            0 => Err(FindError::NotFound),
            1 => Ok(m[0]),
            _ => Err(FindError::Ambiguous),
        }
    };
    for q in ["s", "sl", "sleep", "sleep 1", "sleep 2 #", "c", "cat #", "x", "leep", "0", "#"] {
        if res(&format!("%{q}")) != Ok(by(&|n| n.starts_with(q))) {
            return Some(format!("%{q} resolved wrongly (name prefix)"));
        }
    }
    for q in ["s", "leep", "p 1", "at", "l #", " #", "#1", "#2", "#3", "zz", "?"] {
        if res(&format!("%?{q}")) != Ok(by(&|n| n.contains(q))) {
            return Some(format!("%?{q} resolved wrongly (name substring)"));
        }
    }
    None
}

fn identities(l: &JobList) -> HashMap<String, usize> {
    l.iter().map(|(i, j)| (j.name.clone(), i)).collect()
}

fn enabled(base: &JobList) -> Vec<Op> {
    let mut ops = vec![Op::RemoveFinished, Op::ExtractReportedFinished];
    for pid in 10..14 {
        let existing = base.find_by_pid(Pid(pid));
        let may_insert = match existing {
            None => base.len() < MAXJOBS,
            // the property's alphabet: re-insert only the pid of a *finished* job
            Some(i) => !base[i].state.is_alive(),
        };
        if may_insert {
            ops.push(Op::Insert { pid, susp: false });
            ops.push(Op::Insert { pid, susp: true });
        }
        if existing.is_some() {
            for s in 0..4 {
                ops.push(Op::Update { pid, st: s });
            }
        }
    }
    for i in 0..MAXJOBS + 1 {
        ops.push(Op::SetCur(i));
        ops.push(Op::Remove(i));
        if base.get(i).is_some_and(|j| j.state_changed) {
            ops.push(Op::Reported(i));
        }
    }
    ops
}

pub fn replay(case: &serde_json::Value) -> i32 {
    if case["part"] == "b" {
        return super::c12b::replay(case);
    }
    if case["part"] == "f" && super::c12c::replay_f(case) {
        return 1;
    }
    if case["part"] == "c" && super::c12c::replay(case) {
        return 1;
    }
    let hist: Vec<Op> = case["history"]
        .as_array()
        .unwrap()
        .iter()
        .map(|v| parse_op(v.as_str().unwrap()))
        .collect();
    let mut l = JobList::new();
    let mut serial = 0;
    for op in &hist {
        let before = identities(&l);
        let e = apply(&mut l, op, &mut serial);
        let after = identities(&l);
        println!("{op:?} => {}", canon(&l));
        let moved = before
            .iter()
            .any(|(k, i)| after.get(k).is_some_and(|j| j != i));
        if let Some(m) = e.or(invariants(&l)).or(moved.then(|| "job index changed".into())) {
            println!("violated: {m}");
            return 1;
        }
    }
    0
}

fn parse_op(s: &str) -> Op {
    let nums: Vec<i64> = s
        .split(|c: char| !c.is_ascii_digit())
        .filter(|t| !t.is_empty())
        .map(|t| t.parse().unwrap())
        .collect();
    if s.starts_with("Insert") {
        Op::Insert {
            pid: nums[0] as i32,
            susp: s.contains("true"),
        }
    } else if s.starts_with("Update") {
        Op::Update {
            pid: nums[0] as i32,
            st: nums[1] as u8,
        }
    } else if s.starts_with("SetCur") {
        Op::SetCur(nums[0] as usize)
    } else if s.starts_with("RemoveFinished") {
        Op::RemoveFinished
    } else if s.starts_with("Remove") {
        Op::Remove(nums[0] as usize)
    } else if s.starts_with("Reported") {
        Op::Reported(nums[0] as usize)
    } else {
        Op::ExtractReportedFinished
    }
}

pub fn run(tier: Tier) -> i32 {
    let ctx = Ctx::new("C12", "model_checking", tier);
    let maxdepth = tier.pick(6, 9);
    let mut seen: HashSet<String> = HashSet::new();
    let mut q: VecDeque<(JobList, Vec<Op>, u32)> = VecDeque::new();
    q.push_back((JobList::new(), vec![], 0));
    seen.insert(canon(&JobList::new()));
    let mut transitions = 0u64;
    let mut depth_reached = 0;
    let mut frontier_cut = 0u64;
    let samples = Samples::new(6);
    let mut by_depth = vec![0u64; maxdepth + 1];
    by_depth[0] = 1;
    while let Some((base, hist, serial)) = q.pop_front() {
        if hist.len() >= maxdepth {
            frontier_cut += 1;
            continue;
        }
        let before = identities(&base);
        for op in enabled(&base) {
            let mut l = base.clone();
            let mut ser = serial;
            let res = catch(|| apply(&mut l, &op, &mut ser));
            transitions += 1;
            let mut h2 = hist.clone();
            h2.push(op.clone());
            let case = || json!({"history": h2.iter().map(|o| format!("{o:?}")).collect::<Vec<_>>()});
            let err = match res {
                Err(p) => Some(format!("panic: {p}")),
                Ok(Some(e)) => Some(e),
                Ok(None) => invariants(&l).or_else(|| {
                    let after = identities(&l);
                    before
                        .iter()
                        .find(|(k, i)| after.get(*k).is_some_and(|j| j != *i))
                        .map(|(k, _)| format!("index of job {k} changed while it exists"))
                }),
            };
            if let Some(msg) = err {
                ctx.violation(&format!("joblist:{msg}"), &msg, case());
                continue;
            }
            let c = canon(&l);
            if seen.insert(c) {
                depth_reached = depth_reached.max(h2.len());
                by_depth[h2.len()] += 1;
                samples.offer(|| case());
                q.push_back((l, h2, ser));
            }
        }
    }
    let b = super::c12b::run(&ctx, tier);
    let (c_hists, c_cmp) = super::c12c::run(&ctx);
    let d_hists = super::c12c::run_d(&ctx);
    let e_scripts = super::c12c::run_e(&ctx);
    let f_runs = super::c12c::run_f(&ctx);
    let cov = json!({
        "part_d_suspension_histories": d_hists,
        "part_e_failed_bg_scripts": e_scripts,
        "part_f_jobs_report_format_runs": f_runs,
        "part_c_interactive_histories": c_hists,
        "part_c_announcements_compared": c_cmp,
        "states": seen.len() as u64 + b.states,
        "transitions": transitions + b.transitions,
        "traces_validated_against_impl": transitions + b.transitions + c_hists + d_hists + e_scripts + f_runs,
        "part_a_joblist_states": seen.len(),
        "part_a_joblist_transitions": transitions,
        "part_b_shell_job_control": b.json,
        "samples": samples.take(),
        "depth_bound": maxdepth,
        "depth_reached": depth_reached,
        "states_by_depth": by_depth,
        "frontier_states_not_expanded": frontier_cut,
        "closure_reached": frontier_cut == 0,
        "exhaustive": true,
        "explanation": "BFS over the real yash_env::job::JobList; every transition is executed on the real object (no separate model), invariants, op postconditions and job-ID resolution (%, %%, %+, %-, %n, %name, %?name via yash_env::job::id) evaluated after every transition; states deduplicated by visible content + next free slab indices",
    });
    ctx.finish(
        cov,
        &[
            "part (a) alphabet: <=4 jobs, pids 10..13, re-insert only for pids of finished jobs (as in the property statement)",
            "part (b): <=3 jobs, 6 job bodies, two deterministic scheduling policies (schedule nondeterminism is C13's subject); reference model of the documented job-control behaviour and the `jl` probe are trusted",
        ],
    )
}
