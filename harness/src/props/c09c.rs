//! C09 part (c): descriptors the shell holds for a script it is reading (`.`, `source`, also
//! through `command` and `eval`) when the script is interrupted. An interactive shell has a job
//! that never ends; a line runs a script (or text) that blocks in `wait`; SIGINT is raised on the
//! shell at every system call from the line on. Whenever the shell goes on with the next line, its
//! descriptor table is what it was before the line: nothing at 10 or above is left open.

use crate::common::*;
use crate::vsh::{self, *};
use rayon::prelude::*;
use serde_json::json;
use std::sync::atomic::{AtomicU64, Ordering::Relaxed};

const RUNNERS: [&str; 13] = [
    // the script waits for short-lived foreground children (the shell is not interrupted while it
    // waits for them; it notices the signal afterwards)
    ". /tmp/c",
    "source /tmp/c",
    "command . /tmp/c",
    "command source /tmp/c",
    "eval 'source /tmp/c'",
    ". /tmp/w",
    "source /tmp/w",
    "command . /tmp/w",
    "command source /tmp/w",
    "eval '. /tmp/w'",
    "eval 'wait $!' 7</tmp/w",
    "f() { . /tmp/w; }; f 8</tmp/w",
    "{ source /tmp/w; } 9</tmp/w",
];

fn setup_for(runner: &str) -> (Setup, String) {
    let script = format!("hang &\nfds before\np go; {runner}; p sameline\nfds after\nkill -s KILL %1\np end\n");
    let mut setup = Setup::script("");
    setup.argv = vec!["yash".into(), "-i".into(), "-s".into()];
    setup.stdin = Some(script.clone().into_bytes());
    setup.files.push(("/tmp/w".into(), b"wait $!\n".to_vec(), 0o644));
    setup.files.push(("/tmp/c".into(), b"(s 0; s 0)\n(s 0; s 0)\n: | : | :\nx=$(s 0; s 0)\n".to_vec(), 0o644));
    (setup, script)
}

fn table(tr: &[String], tag: &str) -> Option<String> {
    let pfx = format!("fds {tag} ");
    tr.iter().find(|t| t.starts_with(&pfx)).map(|t| strip_offsets(&t[pfx.len()..]))
}

pub fn replay(case: &serde_json::Value) -> bool {
    let Some(runner) = case["runner"].as_str() else { return false };
    let k = case["sigint_at_syscall"].as_u64().unwrap_or(0) as usize;
    let (setup, script) = setup_for(runner);
    let r = vsh::run_once(&setup, &RunOpts { inject: Some(Inject { at: vec![(k, 2)], pid: 2 }), ..Default::default() });
    println!("interactive script:\n{script}\nSIGINT at system call {k}\nend={:?}", r.end);
    for t in r.all_trace() {
        println!("  {t}");
    }
    true
}

/// Returns (executions, executions in which the line was interrupted and the shell went on).
pub fn run(ctx: &Ctx) -> (u64, u64) {
    let execs = AtomicU64::new(0);
    let judged = AtomicU64::new(0);
    RUNNERS.par_iter().for_each(|runner| {
        let (setup, script) = setup_for(runner);
        let opts = |at: Vec<(usize, i32)>| RunOpts { inject: Some(Inject { at, pid: 2 }), ..Default::default() };
        // the undisturbed run blocks for ever in `wait` (the job never ends): only its prefix is used
        let base = vsh::run_once(&setup, &opts(vec![]));
        execs.fetch_add(1, Relaxed);
        let Some(k0) = base.trace.iter().find(|e| e.pid == 2 && e.text.starts_with("go:")).map(|e| e.at_tap) else {
            ctx.violation("c09:interrupted-script-setup", &format!("the marker of the line was not reached: {:?} {:?}", base.end, base.all_trace()), json!({"part": "c", "runner": runner}));
            return;
        };
        let n = base.target_taps;
        for k in k0..n + 2 {
            let r = vsh::run_once(&setup, &opts(vec![(k, 2)]));
            execs.fetch_add(1, Relaxed);
            let case = json!({"part": "c", "runner": runner, "sigint_at_syscall": k, "script": script});
            if let Some(p) = &r.panic {
                ctx.violation("c09:panic", &format!("panic: {p}"), case);
                continue;
            }
            let tr = r.all_trace();
            let (Some(b), Some(a)) = (table(&tr, "before"), table(&tr, "after")) else {
                // the signal came too late (the shell is blocked for ever) or the shell ended: not judged
                continue;
            };
            judged.fetch_add(1, Relaxed);
            if a != b {
                // which descriptor is left: the script itself (10 or above) or plumbing of a command of the
                // script (a pipe end below 10); and was the runner wrapped in `command`, whose future the
                // shell cancels on SIGINT?
                let high = a.split_whitespace().any(|t| !b.split_whitespace().any(|u| u == t) && t.split('=').next().and_then(|f| f.parse::<i32>().ok()).is_some_and(|f| f >= 10));
                let class = match (high, runner.starts_with("command ")) {
                    (true, _) => "script-descriptor",
                    (false, true) => "plumbing-of-a-cancelled-command-built-in",
                    (false, false) => "plumbing",
                };
                ctx.violation(
                    &format!("c09:descriptor-left-by-interrupted-script:{class}"),
                    &format!("`{runner}` interrupted by SIGINT at system call {k}: descriptor table afterwards {a:?}, before {b:?}"),
                    case,
                );
            }
        }
    });
    (execs.load(Relaxed), judged.load(Relaxed))
}

// Part (d): redirections on `exec` persist — also when `exec` has operands and the utility cannot
// be invoked, which only an interactive shell survives (docs/src/builtins/exec.md: "This is done
// even if there are operands, but the effect can be observed only when the utility cannot be
// invoked and the shell does not exit"). Differential, no model: for every redirection list of up
// to two redirections, the descriptor table after `exec LIST /no/such/utility` (and `exec LIST
// nosuchcommand`, `command exec LIST /no/such/utility`) in an interactive shell equals the table
// after the operand-less `exec LIST`, and a later command can use the descriptors.

const D_REDIRS: [&str; 12] = ["3>/tmp/o", "3>>/tmp/o", "4</tmp/in", "5<>/tmp/rw", "3>&1", "6<&0", "1>/tmp/out", "3>/tmp/o 4>&3", "3</tmp/in 3<&-", "7>|/tmp/o", "2>/tmp/err", "4<<E\nbody\nE"];

fn table_after(line: &str) -> (Option<String>, Option<String>, vsh::Run) {
    let script = format!("fds before\n{line}\nfds after\np end\n");
    let mut setup = Setup::script("");
    setup.argv = vec!["yash".into(), "-i".into(), "-s".into()];
    setup.stdin = Some(script.into_bytes());
    setup.files.push(("/tmp/in".into(), b"data\n".to_vec(), 0o644));
    let r = vsh::run_once(&setup, &Default::default());
    let tr = r.all_trace();
    // offsets are left out: the script texts and the diagnostics differ in length
    let strip = |s: &str| -> String {
        let mut out = String::new();
        let mut skipping = false;
        for ch in s.chars() {
            if ch == '@' {
                skipping = true;
            } else if skipping && !ch.is_ascii_digit() {
                skipping = false;
            }
            if !skipping {
                out.push(ch);
            }
        }
        out
    };
    let get = |tag: &str| tr.iter().find_map(|t| t.strip_prefix(&format!("fds {tag} ")).map(strip));
    (get("before"), get("after"), r)
}

/// Returns the number of executions.
pub fn run_d(ctx: &Ctx) -> u64 {
    let mut lists: Vec<String> = D_REDIRS.iter().map(|s| s.to_string()).collect();
    for a in &D_REDIRS[..11] {
        for b in &D_REDIRS[..11] {
            if a != b {
                lists.push(format!("{a} {b}"));
            }
        }
    }
    let n = AtomicU64::new(0);
    lists.par_iter().for_each(|list| {
        // a here-document body follows the whole line
        let (head, body) = match list.split_once('\n') {
            Some((h, b)) => (h.to_string(), format!("\n{b}")),
            None => (list.clone(), String::new()),
        };
        let _g = case_guard(format!("failed exec with {list}"));
        let (_, reference, r0) = table_after(&format!("exec {head}{body}"));
        n.fetch_add(1, Relaxed);
        let Some(reference) = reference else {
            ctx.violation("c09d:end", &format!("`exec {list}` ended the interactive shell: {:?} stderr={:?}", r0.end, r0.stderr), json!({"part": "d", "line": format!("exec {list}")}));
            return;
        };
        for form in ["exec LIST /no/such/utility", "exec LIST nosuchcommand", "command exec LIST /no/such/utility"] {
            let line = format!("{}{body}", form.replace("LIST", &head));
            let (before, after, r) = table_after(&line);
            n.fetch_add(1, Relaxed);
            let case = json!({"part": "d", "line": line});
            let Some(after) = after else {
                ctx.violation("c09d:end", &format!("`{line}` ended the interactive shell: {:?} stderr={:?}", r.end, r.stderr), case);
                continue;
            };
            if after != reference {
                let undone = Some(&after) == before.as_ref();
                ctx.violation(
                    if undone { "c09d:failed-exec-undid-its-redirections" } else { "c09d:failed-exec-table" },
                    &format!("interactive shell, `{line}`: descriptor table afterwards {after}, after the operand-less `exec {list}` {reference}"),
                    case,
                );
            }
        }
    });
    n.load(Relaxed)
}

pub fn replay_d(case: &serde_json::Value) -> bool {
    let Some(line) = case["line"].as_str() else { return false };
    let (b, a, r) = table_after(line);
    println!("interactive shell, line:\n{line}\nbefore: {b:?}\nafter:  {a:?}\nend={:?}\nstderr={}", r.end, r.stderr);
    true
}
