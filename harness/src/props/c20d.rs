//! C20 part (d): the `getopts` built-in. Every option specification of a small family x every
//! argument vector up to a length bound, parsed to the end by the usual loop in the whole shell,
//! in three argument sources (operands of getopts, positional parameters of the shell,
//! positional parameters of a function); then `OPTIND=1` and a second vector. Compared in
//! lock-step with a transcription of POSIX `getopts` (XCU 4, getopts) + docs/src/builtins/getopts.md:
//! option letter, OPTARG (set / unset), exit status, diagnostic on standard error, OPTIND at every
//! argument boundary and at the end.

use crate::common::*;
use crate::vsh::{self, *};
use rayon::prelude::*;
use serde_json::json;
use std::sync::atomic::{AtomicU64, Ordering::Relaxed};

const SPECS: [&str; 10] = ["a", "ab:", ":ab:", "b:a", ":a", "éa", ":b:é", "", ":", "ab:é:"];
const ARGS: [&str; 17] = ["-a", "-b", "-ab", "-ba", "-bx", "-c", "-ac", "--", "-", "x", "", "-é", "-aé", "-béa", "-:", "-a:", "-éx"];
const ARGS2: [&str; 5] = ["-a", "-bx", "-b", "x", "-éa"];

#[derive(Debug, Clone, PartialEq, Eq)]
struct Step {
    status: i32,
    var: String,
    optarg: Option<String>,
    /// Some(index) where the manual defines OPTIND (at an argument boundary / at the end)
    optind: Option<usize>,
    message: bool,
}

/// POSIX getopts, one call after the other until the end-of-options call (inclusive).
fn refgetopts(spec: &str, args: &[&str]) -> Vec<Step> {
    let colon = spec.starts_with(':');
    let sc: Vec<char> = spec.chars().collect();
    let takes = |c: char| -> Option<bool> {
        if c == ':' {
            return None;
        }
        let start = if colon { 1 } else { 0 };
        sc[start..].iter().position(|x| *x == c).map(|p| sc.get(start + p + 1) == Some(&':'))
    };
    let mut out = vec![];
    let (mut ai, mut ci) = (0usize, 0usize); // 0-based argument index; ci = 0 means "at the start of an argument"
    loop {
        if ci == 0 {
            let end = |ai: usize| Step { status: 1, var: "?".into(), optarg: None, optind: Some(ai + 1), message: false };
            if ai >= args.len() {
                out.push(end(ai));
                return out;
            }
            let a = args[ai];
            if a == "--" {
                out.push(end(ai + 1));
                return out;
            }
            if !a.starts_with('-') || a == "-" {
                out.push(end(ai));
                return out;
            }
            ci = 1;
        }
        let chars: Vec<char> = args[ai].chars().collect();
        let c = chars[ci];
        let rest: String = chars[ci + 1..].iter().collect();
        // advance past this option character
        if rest.is_empty() {
            ai += 1;
            ci = 0;
        } else {
            ci += 1;
        }
        let boundary = |ai: usize, ci: usize| if ci == 0 { Some(ai + 1) } else { None };
        match takes(c) {
            None => {
                out.push(Step { status: 0, var: "?".into(), optarg: if colon { Some(c.to_string()) } else { None }, optind: boundary(ai, ci), message: !colon });
            }
            Some(false) => out.push(Step { status: 0, var: c.to_string(), optarg: None, optind: boundary(ai, ci), message: false }),
            Some(true) => {
                if !rest.is_empty() {
                    ai += 1;
                    ci = 0;
                    out.push(Step { status: 0, var: c.to_string(), optarg: Some(rest), optind: Some(ai + 1), message: false });
                } else if ai < args.len() {
                    let v = args[ai].to_string();
                    ai += 1;
                    out.push(Step { status: 0, var: c.to_string(), optarg: Some(v), optind: Some(ai + 1), message: false });
                } else {
                    out.push(Step {
                        status: 0,
                        var: if colon { ":".into() } else { "?".into() },
                        optarg: if colon { Some(c.to_string()) } else { None },
                        optind: Some(ai + 1),
                        message: !colon,
                    });
                }
            }
        }
    }
}

fn q(s: &str) -> String {
    format!("'{s}'")
}

#[derive(Clone, Copy, Debug, PartialEq, Eq)]
enum Source {
    Direct,
    Positional,
    Function,
}

fn loop_text(spec: &str, direct: Option<&[&str]>, tag: &str) -> String {
    let ops = match direct {
        Some(a) => a.iter().map(|s| format!(" {}", q(s))).collect::<String>(),
        None => String::new(),
    };
    format!("while :; do getopts {} o{ops}; st=$?; args {tag} $st \"$o\" \"${{OPTARG-U}}\" \"${{OPTARG+S}}\" \"$OPTIND\"; case $st in 0) ;; *) break;; esac; done", q(spec))
}

fn script(spec: &str, v1: &[&str], v2: Option<&[&str]>, src: Source) -> String {
    let list = |a: &[&str]| a.iter().map(|s| format!(" {}", q(s))).collect::<String>();
    let mut s = String::from("OPTARG=pre\n");
    match src {
        Source::Direct => {
            s += &format!("set -- -c zz\n{}\n", loop_text(spec, Some(v1), "r1"));
            if let Some(v2) = v2 {
                s += &format!("OPTIND=1\n{}\n", loop_text(spec, Some(v2), "r2"));
            }
        }
        Source::Positional => {
            s += &format!("set --{}\n{}\n", list(v1), loop_text(spec, None, "r1"));
            if let Some(v2) = v2 {
                s += &format!("set --{}\nOPTIND=1\n{}\n", list(v2), loop_text(spec, None, "r2"));
            }
        }
        Source::Function => {
            // the tag is the function's first argument: pass it and shift it away
            s = format!("OPTARG=pre\nset -- -c zz\nf() {{ t=$1; shift; {}; }}\nf r1{}\n", loop_text(spec, None, "$t"), list(v1));
            if let Some(v2) = v2 {
                s += &format!("OPTIND=1\nf r2{}\n", list(v2));
            }
        }
    }
    s
}

fn parse_steps(trace: &[String], tag: &str) -> Vec<(i32, String, Option<String>, String)> {
    let pfx = format!("args[{tag}]");
    trace
        .iter()
        .filter(|t| t.starts_with(&pfx))
        .map(|t| {
            // args[tag][st][o][optarg-or-U][S-or-empty][OPTIND]
            let body = &t[pfx.len()..];
            let mut fields = vec![];
            let mut cur = String::new();
            let mut depth = 0;
            for ch in body.chars() {
                match ch {
                    '[' if depth == 0 => {
                        depth = 1;
                        cur.clear();
                    }
                    ']' if depth == 1 => {
                        depth = 0;
                        fields.push(cur.clone());
                    }
                    c => cur.push(c),
                }
            }
            let st = fields.first().and_then(|s| s.parse().ok()).unwrap_or(-1);
            let var = fields.get(1).cloned().unwrap_or_default();
            let set = fields.get(3).map(|s| s == "S").unwrap_or(false);
            let optarg = if set { fields.get(2).cloned() } else { None };
            (st, var, optarg, fields.get(4).cloned().unwrap_or_default())
        })
        .collect()
}

fn compare(ctx: &Ctx, spec: &str, args: &[&str], src: Source, phase: &str, got: &[(i32, String, Option<String>, String)], stderr_nonempty: Option<bool>, text: &str) -> bool {
    let exp = refgetopts(spec, args);
    let case = json!({"spec": spec, "args": args, "source": format!("{src:?}"), "phase": phase, "script": text});
    if got.len() != exp.len() {
        ctx.violation("c20:getopts:steps", &format!("getopts {spec:?} on {args:?} ({src:?}, {phase}): {} calls until the end, expected {}: {got:?} vs {exp:?}", got.len(), exp.len()), case);
        return false;
    }
    for (k, (g, e)) in got.iter().zip(exp.iter()).enumerate() {
        let class = if g.0 != e.status {
            "status"
        } else if g.1 != e.var {
            "option"
        } else if g.2 != e.optarg {
            "optarg"
        } else if e.optind.is_some_and(|i| g.3 != i.to_string()) {
            "optind"
        } else {
            continue;
        };
        ctx.violation(
            &format!("c20:getopts:{class}"),
            &format!("getopts {spec:?} on {args:?} ({src:?}, {phase}) call {}: got (status {}, {:?}, OPTARG {:?}, OPTIND {}), expected {e:?}", k + 1, g.0, g.1, g.2, g.3),
            case,
        );
        return false;
    }
    if let Some(ne) = stderr_nonempty {
        let want = exp.iter().any(|s| s.message);
        if ne != want {
            ctx.violation("c20:getopts:diagnostic", &format!("getopts {spec:?} on {args:?} ({src:?}): diagnostic printed = {ne}, expected {want}"), case);
            return false;
        }
    }
    true
}

pub fn replay(case: &serde_json::Value) -> bool {
    let Some(text) = case["script"].as_str() else {
        return false;
    };
    let r = vsh::run_once(&Setup::script(text), &Default::default());
    println!("script:\n{text}\nend={:?}\nstderr={:?}", r.end, r.stderr);
    for t in r.all_trace() {
        println!("  {t}");
    }
    if let (Some(spec), Some(args)) = (case["spec"].as_str(), case["args"].as_array()) {
        let a: Vec<&str> = args.iter().filter_map(|x| x.as_str()).collect();
        println!("expected: {:?}", refgetopts(spec, &a));
    }
    true
}

/// Returns (shell runs, getopts calls compared, runs with at least one error step).
pub fn sweep(ctx: &Ctx, samples: &Samples) -> (u64, u64, u64) {
    let maxlen = ctx.tier.pick(3, 4);
    let runs = AtomicU64::new(0);
    let calls = AtomicU64::new(0);
    let errs = AtomicU64::new(0);
    // all vectors up to maxlen
    let mut vectors: Vec<Vec<usize>> = vec![vec![]];
    let mut frontier: Vec<Vec<usize>> = vec![vec![]];
    for _ in 0..maxlen {
        let mut next = vec![];
        for v in &frontier {
            for i in 0..ARGS.len() {
                let mut w = v.clone();
                w.push(i);
                next.push(w);
            }
        }
        vectors.extend(next.iter().cloned());
        frontier = next;
    }
    vectors.par_iter().for_each(|v| {
        let args: Vec<&str> = v.iter().map(|i| ARGS[*i]).collect();
        for (si, spec) in SPECS.iter().enumerate() {
            // every source for vectors up to 3; longer ones rotate the source
            let sources: Vec<Source> = if v.len() <= 2 {
                vec![Source::Direct, Source::Positional, Source::Function]
            } else {
                vec![[Source::Direct, Source::Positional, Source::Function][(v.iter().sum::<usize>() + si) % 3]]
            };
            for src in sources {
                if src == Source::Direct && v.is_empty() {
                    continue; // getopts without argument operands parses the positional parameters
                }
                // second phase (after OPTIND=1) for short first vectors
                let seconds: Vec<Option<Vec<&str>>> = if v.len() <= 2 {
                    let mut s: Vec<Option<Vec<&str>>> = vec![None];
                    for a in ARGS2 {
                        s.push(Some(vec![a]));
                        s.push(Some(vec![a, "-a"]));
                    }
                    s
                } else {
                    vec![None]
                };
                for v2 in seconds {
                    let text = script(spec, &args, v2.as_deref(), src);
                    let _g = case_guard(text.clone());
                    let r = vsh::run_once(&Setup::script(&text), &Default::default());
                    runs.fetch_add(1, Relaxed);
                    if r.panic.is_some() || !matches!(r.end, End::Exited(_)) {
                        ctx.violation("c20:getopts:abnormal-end", &format!("script did not end normally: {:?} {:?}", r.end, r.panic), json!({"script": text, "spec": spec, "args": args}));
                        continue;
                    }
                    let tr = r.all_trace();
                    let g1 = parse_steps(&tr, "r1");
                    calls.fetch_add(g1.len() as u64, Relaxed);
                    let only = v2.is_none();
                    let ok = compare(ctx, spec, &args, src, "first vector", &g1, if only { Some(!r.stderr.is_empty()) } else { None }, &text);
                    if refgetopts(spec, &args).iter().any(|s| s.var == "?" && s.status == 0 || s.var == ":") {
                        errs.fetch_add(1, Relaxed);
                    }
                    if let (true, Some(v2)) = (ok, &v2) {
                        let g2 = parse_steps(&tr, "r2");
                        calls.fetch_add(g2.len() as u64, Relaxed);
                        compare(ctx, spec, v2, src, "second vector after OPTIND=1", &g2, None, &text);
                    }
                    if v.len() == 3 && si == 2 && v[0] == 4 {
                        samples.offer(|| json!({"getopts_script": text}));
                    }
                }
            }
        }
    });
    // errors of the built-in itself: rejected with a diagnostic, status 2... and no effect on the shell
    for bad in ["getopts", "getopts a", "getopts a 'x=y' -a", "OPTIND=2; getopts a o -a", "getopts -x a o -a"] {
        let text = format!("o=keep\n{bad}\nargs e $? \"$o\" \"${{OPTARG-U}}\"\n");
        let r = vsh::run_once(&Setup::script(&text), &Default::default());
        runs.fetch_add(1, Relaxed);
        let tr = r.all_trace();
        let line = tr.iter().find(|t| t.starts_with("args[e]")).cloned().unwrap_or_default();
        let rejected = !r.stderr.is_empty() && !line.starts_with("args[e][0]") && !line.is_empty();
        let untouched = line.contains("[keep][U]");
        if !rejected || !untouched {
            ctx.violation("c20:getopts:malformed", &format!("`{bad}`: {line:?}, diagnostic printed: {}", !r.stderr.is_empty()), json!({"script": text}));
        }
    }
    (runs.load(Relaxed), calls.load(Relaxed), errs.load(Relaxed))
}
