//! C06 parts (g) and (h): here-documents and read-ahead.
//!
//! (g) every here-document `c <<D` / `c <<-D` over a family of delimiter spellings (plain,
//! quoted in every style, empty, with a blank, non-ASCII, partly quoted) x every body of up to N
//! lines over a line alphabet built around the delimiter (the delimiter itself, with a leading /
//! trailing blank, with leading tabs, doubled, a prefix of it, empty line, tab-only line …), in
//! three shapes (terminated and followed by another command; ending exactly at the delimiter
//! without a newline; not terminated). Oracle: XCU 2.7.4 by hand — the body is every line up to the
//! first one that equals the delimiter (after removing leading tabs for `<<-`), the next command
//! line starts right after it, an unterminated body is a syntax error; and the parser has pulled
//! exactly the lines up to the delimiter line when it returns the command (no read-ahead).
//!
//! (h) read-ahead minimality on arbitrary multi-line inputs: the parser is fed line by line by a
//! counting input; whenever `command_line` returns a tree after pulling k lines, the same call on
//! the input cut after line k-1 must not return an equal tree (else line k was read although the
//! command was complete) — except after a backslash-newline, which has to look at the next line.

use crate::common::*;
use futures_util::FutureExt;
use rayon::prelude::*;
use serde_json::json;
use std::cell::Cell;
use std::rc::Rc;
use std::sync::atomic::{AtomicU64, Ordering::Relaxed};
use yash_env::input::{Context, Input, Result as InputResult};
use yash_syntax::parser::Parser;
use yash_syntax::parser::lex::Lexer;
use yash_syntax::syntax::{Command, List, RedirBody};

/// Feeds the given lines one per call and counts the non-empty lines handed out.
struct Counting {
    lines: Vec<String>,
    next: usize,
    pulled: Rc<Cell<usize>>,
}

impl Input for Counting {
    async fn next_line(&mut self, _context: &Context) -> InputResult {
        let l = self.lines.get(self.next).cloned().unwrap_or_default();
        if self.next < self.lines.len() {
            self.next += 1;
            self.pulled.set(self.pulled.get() + 1);
        }
        Ok(l)
    }
}

fn split_lines(src: &str) -> Vec<String> {
    src.split_inclusive('\n').map(|s| s.to_string()).collect()
}

/// One entry per `command_line` call: (lines pulled so far when it returned, result).
type Step = (usize, Result<Option<List>, String>);

fn parse_counting(lines: &[String]) -> Result<Vec<Step>, String> {
    let pulled = Rc::new(Cell::new(0));
    let input = Counting { lines: lines.to_vec(), next: 0, pulled: pulled.clone() };
    let mut lexer = Lexer::new(Box::new(input));
    let mut parser = Parser::new(&mut lexer);
    let mut out = vec![];
    for _ in 0..10_000 {
        match parser.command_line().now_or_never() {
            None => return Err("BLOCKED".into()),
            Some(Ok(Some(l))) => out.push((pulled.get(), Ok(Some(l)))),
            Some(Ok(None)) => {
                out.push((pulled.get(), Ok(None)));
                return Ok(out);
            }
            Some(Err(e)) => {
                out.push((pulled.get(), Err(e.to_string())));
                return Ok(out);
            }
        }
    }
    Err("HANG".into())
}

fn here_doc_content(list: &List) -> Option<String> {
    let item = list.0.first()?;
    let cmd = item.and_or.first.commands.first()?;
    let Command::Simple(sc) = &**cmd else { return None };
    for r in sc.redirs.iter() {
        if let RedirBody::HereDoc(h) = &r.body {
            return h.content.get().map(|t| t.to_string());
        }
    }
    None
}

const DELIMS: [(&str, &str); 11] =
    [("E", "E"), ("'E'", "E"), ("\"E\"", "E"), ("\\E", "E"), ("''", ""), ("\"\"", ""), ("'a b'", "a b"), ("é", "é"), ("E'F'", "EF"), ("-", "-"), ("E\\ F", "E F")];

fn body_lines(d: &str) -> Vec<String> {
    let mut v: Vec<String> = vec![
        String::new(),
        "x".into(),
        "\tx".into(),
        d.to_string(),
        format!("{d}{d}"),
        format!(" {d}"),
        format!("{d} "),
        format!("\t{d}"),
        "\t".into(),
        format!("\t\t{d}"),
        format!("x\t{d}"),
        format!("{d}x"),
        "é".into(),
    ];
    if d.chars().count() > 1 {
        let mut p = d.to_string();
        p.pop();
        v.push(p);
    }
    v.sort();
    v.dedup();
    v
}

/// Words of a line as a simple command would have them (blank-separated), or None for a blank line.
fn words(line: &str) -> Option<String> {
    let w: Vec<&str> = line.split([' ', '\t']).filter(|s| !s.is_empty()).collect();
    if w.is_empty() { None } else { Some(w.join(" ")) }
}

pub fn here_docs(ctx: &Ctx, samples: &Samples) -> (u64, u64) {
    let maxlines = ctx.tier.pick(3, 4);
    let n = AtomicU64::new(0);
    let terminated = AtomicU64::new(0);
    let cases: Vec<(bool, usize)> = [false, true].into_iter().flat_map(|t| (0..DELIMS.len()).map(move |d| (t, d))).collect();
    cases.par_iter().for_each(|(tabs, di)| {
        let (spelling, dval) = DELIMS[*di];
        let alphabet = body_lines(dval);
        let mut idx: Vec<usize> = vec![];
        loop {
            let body: Vec<&str> = idx.iter().map(|i| alphabet[*i].as_str()).collect();
            for shape in 0..3 {
                // 0: body, delimiter line, `n` line; 1: body, delimiter without newline; 2: body only
                let mut lines: Vec<String> = vec![format!("c <<{}{}{spelling}\n", if *tabs { "-" } else { "" }, if spelling.starts_with('-') { " " } else { "" })];
                for b in &body {
                    lines.push(format!("{b}\n"));
                }
                match shape {
                    0 => {
                        lines.push(format!("{dval}\n"));
                        lines.push("n\n".into());
                    }
                    1 => lines.push(dval.to_string()),
                    _ => {}
                }
                // (shape 1: XCU 2.7.4 wants "the delimiter and a <newline>"; whether a delimiter that ends the
                // input without one still closes the body is unspecified -> totality only)
                let totality_only = shape == 1;
                if shape == 1 && dval.is_empty() {
                    continue; // an empty last line without newline is no line at all
                }
                let src: String = lines.concat();
                // reference
                let strip = |l: &str| -> String {
                    let l = l.strip_suffix('\n').unwrap_or(l);
                    if *tabs { l.trim_start_matches('\t').to_string() } else { l.to_string() }
                };
                let term = (1..lines.len()).find(|k| strip(&lines[*k]) == dval);
                n.fetch_add(1, Relaxed);
                let case = json!({"input": src, "family": "here-document"});
                let _g = case_guard(case.to_string());
                let got = match catch(|| parse_counting(&lines)) {
                    Err(p) => {
                        ctx.violation("c06:panic", &format!("parser panicked on {src:?}: {p}"), case);
                        continue;
                    }
                    Ok(Err(e)) => {
                        ctx.violation("c06:hang", &format!("{e} on {src:?}"), case);
                        continue;
                    }
                    Ok(Ok(s)) => s,
                };
                if totality_only {
                    continue;
                }
                match term {
                    None => {
                        if !matches!(got.first(), Some((_, Err(_)))) {
                            ctx.violation("c06:here-doc-unterminated-accepted", &format!("{src:?}: no line equals the delimiter {dval:?}, yet the parser returned {:?}", got.first().map(|s| s.1.as_ref().map(|l| l.as_ref().map(|x| x.to_string())))), case);
                        }
                    }
                    Some(k) => {
                        terminated.fetch_add(1, Relaxed);
                        let want: String = lines[1..k].iter().map(|l| format!("{}\n", strip(l))).collect();
                        let Some((pulled, Ok(Some(first)))) = got.first() else {
                            ctx.violation("c06:here-doc-rejected", &format!("{src:?}: line {k} ends the here-document, but the parser returned {:?}", got.first().map(|s| s.1.as_ref().map(|_| "?"))), case);
                            continue;
                        };
                        let content = here_doc_content(first);
                        if content.as_deref() != Some(want.as_str()) {
                            ctx.violation("c06:here-doc-content", &format!("{src:?}: content {content:?}, expected {want:?}"), case);
                            continue;
                        }
                        if *pulled != k + 1 {
                            ctx.violation("c06:read-ahead", &format!("{src:?}: the command was returned after {pulled} lines had been read; it ends on line {}", k + 1), case);
                            continue;
                        }
                        // what follows: one command line per remaining line
                        let rest: Vec<Option<String>> = lines[k + 1..].iter().map(|l| words(l.strip_suffix('\n').unwrap_or(l))).collect();
                        let got_rest: Vec<Option<String>> = got[1..]
                            .iter()
                            .filter_map(|(_, r)| match r {
                                Ok(Some(l)) => Some(if l.0.is_empty() { None } else { Some(l.to_string()) }),
                                Ok(None) => None,
                                Err(e) => Some(Some(format!("ERROR {e}"))),
                            })
                            .collect();
                        if rest != got_rest {
                            ctx.violation("c06:here-doc-following-commands", &format!("{src:?}: commands after the here-document {got_rest:?}, expected {rest:?}"), case);
                        }
                    }
                }
                if *di == 4 && idx.len() == 2 && shape == 0 {
                    samples.offer(|| json!({"here_document_input": src}));
                }
            }
            if idx.len() < maxlines {
                idx.push(0);
            } else {
                loop {
                    let Some(last) = idx.last_mut() else { return };
                    if *last + 1 < alphabet.len() {
                        *last += 1;
                        break;
                    }
                    idx.pop();
                    if idx.is_empty() {
                        return;
                    }
                }
            }
        }
    });
    (n.load(Relaxed), terminated.load(Relaxed))
}

/// (h) Returns true if the input was judged (>= 2 lines).
pub fn read_ahead(ctx: &Ctx, src: &str, judged: &AtomicU64) {
    let lines = split_lines(src);
    if lines.len() < 2 {
        return;
    }
    let Ok(Ok(full)) = catch(|| parse_counting(&lines)) else { return };
    judged.fetch_add(1, Relaxed);
    let mut before = 0usize;
    for (i, (pulled, res)) in full.iter().enumerate() {
        let k = *pulled;
        if let (Ok(Some(tree)), true) = (res, k > before && k >= 2) {
            // the line before the last one pulled ends in a backslash-newline: the parser has to look further
            let prev = &lines[k - 2];
            let continued = prev.ends_with("\\\n");
            if !continued {
                if let Ok(Ok(cut)) = catch(|| parse_counting(&lines[..k - 1])) {
                    if let Some((_, Ok(Some(t2)))) = cut.get(i) {
                        let same = crate::props::c06::erase_locations(&format!("{tree:?}")) == crate::props::c06::erase_locations(&format!("{t2:?}"));
                        if same {
                            ctx.violation(
                                "c06:read-ahead",
                                &format!("{src:?}: command {} ({:?}) was returned after line {k} had been read, but it is complete (and identical) without that line", i + 1, tree.to_string()),
                                json!({"input": src, "family": "read-ahead"}),
                            );
                            return;
                        }
                    }
                }
            }
        }
        before = k;
    }
}
