//! C03: arithmetic expansion is exact 64-bit C arithmetic or an error, never
//! wrong. Expression trees on boundary operands against an exact i128 model,
//! `$((x))` vs `$(($x))` over integer-constant spellings, and totality over all
//! short strings.

use crate::common::*;
use crate::vsh::{self, End, Setup};
use rayon::prelude::*;
use serde_json::json;
use std::collections::{BTreeMap, HashMap};
use std::sync::atomic::{AtomicU64, Ordering::Relaxed};
use yash_arith::{Value, eval};

#[derive(Clone, Debug, PartialEq, Eq, Hash)]
enum E {
    Num(u64),
    Var(&'static str),
    Pre(&'static str, Box<E>),
    /// prefix/postfix increment/decrement of a variable: (op, is_prefix, var)
    IncDec(&'static str, bool, &'static str),
    Bin(&'static str, Box<E>, Box<E>),
    Assign(&'static str, &'static str, Box<E>),
    Cond(Box<E>, Box<E>, Box<E>),
}

fn level(e: &E) -> u8 {
    match e {
        E::Num(_) | E::Var(_) => 15,
        E::IncDec(_, false, _) => 14,
        E::IncDec(_, true, _) | E::Pre(..) => 13,
        E::Bin(op, ..) => match *op {
            "*" | "/" | "%" => 12,
            "+" | "-" => 11,
            "<<" | ">>" => 10,
            "<" | "<=" | ">" | ">=" => 9,
            "==" | "!=" => 8,
            "&" => 7,
            "^" => 6,
            "|" => 5,
            "&&" => 4,
            "||" => 3,
            _ => unreachable!("{op}"),
        },
        E::Cond(..) => 2,
        E::Assign(..) => 1,
    }
}

fn full(e: &E) -> String {
    match e {
        E::Num(n) => n.to_string(),
        E::Var(v) => v.to_string(),
        E::Pre(op, a) => format!("({op}{})", sep(op, &full(a))),
        E::IncDec(op, true, v) => format!("({op}{v})"),
        E::IncDec(op, false, v) => format!("({v}{op})"),
        E::Bin(op, a, b) => format!("({} {op} {})", full(a), full(b)),
        E::Assign(op, v, a) => format!("({v} {op} {})", full(a)),
        E::Cond(c, a, b) => format!("({} ? {} : {})", full(c), full(a), full(b)),
    }
}

/// avoid gluing `- -x` into `--x`
fn sep(op: &str, operand: &str) -> String {
    if operand.starts_with(op.chars().next().unwrap()) {
        format!(" {operand}")
    } else {
        operand.to_string()
    }
}

fn wrap(e: &E, min: u8) -> String {
    if level(e) < min { format!("({})", minimal(e)) } else { minimal(e) }
}

/// Printing with the minimal parentheses C precedence/associativity requires.
fn minimal(e: &E) -> String {
    match e {
        E::Num(_) | E::Var(_) => full(e),
        E::Pre(op, a) => format!("{op}{}", sep(op, &wrap(a, 13))),
        E::IncDec(op, true, v) => format!("{op}{v}"),
        E::IncDec(op, false, v) => format!("{v}{op}"),
        E::Bin(op, a, b) => {
            let l = level(e);
            format!("{} {op} {}", wrap(a, l), wrap(b, l + 1))
        }
        E::Assign(op, v, a) => format!("{v} {op} {}", wrap(a, 1)),
        E::Cond(c, a, b) => format!("{} ? {} : {}", wrap(c, 3), wrap(a, 2), wrap(b, 2)),
    }
}

#[derive(Debug, Clone, PartialEq, Eq)]
enum Bad {
    Error,
    Unspecified,
}

type Vars = BTreeMap<&'static str, i64>;

fn fit(x: i128) -> Result<i64, Bad> {
    i64::try_from(x).map_err(|_| Bad::Error)
}

fn binop(op: &str, x: i64, y: i64) -> Result<i64, Bad> {
    let (a, b) = (x as i128, y as i128);
    let r: i128 = match op {
        "+" => a + b,
        "-" => a - b,
        "*" => a * b,
        "/" => {
            if y == 0 {
                return Err(Bad::Error);
            }
            a / b
        }
        "%" => {
            if y == 0 || (x == i64::MIN && y == -1) {
                return Err(Bad::Error);
            }
            a % b
        }
        "<<" => {
            if !(0..64).contains(&y) || x < 0 {
                return Err(Bad::Error);
            }
            a << y
        }
        ">>" => {
            if !(0..64).contains(&y) {
                return Err(Bad::Error);
            }
            if x < 0 {
                // right shift of a negative value is implementation-defined in C
                return Err(Bad::Unspecified);
            }
            a >> y
        }
        "<" => (a < b) as i128,
        "<=" => (a <= b) as i128,
        ">" => (a > b) as i128,
        ">=" => (a >= b) as i128,
        "==" => (a == b) as i128,
        "!=" => (a != b) as i128,
        "&" => a & b,
        "^" => a ^ b,
        "|" => a | b,
        _ => unreachable!("{op}"),
    };
    fit(r)
}

fn vars_of(e: &E, out: &mut Vec<&'static str>, assigned: &mut Vec<&'static str>) {
    match e {
        E::Num(_) => {}
        E::Var(v) => out.push(v),
        E::Pre(_, a) => vars_of(a, out, assigned),
        E::IncDec(_, _, v) => {
            out.push(v);
            assigned.push(v);
        }
        E::Bin(_, a, b) => {
            vars_of(a, out, assigned);
            vars_of(b, out, assigned);
        }
        E::Assign(_, v, a) => {
            out.push(v);
            assigned.push(v);
            vars_of(a, out, assigned);
        }
        E::Cond(c, a, b) => {
            vars_of(c, out, assigned);
            vars_of(a, out, assigned);
            vars_of(b, out, assigned);
        }
    }
}

fn has_oversized_literal(e: &E) -> bool {
    match e {
        E::Num(n) => *n > i64::MAX as u64,
        E::Var(_) | E::IncDec(..) => false,
        E::Pre(_, a) | E::Assign(_, _, a) => has_oversized_literal(a),
        E::Bin(_, a, b) => has_oversized_literal(a) || has_oversized_literal(b),
        E::Cond(c, a, b) => has_oversized_literal(c) || has_oversized_literal(a) || has_oversized_literal(b),
    }
}

fn conflict(a: &E, b: &E) -> bool {
    let (mut va, mut aa, mut vb, mut ab) = (vec![], vec![], vec![], vec![]);
    vars_of(a, &mut va, &mut aa);
    vars_of(b, &mut vb, &mut ab);
    aa.iter().any(|v| vb.contains(v)) || ab.iter().any(|v| va.contains(v))
}

/// Exact evaluation with C semantics; side effects applied to `vars`.
fn ev(e: &E, vars: &mut Vars) -> Result<i64, Bad> {
    match e {
        E::Num(n) => i64::try_from(*n).map_err(|_| Bad::Error),
        E::Var(v) => Ok(*vars.get(v).unwrap_or(&0)),
        E::Pre(op, a) => {
            let x = ev(a, vars)?;
            match *op {
                "-" => fit(-(x as i128)),
                "+" => Ok(x),
                "!" => Ok((x == 0) as i64),
                "~" => Ok(!x),
                _ => unreachable!(),
            }
        }
        E::IncDec(op, prefix, v) => {
            let old = *vars.get(v).unwrap_or(&0);
            let new = fit(old as i128 + if *op == "++" { 1 } else { -1 })?;
            vars.insert(v, new);
            Ok(if *prefix { new } else { old })
        }
        E::Bin(op, a, b) => match *op {
            "&&" => {
                if ev(a, vars)? == 0 {
                    Ok(0)
                } else {
                    Ok((ev(b, vars)? != 0) as i64)
                }
            }
            "||" => {
                if ev(a, vars)? != 0 {
                    Ok(1)
                } else {
                    Ok((ev(b, vars)? != 0) as i64)
                }
            }
            _ => {
                if conflict(a, b) {
                    return Err(Bad::Unspecified);
                }
                let x = ev(a, vars)?;
                let y = ev(b, vars)?;
                binop(op, x, y)
            }
        },
        E::Assign(op, v, a) => {
            let (mut va, mut aa) = (vec![], vec![]);
            vars_of(a, &mut va, &mut aa);
            if aa.contains(v) {
                return Err(Bad::Unspecified);
            }
            let rhs = ev(a, vars)?;
            let new = if *op == "=" {
                rhs
            } else {
                let old = *vars.get(v).unwrap_or(&0);
                binop(&op[..op.len() - 1], old, rhs)?
            };
            vars.insert(v, new);
            Ok(new)
        }
        E::Cond(c, a, b) => {
            if ev(c, vars)? != 0 {
                ev(a, vars)
            } else {
                ev(b, vars)
            }
        }
    }
}

const BINS: [&str; 18] = ["+", "-", "*", "/", "%", "<<", ">>", "<", "<=", ">", ">=", "==", "!=", "&", "^", "|", "&&", "||"];
const ASSIGNS: [&str; 11] = ["=", "+=", "-=", "*=", "/=", "%=", "<<=", ">>=", "&=", "^=", "|="];
const PRES: [&str; 4] = ["-", "+", "!", "~"];

fn bx(e: E) -> Box<E> {
    Box::new(e)
}

fn leaves() -> Vec<E> {
    let mut v: Vec<E> = [0u64, 1, 2, 3, 5, 61, 62, 63, 64, 65, 1 << 31, (1 << 32) + 1, 1 << 62, i64::MAX as u64, 1 << 63]
        .iter()
        .map(|n| E::Num(*n))
        .collect();
    v.push(E::Pre("-", bx(E::Num(1))));
    v.push(E::Pre("-", bx(E::Num(i64::MAX as u64))));
    v.push(E::Var("a"));
    v.push(E::Var("b"));
    v.push(E::Var("u"));
    v
}

fn depth1(leaves: &[E]) -> Vec<E> {
    let mut out = vec![];
    for op in BINS {
        for a in leaves {
            for b in leaves {
                out.push(E::Bin(op, bx(a.clone()), bx(b.clone())));
            }
        }
    }
    for op in PRES {
        for a in leaves {
            out.push(E::Pre(op, bx(a.clone())));
        }
    }
    for op in ASSIGNS {
        for v in ["a", "b", "u"] {
            for a in leaves {
                out.push(E::Assign(op, v, bx(a.clone())));
            }
        }
    }
    for op in ["++", "--"] {
        for prefix in [true, false] {
            for v in ["a", "b", "u"] {
                out.push(E::IncDec(op, prefix, v));
            }
        }
    }
    for c in leaves.iter().step_by(3) {
        for a in leaves.iter().step_by(4) {
            for b in leaves.iter().step_by(5) {
                out.push(E::Cond(bx(c.clone()), bx(a.clone()), bx(b.clone())));
            }
        }
    }
    out
}

fn initial_envs() -> Vec<Vars> {
    let mut out = vec![];
    for (a, b) in [(7i64, -3i64), (i64::MAX, i64::MIN), (0, 1), (5, 62), (-1, 63)] {
        let mut m = Vars::new();
        m.insert("a", a);
        m.insert("b", b);
        out.push(m);
    }
    out
}

fn check_expr(ctx: &Ctx, e: &E, env0: &Vars, counters: &Counters) {
    let mut mv = env0.clone();
    let mut exp = ev(e, &mut mv);
    // a literal that does not fit in 64 bits is a syntax error wherever it stands
    if has_oversized_literal(e) && exp != Err(Bad::Unspecified) {
        exp = Err(Bad::Error);
    }
    if exp == Err(Bad::Unspecified) {
        counters.unspec.fetch_add(1, Relaxed);
        return;
    }
    for (style, text) in [("minimal", minimal(e)), ("full", full(e))] {
        counters.evals.fetch_add(1, Relaxed);
        let mut env: HashMap<String, String> = env0.iter().map(|(k, v)| (k.to_string(), v.to_string())).collect();
        let got = catch(|| eval(&text, &mut env));
        let describe = || json!({"expression": text, "style": style, "vars": format!("{env0:?}"), "ast": format!("{e:?}")});
        match (&got, &exp) {
            (Err(p), _) => {
                ctx.violation("c03:panic", &format!("panic: {p}"), describe());
            }
            (Ok(Ok(Value::Integer(g))), Ok(x)) => {
                if g != x {
                    let key = if text.contains("<<") { "c03:wrong-value-shl" } else { "c03:wrong-value" };
                    ctx.violation(key, &format!("{text} = {g}, exact value {x}"), describe());
                } else {
                    // side effects
                    for (k, v) in &mv {
                        let gv = env.get(*k).and_then(|s| s.parse::<i64>().ok());
                        if gv != Some(*v) {
                            ctx.violation("c03:side-effect", &format!("{text}: variable {k} = {gv:?}, expected {v}"), describe());
                        }
                    }
                }
            }
            (Ok(Err(_)), Err(Bad::Error)) => {
                counters.errors.fetch_add(1, Relaxed);
            }
            (Ok(Ok(v)), Err(Bad::Error)) => {
                let key = if text.contains("<<") { "c03:value-instead-of-error-shl" } else { "c03:value-instead-of-error" };
                ctx.violation(key, &format!("{text} = {v:?} but the exact result is unrepresentable or undefined"), describe());
            }
            (Ok(Err(err)), Ok(x)) => {
                ctx.violation("c03:error-instead-of-value", &format!("{text}: error {:?}, exact value {x}", err.cause), describe());
            }
            _ => {}
        }
    }
}

struct Counters {
    evals: AtomicU64,
    unspec: AtomicU64,
    errors: AtomicU64,
}

fn spellings() -> Vec<(String, i64)> {
    let mut v = vec![];
    for n in [0i64, 1, 7, 8, 10, 63, 64, 255, 4096, i64::MAX] {
        v.push((format!("{n}"), n));
        v.push((format!("0{n:o}"), n));
        v.push((format!("0x{n:x}"), n));
        v.push((format!("0X{n:X}"), n));
        if n != 0 {
            v.push((format!("-{n}"), -n));
            v.push((format!("+{n}"), n));
            v.push((format!("-0x{n:x}"), -n));
            v.push((format!("-0{n:o}"), -n));
        }
    }
    v
}

/// (kind, opener, innermost, closer) of deeply nested arithmetic expressions
const ARITH_TOWERS: &[(&str, &str, &str, &str)] = &[
    ("parentheses", "(", "1", ")"),
    ("prefix-operators", "!", "1", ""),
    ("unary-minus", "- ", "1", ""),
    ("right-nested-addition", "1+(", "1", ")"),
    ("conditional", "1?", "1", ":0"),
    ("assignment-chain", "a=", "1", ""),
];

pub fn arith_probe(kind: &str, depth: usize) -> i32 {
    let Some((_, open, mid, close)) = ARITH_TOWERS.iter().find(|t| t.0 == kind) else { return 3 };
    let src = format!("{}{mid}{}", open.repeat(depth), close.repeat(depth));
    let mut env: HashMap<String, String> = HashMap::new();
    match eval(&src, &mut env) {
        Ok(_) => println!("ok"),
        Err(_) => println!("err"),
    }
    0
}

pub fn replay(case: &serde_json::Value) -> i32 {
    if let Some(text) = case["expression"].as_str() {
        let mut env: HashMap<String, String> = HashMap::new();
        env.insert("a".into(), "7".into());
        env.insert("b".into(), "-3".into());
        println!("{text} => {:?} (vars in the case: {})", catch(|| eval(text, &mut env)), case["vars"]);
    } else if let Some(s) = case["script"].as_str() {
        let r = vsh::run_once(&Setup::script(s), &Default::default());
        println!("{s}\n=> {:?} {:?} {}", r.end, r.all_trace(), r.stderr);
    }
    1
}

pub fn run(tier: Tier) -> i32 {
    let ctx = Ctx::new("C03", "exploration", tier);
    let counters = Counters { evals: AtomicU64::new(0), unspec: AtomicU64::new(0), errors: AtomicU64::new(0) };
    let samples = Samples::new(8);
    let lv = leaves();
    let d1 = depth1(&lv);
    let envs = initial_envs();
    // depth <= 1 on every environment
    d1.par_iter().for_each(|e| {
        for env in &envs {
            check_expr(&ctx, e, env, &counters);
        }
        samples.offer(|| json!({"expression": minimal(e), "fully_parenthesised": full(e)}));
    });
    // depth 2: op(d1, leaf), op(leaf, d1), op(d1', d1'') on slices
    let step = tier.pick(5, 1);
    let sub: Vec<&E> = d1.iter().step_by(step).collect();
    let few: Vec<&E> = lv.iter().step_by(tier.pick(3, 2)).collect();
    sub.par_iter().for_each(|a| {
        let env = &envs[0];
        for op in BINS {
            for b in &few {
                check_expr(&ctx, &E::Bin(op, bx((*a).clone()), bx((*b).clone())), env, &counters);
                check_expr(&ctx, &E::Bin(op, bx((*b).clone()), bx((*a).clone())), env, &counters);
            }
        }
        for op in PRES {
            check_expr(&ctx, &E::Pre(op, bx((*a).clone())), env, &counters);
        }
        for op in ASSIGNS {
            check_expr(&ctx, &E::Assign(op, "b", bx((*a).clone())), &envs[3], &counters);
        }
        for b in &few {
            check_expr(&ctx, &E::Cond(bx((*a).clone()), bx((*b).clone()), bx(E::Bin("/", bx(E::Num(1)), bx(E::Num(0))))), env, &counters);
            check_expr(&ctx, &E::Cond(bx((*b).clone()), bx((*a).clone()), bx(E::Assign("=", "a", bx(E::Num(9))))), env, &counters);
        }
    });
    // precedence/associativity: all pairs of binary operators on small operands (depth 2, both shapes)
    for o1 in BINS {
        for o2 in BINS {
            for (x, y, z) in [(7u64, 3u64, 2u64), (1, 0, 5), (2, 62, 1)] {
                let l = E::Bin(o2, bx(E::Bin(o1, bx(E::Num(x)), bx(E::Num(y)))), bx(E::Num(z)));
                let r = E::Bin(o1, bx(E::Num(x)), bx(E::Bin(o2, bx(E::Num(y)), bx(E::Num(z)))));
                check_expr(&ctx, &l, &envs[0], &counters);
                check_expr(&ctx, &r, &envs[0], &counters);
            }
        }
    }
    if tier == Tier::Thorough {
        // depth 3 on a pruned set
        let mut d2: Vec<E> = vec![];
        for a in d1.iter().step_by(37) {
            for op in BINS.iter().step_by(2) {
                for b in d1.iter().step_by(41) {
                    d2.push(E::Bin(op, bx(a.clone()), bx(b.clone())));
                }
            }
        }
        d2.par_iter().for_each(|a| {
            for op in BINS.iter().step_by(3) {
                for b in lv.iter().step_by(4) {
                    check_expr(&ctx, &E::Bin(op, bx(a.clone()), bx(b.clone())), &envs[0], &counters);
                }
            }
        });
    }

    // $((x)) vs $(($x)) for every integer-constant spelling
    let mut spell_n = 0u64;
    for (text, value) in spellings() {
        spell_n += 1;
        let mut env: HashMap<String, String> = HashMap::new();
        env.insert("x".into(), text.clone());
        let by_name = catch(|| eval("x", &mut env));
        let literal = catch(|| eval(&text, &mut env));
        let ok = |r: &Result<Result<Value, _>, String>| matches!(r, Ok(Ok(Value::Integer(g))) if *g == value);
        if !ok(&literal) {
            ctx.violation("c03:constant", &format!("$(({text})) = {literal:?}, expected {value}"), json!({"expression": text}));
        }
        if !ok(&by_name) {
            ctx.violation(
                "c03:variable-constant",
                &format!("x={text}: $((x)) = {:?} but $(($x)) = {value}", by_name.as_ref().map(|r| r.as_ref().map_err(|e| format!("{:?}", e.cause)))),
                json!({"expression": "x", "vars": format!("x={text}")}),
            );
        }
    }
    // the same through the whole shell for a slice
    for (text, value) in spellings().into_iter().step_by(3) {
        let script = format!("x={text}; args $((x)) $(($x))");
        let r = vsh::run_once(&Setup::script(&script), &Default::default());
        spell_n += 1;
        let want = format!("args[{value}][{value}]");
        if r.all_trace() != vec![want.clone()] {
            ctx.violation("c03:variable-constant", &format!("{script}: {:?}, expected {want}; stderr={:?}", r.all_trace(), r.stderr), json!({"script": script}));
        }
    }

    // variables the shell maintains itself or that carry attributes: `$((v))` and `$(($v))` agree
    for (name, script) in [
        ("LINENO", "args $((LINENO)) $(($LINENO))".to_string()),
        ("LINENO", "\n\nargs $((LINENO+1)) $(($LINENO+1))".to_string()),
        ("LINENO", "f() {\nargs $((LINENO)) $(($LINENO))\n}\nf".to_string()),
        ("OPTIND", "args $((OPTIND)) $(($OPTIND))".to_string()),
        ("OPTIND", "getopts ab o -a -b; args $((OPTIND)) $(($OPTIND))".to_string()),
        ("PPID", "args $((PPID)) $(($PPID))".to_string()),
        ("readonly", "readonly x=010; args $((x)) $(($x))".to_string()),
        ("exported", "export x=0x1F; args $((x)) $(($x))".to_string()),
        ("local", "x=1; f() { typeset x=12; args $((x)) $(($x)); }; f".to_string()),
        ("temporary", "x=1; f() { args $((x)) $(($x)); }; x=7 f".to_string()),
        ("positional-count", "set -- a b c; args $((${#}+0)) $(($#+0))".to_string()),
    ] {
        let r = vsh::run_once(&Setup::script(&script), &Default::default());
        spell_n += 1;
        let tr = r.all_trace();
        let same = tr.len() == 1 && {
            let f: Vec<&str> = tr[0].trim_start_matches("args[").trim_end_matches(']').split("][").collect();
            f.len() == 2 && f[0] == f[1] && f[0].parse::<i64>().is_ok()
        };
        if !same {
            ctx.violation(&format!("c03:variable-vs-expansion:{name}"), &format!("{script:?}: {tr:?} — $((v)) and $(($v)) differ; stderr={:?}", r.stderr), json!({"script": script}));
        }
    }

    // assignment operators update the variable the shell would assign to, wherever the expansion
    // is evaluated: every assignment form x every context (top level, function on a global,
    // function on its own local, function on the caller's local, subshell, loop, read-only)
    let mut ctx_n = 0u64;
    {
        let forms: [(&str, i64); 8] = [("x=7", 7), ("x+=2", 7), ("x-=2", 3), ("x*=3", 15), ("x<<=1", 10), ("x++", 6), ("--x", 4), ("x|=2", 7)];
        for (form, newval) in forms {
            let e = format!(": $(({form}))");
            let cases: Vec<(String, String)> = vec![
                (format!("x=5; {e}; args $x"), format!("args[{newval}]")),
                (format!("x=5; f() {{ {e}; }}; f; args $x"), format!("args[{newval}]")),
                (format!("x=5; f() {{ {e}; {e}; }}; f; f; args $x"), String::new()),
                (format!("x=5; f() {{ typeset x=5; {e}; args $x; }}; f; args $x"), format!("args[{newval}]|args[5]")),
                (format!("g() {{ typeset x=5; f; args $x; }}; f() {{ {e}; }}; x=1; g; args $x"), format!("args[{newval}]|args[1]")),
                (format!("x=5; ({e}; args $x); args $x"), format!("args[{newval}]|args[5]")),
                (format!("x=5; for i in 1; do {e}; done; args $x"), format!("args[{newval}]")),
                (format!("x=5; f() {{ y=$(({form})); }}; f; args $x $y"), String::new()),
                (format!("x=5; readonly x; f() {{ {e}; p after; }}; f; p after2"), "READONLY".into()),
                (format!("x=5; readonly x; {e}; p after"), "READONLY".into()),
            ];
            for (script, want) in cases {
                let r = vsh::run_once(&Setup::script(&script), &Default::default());
                ctx_n += 1;
                let got = r.all_trace().join("|");
                let bad = if want == "READONLY" {
                    // a read-only variable is never modified: expansion error, nothing after it runs
                    (!got.is_empty() || matches!(r.end, End::Exited(0)) || r.stderr.is_empty()).then(|| format!("assignment to a read-only variable: markers {got:?}, end {:?}", r.end))
                } else if want.is_empty() {
                    // (value depends on applying the form several times: only "no panic, no error")
                    (r.panic.is_some() || !r.stderr.is_empty()).then(|| format!("stderr {:?} panic {:?}", r.stderr, r.panic))
                } else {
                    (got != want).then(|| format!("got {got}, expected {want}; stderr={:?}", r.stderr))
                };
                if let Some(b) = bad {
                    ctx.violation("c03:assignment-context", &format!("{script}: {b}"), json!({"script": script}));
                }
            }
        }
    }

    // totality: all strings up to length 4 over a token alphabet
    let alphabet: Vec<char> = "019xa_+-*/%<>=!&|^~?:() €é".chars().collect();
    let maxlen = 4usize;
    let mut total = 0u64;
    let mut cur = vec![String::new()];
    for len in 1..=maxlen {
        let next: Vec<String> = cur.iter().flat_map(|s| alphabet.iter().map(move |c| format!("{s}{c}"))).collect();
        total += next.len() as u64;
        next.par_iter().for_each(|s| {
            let mut env: HashMap<String, String> = HashMap::new();
            env.insert("a".into(), "7".into());
            if let Err(p) = catch(|| {
                let _ = eval(s, &mut env);
            }) {
                ctx.violation("c03:panic", &format!("panic on {s:?}: {p}"), json!({"expression": s}));
            }
        });
        // through the whole shell (error reporting slices the source text by byte ranges)
        if len <= tier.pick(2, 3) {
            next.par_iter().for_each(|s| {
                if s.contains(')') && !s.contains('(') {
                    return; // `))` would close the expansion early: a different token sequence
                }
                let script = format!("args $(({s}))");
                let r = vsh::run_once(&Setup::script(&script), &Default::default());
                if let Some(p) = r.panic {
                    ctx.violation("c03:panic", &format!("shell panic on {script:?}: {p}"), json!({"script": script}));
                }
            });
        }
        cur = next;
    }
    // totality under character classes: expression templates with one or two holes x every ASCII
    // character and a representative of each Unicode class the tokenizer's `char` predicates can
    // tell apart (white space of several byte lengths, non-ASCII digits and letters, combining,
    // zero-width, 3- and 4-byte characters). API level and through the whole shell. No panic; a
    // hole filled with an ASCII blank must not change the value.
    const TEMPLATES: [&str; 16] = ["X", "1X", "X1", "1X+X2", "1 X+ X2", "aX=X1", "(X1X)", "1X?X2X:X3", "1X<<X2", "aX++", "++Xa", "0xX1", "1XX2", "X-X1", "aX", "1 +XX 2"];
    let mut hole_chars: Vec<char> = (0u8..128).map(|b| b as char).collect();
    hole_chars.extend(crate::props::c06::UNICODE_REPS.chars());
    hole_chars.extend(['\u{2003}', '\u{1680}', '\u{202f}', '\u{205f}']);
    let second: Vec<char> = if tier == Tier::Thorough { hole_chars.clone() } else { vec![' ', '\u{a0}', '\u{3000}', '1', 'a', '+', '\u{301}', 'é'] };
    let class_n = AtomicU64::new(0);
    TEMPLATES.par_iter().for_each(|t| {
        let holes = t.matches('X').count();
        for c1 in &hole_chars {
            let seconds: Vec<char> = if holes >= 2 { second.clone() } else { vec![*c1] };
            for c2 in seconds {
                // first hole c1, the other holes c2
                let mut first = true;
                let e: String = t
                    .chars()
                    .map(|ch| {
                        if ch == 'X' {
                            let r = if first { *c1 } else { c2 };
                            first = false;
                            r
                        } else {
                            ch
                        }
                    })
                    .collect();
                let mut env: HashMap<String, String> = HashMap::new();
                env.insert("a".into(), "7".into());
                class_n.fetch_add(1, Relaxed);
                let r = catch(|| eval(&e, &mut env));
                match r {
                    Err(p) => {
                        ctx.violation("c03:panic", &format!("panic on {e:?}: {p}"), json!({"expression": e}));
                    }
                    Ok(got) => {
                        // ASCII blanks are insignificant between tokens
                        if matches!(*c1, ' ' | '\t' | '\n') && matches!(c2, ' ' | '\t' | '\n') && !t.contains("XX") && *t != "0xX1" {
                            let plain: String = t.chars().filter(|ch| *ch != 'X').collect();
                            let mut env2: HashMap<String, String> = HashMap::new();
                            env2.insert("a".into(), "7".into());
                            let want = eval(&plain, &mut env2);
                            let same = match (&got, &want) {
                                (Ok(a), Ok(b)) => a == b,
                                (Err(_), Err(_)) => true,
                                _ => false,
                            };
                            // `a ++` / `++ a` / `a =1`: blanks may separate an operator from its operand, but
                            // `1< <2` style splits of one operator do not occur in these templates
                            if !same {
                                ctx.violation("c03:blank-changes-value", &format!("{e:?} gave {got:?} but {plain:?} gives {want:?}"), json!({"expression": e}));
                            }
                        }
                    }
                }
                if e.contains("))") || e.contains('\0') || (e.contains(')') && !e.contains('(')) || e.contains('\'') || e.contains('"') || e.contains('`') || e.contains('\\') || e.contains('$') || e.contains('#') {
                    continue; // would change how the shell delimits the expansion
                }
                let script = format!("args $(({e}))");
                let r = vsh::run_once(&Setup::script(&script), &Default::default());
                class_n.fetch_add(1, Relaxed);
                if let Some(p) = r.panic {
                    ctx.violation("c03:panic", &format!("shell panic on {script:?}: {p}"), json!({"script": script}));
                }
            }
        }
    });
    let class_n = class_n.load(Relaxed);
    // deep nesting: the evaluator returns (a value or an error) for 100 000 nested constructs;
    // probed in a subprocess of the harness binary because a stack overflow aborts the process
    let mut deep_probes = 0u64;
    for (kind, _, _, _) in ARITH_TOWERS {
        for depth in [1000usize, 100_000] {
            deep_probes += 1;
            match crate::props::c06::probe_subprocess_with("arith-probe", kind, depth, 20) {
                Ok(()) => {}
                Err(e) if e.starts_with("MACHINERY") => {
                    println!("{e}");
                    std::process::exit(2);
                }
                Err(e) => {
                    let class = if e.contains("signal") { "stack-overflow" } else { "no-termination" };
                    ctx.violation(&format!("c03:{class}:{kind}"), &format!("{depth} nested `{kind}` constructs: the evaluator {e}"), json!({"tower": kind, "depth": depth}));
                }
            }
        }
    }
    let evals = counters.evals.load(Relaxed) + spell_n + total + ctx_n + class_n + deep_probes;
    let cov = json!({
        "evaluations": evals,
        "distinct_nontrivial": counters.errors.load(Relaxed) + (d1.len() as u64),
        "rule": "expression trees of depth <= 2 (thorough: a pruned depth 3) over all 18 binary value operators, 11 assignment forms, 4 prefix operators, ++/-- prefix and postfix, ?: on boundary operands {0,1,2,3,5,61..65,2^31,2^32+1,2^62,2^63-1,2^63,-1,-(2^63-1), variables a,b (5 environments), unset u}, every tree printed with minimal parentheses and fully parenthesised; exact i128 evaluation with C semantics (value must be exact, overflow / division by zero / MIN%-1 / bad shift counts / shifting a negative or into the sign bit must be errors; short-circuit operands must leave no trace); all pairs of binary operators in both association shapes; $((x)) vs $(($x)) for decimal/octal/hex/signed spellings and for variables the shell maintains or that carry attributes (LINENO, OPTIND, PPID, read-only, exported, local, temporary); 8 assignment forms x 10 shell contexts (top level, function on a global / own local / caller's local, subshell, loop, nested in an assignment, read-only); every string of length <= 4 over 26 token characters must not panic (length <= 2/3 also through the whole shell); 16 expression templates with one or two holes x all 128 ASCII characters and representatives of every Unicode class (white space of 2 and 3 bytes, non-ASCII digits and letters, combining, zero-width, 4-byte) at API level and through the shell: no panic, and ASCII blanks between tokens do not change the value. Non-trivial counted = depth-1 trees + evaluations whose exact result is an error.",
        "samples": samples.take(),
        "expression_evaluations": counters.evals.load(Relaxed),
        "skipped_unspecified_sequence_point_or_negative_right_shift": counters.unspec.load(Relaxed),
        "error_results_confirmed": counters.errors.load(Relaxed),
        "totality_strings": total,
        "exhaustive": true,
    });
    ctx.finish(cov, &["i128 reference evaluator trusted", "right shift of a negative value (implementation-defined in C) and unsequenced modify+read are skipped"])
}
