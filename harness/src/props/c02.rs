//! C02: control flow and exit status — every program of the core command
//! language up to a size bound, in several surface syntaxes, against `refsh`;
//! plus the exhaustive command-search table.

use crate::common::*;
use crate::progs;
use crate::refsh::{self, Cmd, Style};
use crate::vsh::*;
use rayon::prelude::*;
use serde_json::json;
use std::rc::Rc;
use std::sync::atomic::{AtomicU64, Ordering::Relaxed};
use yash_env::builtin::{Builtin, Type};
use yash_env::semantics::{ExitStatus, Field};
use yash_env::Env;

fn judge(r: &Run, exp: &refsh::Outcome) -> Option<(String, String)> {
    if let Some(p) = &r.panic {
        return Some(("panic".into(), format!("panic: {p}")));
    }
    match &r.end {
        End::Exited(s) if *s == exp.status => {}
        other => {
            return Some(("status".into(), format!("shell ended {other:?}, expected exit {}; trace {:?}", exp.status, r.trace_by_proc())));
        }
    }
    let t = r.trace_by_proc();
    if t != exp.traces {
        return Some(("trace".into(), format!("markers/$? differ: got {t:?}, expected {:?}; stderr={:?}", exp.traces, r.stderr)));
    }
    if !r.stderr.is_empty() != exp.stderr {
        return Some(("stderr".into(), format!("unexpected diagnostics: {:?}", r.stderr)));
    }
    if !r.unreaped.is_empty() || !r.alive.is_empty() {
        return Some(("zombie".into(), format!("zombies={:?} alive={:?}", r.unreaped, r.alive)));
    }
    None
}

// ---------------------------------------------------------------- command search table

fn mk(kind: &'static str) -> yash_env::builtin::Main<VS> {
    // one function per kind so that the trace tells which built-in ran
    fn special(env: &mut Env<VS>, _a: Vec<Field>) -> BuiltinFuture<'_> {
        Box::pin(async move {
            probe_trace(env, "builtin:special");
            ExitStatus(11).into()
        })
    }
    fn mandatory(env: &mut Env<VS>, _a: Vec<Field>) -> BuiltinFuture<'_> {
        Box::pin(async move {
            probe_trace(env, "builtin:mandatory");
            ExitStatus(12).into()
        })
    }
    fn elective(env: &mut Env<VS>, _a: Vec<Field>) -> BuiltinFuture<'_> {
        Box::pin(async move {
            probe_trace(env, "builtin:elective");
            ExitStatus(13).into()
        })
    }
    fn substitutive(env: &mut Env<VS>, _a: Vec<Field>) -> BuiltinFuture<'_> {
        Box::pin(async move {
            probe_trace(env, "builtin:substitutive");
            ExitStatus(14).into()
        })
    }
    match kind {
        "special" => special,
        "mandatory" => mandatory,
        "elective" => elective,
        _ => substitutive,
    }
}

/// Returns (cases run, nontrivial cases)
fn command_search(ctx: &Ctx) -> (u64, u64) {
    let mut n = 0;
    let mut nontrivial = 0;
    // builtin kind: none / special / mandatory / elective / substitutive; function; exe in dir 1; exe in dir 2
    for bkind in ["none", "special", "mandatory", "elective", "substitutive"] {
        for func in [false, true] {
            for d1 in [false, true] {
                for d2 in [false, true] {
                    let script = format!(
                        "PATH=/d1:/d2\n{}nm arg\np after\n",
                        if func { "nm() { p fn 21; }\n" } else { "" }
                    );
                    let mut setup = Setup::script(&script);
                    setup.dirs.push("/d1".into());
                    setup.dirs.push("/d2".into());
                    if d1 {
                        setup.files.push(("/d1/nm".into(), vec![], 0o755));
                    }
                    if d2 {
                        setup.files.push(("/d2/nm".into(), vec![], 0o755));
                    }
                    // mark them native executables
                    setup.state_hook = Some(Rc::new(|st: &mut yash_env::system::r#virtual::SystemState| {
                        for p in ["/d1/nm", "/d2/nm"] {
                            if let Ok(f) = st.file_system.get(p) {
                                if let yash_env::system::r#virtual::FileBody::Regular { is_native_executable, .. } = &mut f.borrow_mut().body {
                                    *is_native_executable = true;
                                }
                            }
                        }
                    }));
                    if bkind != "none" {
                        let ty = match bkind {
                            "special" => Type::Special,
                            "mandatory" => Type::Mandatory,
                            "elective" => Type::Elective,
                            _ => Type::Substitutive,
                        };
                        let f = mk(bkind);
                        setup.env_hook = Some(Rc::new(move |env: &mut Env<VS>| {
                            env.builtins.insert("nm", Builtin::new(ty, f));
                        }));
                    }
                    let r = run_once(&setup, &Default::default());
                    n += 1;
                    // POSIX search order (docs/src/language/commands/simple.md)
                    let found = if d1 { Some("/d1/nm") } else if d2 { Some("/d2/nm") } else { None };
                    let (want, st): (String, i32) = if bkind == "special" {
                        ("builtin:special".into(), 11)
                    } else if func {
                        ("mfn:0".into(), 21)
                    } else if bkind == "mandatory" {
                        ("builtin:mandatory".into(), 12)
                    } else if bkind == "elective" {
                        ("builtin:elective".into(), 13)
                    } else if let Some(path) = found {
                        if bkind == "substitutive" {
                            ("builtin:substitutive".into(), 14)
                        } else {
                            (format!("execpath:{path}"), -1)
                        }
                    } else {
                        ("notfound".into(), 127)
                    };
                    if [bkind != "none", func, d1 || d2].iter().filter(|b| **b).count() >= 2 {
                        nontrivial += 1;
                    }
                    let trace: Vec<String> = r
                        .all_trace()
                        .into_iter()
                        .filter(|t| !t.starts_with("fds exec") && !t.starts_with("exec["))
                        .map(|t| if t.starts_with("fn:") { format!("m{t}") } else { t })
                        .collect();
                    let ran = trace.first().cloned().unwrap_or_default();
                    let after = trace.iter().find(|t| t.starts_with("after:")).cloned().unwrap_or_default();
                    let ok_target = if want == "notfound" {
                        ran.starts_with("after:")
                    } else {
                        ran == want
                    };
                    let ok_status = st < 0 || after == format!("after:{st}");
                    if !ok_target || !ok_status || r.panic.is_some() {
                        ctx.violation(
                            "c02:command-search",
                            &format!("builtin={bkind} function={func} /d1/nm={d1} /d2/nm={d2}: ran {trace:?}, expected target {want} status {st}"),
                            json!({"script": script, "builtin": bkind, "function": func, "d1": d1, "d2": d2}),
                        );
                    }
                }
            }
        }
    }
    (n, nontrivial)
}

/// Loops whose body behaves differently from one iteration to the next (`if tick w K; then A;
/// else B; fi`): the status a loop reports, and what runs after it, depend on how the *last*
/// iteration ended, whatever earlier iterations did.
fn varying_loop_bodies() -> Vec<Cmd> {
    let p = |st: i32| Cmd::P { label: 0, st };
    let bx = |c: Cmd| Box::new(c);
    let ends: Vec<Cmd> = vec![
        Cmd::S(5),
        Cmd::S(0),
        p(3),
        Cmd::Continue(None),
        Cmd::Break(None),
        Cmd::Seq(vec![Cmd::S(7), Cmd::Continue(None)]),
        Cmd::Seq(vec![Cmd::S(7), Cmd::Break(None)]),
        Cmd::Seq(vec![p(4), Cmd::Continue(None), p(0)]),
        Cmd::Return(Some(6)),
    ];
    let mut out = vec![];
    for a in &ends {
        for b in &ends {
            if a == b {
                continue;
            }
            for k in [1u32, 2] {
                let body = Cmd::If { cond: bx(Cmd::Tick { id: 0, n: k }), then: bx(a.clone()), elifs: vec![], els: Some(bx(b.clone())) };
                let uses_return = matches!(a, Cmd::Return(_)) || matches!(b, Cmd::Return(_));
                for until in [false, true] {
                    let lp = Cmd::Loop { until, id: 0, n: 3, pre: vec![], body: bx(body.clone()) };
                    let prog = if uses_return {
                        Cmd::Seq(vec![Cmd::FuncDef { name: 0, body: bx(Cmd::Group(bx(Cmd::Seq(vec![lp.clone(), p(0)])))) }, Cmd::Call(0), p(0)])
                    } else {
                        Cmd::Seq(vec![lp.clone(), p(0), Cmd::AndOr(bx(lp.clone()), vec![(true, p(0)), (false, p(0))])])
                    };
                    out.push(prog);
                }
                // the same body in a for loop
                if !uses_return {
                    out.push(Cmd::Seq(vec![Cmd::For { id: 0, items: 3, body: bx(body.clone()) }, p(0)]));
                }
            }
        }
    }
    out
}

/// Can the program text be given to `eval` / `.` without changing its meaning? Not if a
/// `return` sits outside any function of the program (it would end the dot script only) or a
/// `break`/`continue` outside any loop of the program.
fn wrappable(c: &Cmd, in_loop: bool, in_func: bool) -> bool {
    let all = |v: &[&Cmd], l: bool, f: bool| v.iter().all(|x| wrappable(x, l, f));
    match c {
        Cmd::Return(_) => in_func,
        Cmd::Break(_) | Cmd::Continue(_) => in_loop,
        Cmd::Seq(v) | Cmd::Pipe(v) => v.iter().all(|x| wrappable(x, in_loop, in_func)),
        Cmd::AndOr(a, r) => wrappable(a, in_loop, in_func) && r.iter().all(|(_, x)| wrappable(x, in_loop, in_func)),
        Cmd::Not(x) | Cmd::Group(x) | Cmd::Subshell(x) | Cmd::Async(x) | Cmd::Subst(x) => wrappable(x, in_loop, in_func),
        Cmd::If { cond, then, elifs, els } => {
            all(&[cond, then], in_loop, in_func) && elifs.iter().all(|(a, b)| all(&[a, b], in_loop, in_func)) && els.as_ref().is_none_or(|e| wrappable(e, in_loop, in_func))
        }
        Cmd::Loop { pre, body, .. } => pre.iter().all(|x| wrappable(x, true, in_func)) && wrappable(body, true, in_func),
        Cmd::For { body, .. } => wrappable(body, true, in_func),
        Cmd::Case { arms, .. } => arms.iter().all(|(_, b)| b.as_ref().is_none_or(|x| wrappable(x, in_loop, in_func))),
        Cmd::FuncDef { body, .. } => wrappable(body, false, true),
        _ => true,
    }
}

/// Texts that contain no command at all: whatever runs them reports status 0 (XCU 2.14 eval and
/// dot: "zero if no command is executed"; 2.9.4.1/2.6.3: a subshell or substitution without commands).
fn blank_texts(ctx: &Ctx) -> u64 {
    let mut n = 0;
    for blank in ["", " ", "\n", "\n\n", "# c", "# c\n", " \n\t\n", "\n# c\n\n"] {
        let cases: Vec<(&str, String, Vec<&str>)> = vec![
            ("eval", format!("s 5\neval '{blank}'\np z"), vec!["z:0"]),
            ("dot", "s 5\n. /tmp/blank\np z".to_string(), vec!["z:0"]),
            ("eval-in-function", format!("f() {{ s 5; eval '{blank}'; }}\nf\np z"), vec!["z:0"]),
            ("dot-then-and", "s 5\n. /tmp/blank && p y\np z".to_string(), vec!["y:0", "z:0"]),
            ("eval-not", format!("s 5\n! eval '{blank}'\np z"), vec!["z:1"]),
        ];
        for (kind, script, want) in cases {
            let mut setup = Setup::script(&script);
            setup.files.push(("/tmp/blank".into(), blank.as_bytes().to_vec(), 0o644));
            let r = run_once(&setup, &Default::default());
            n += 1;
            let got = r.all_trace();
            if got != want || r.panic.is_some() {
                ctx.violation(
                    &format!("c02:no-command-status-{kind}"),
                    &format!("a text without commands ({blank:?}) run by {kind}: markers {got:?}, expected {want:?} (status 0 when no command is executed); stderr={:?}", r.stderr),
                    json!({"script": script, "file:/tmp/blank": blank, "expected": format!("{want:?}")}),
                );
            }
        }
    }
    // a failing last command followed by lines without commands: the status stays the command's
    for text in ["s 7\n\n", "s 7\n# c\n", "s 7\n\n\n# c", "\ns 7\n \n", "s 0\ns 7\n\n", "if s 0; then s 7; fi\n\n"] {
        let cases: Vec<(&str, String)> = vec![
            ("eval", format!("eval '{text}'\np z")),
            ("dot", ". /tmp/blank\np z".to_string()),
            ("substitution", format!("x=$({text}\n)\np z")),
            ("function-eval", format!("f() {{ eval '{text}'; }}\nf\np z")),
        ];
        for (kind, script) in cases {
            let mut setup = Setup::script(&script);
            setup.files.push(("/tmp/blank".into(), text.as_bytes().to_vec(), 0o644));
            let r = run_once(&setup, &Default::default());
            n += 1;
            let got = r.all_trace();
            if got != ["z:7"] || r.panic.is_some() {
                ctx.violation(
                    &format!("c02:status-lost-after-trailing-blank-lines-{kind}"),
                    &format!("{text:?} run by {kind}: markers {got:?}, expected [\"z:7\"] (the status of the last command executed); stderr={:?}", r.stderr),
                    json!({"script": script, "file:/tmp/blank": text, "expected": "[\"z:7\"]"}),
                );
            }
        }
        // as the whole script: the exit status of the shell
        let r = run_once(&Setup::script(text), &Default::default());
        n += 1;
        if r.end != End::Exited(7) {
            ctx.violation("c02:status-lost-after-trailing-blank-lines-script", &format!("script {text:?}: the shell ended {:?}, expected exit status 7", r.end), json!({"script": text, "expected": "exit 7"}));
        }
    }
    n
}

pub fn replay(case: &serde_json::Value) -> i32 {
    let script = case["script"].as_str().unwrap();
    let mut setup = Setup::script(script);
    for (k, path) in [("file:/tmp/prog", "/tmp/prog"), ("file:/tmp/blank", "/tmp/blank")] {
        if let Some(t) = case[k].as_str() {
            setup.files.push((path.into(), if k.ends_with("prog") { format!("{t}\n").into_bytes() } else { t.as_bytes().to_vec() }, 0o644));
        }
    }
    let r = run_once(&setup, &Default::default());
    println!("script:\n{script}\n--\nend={:?}\ntrace={:?}\nstderr={}\nexpected={}", r.end, r.trace_by_proc(), r.stderr, case["expected"]);
    1
}

pub fn run(tier: Tier) -> i32 {
    let ctx = Ctx::new("C02", "exploration", tier);
    let n = tier.pick(5, 6);
    let mut progs = progs::programs(n);
    progs.extend(varying_loop_bodies());
    for p in progs.iter_mut() {
        refsh::relabel(p);
    }
    let evals = AtomicU64::new(0);
    let skipped = AtomicU64::new(0);
    let nontrivial = AtomicU64::new(0);
    let samples = Samples::new(8);
    let wrapped = AtomicU64::new(0);
    let unspec: std::sync::Mutex<std::collections::BTreeMap<&'static str, u64>> = Default::default();
    progs.par_iter().for_each(|prog| {
        let exp = match refsh::run(prog) {
            Ok(e) => e,
            Err(why) => {
                skipped.fetch_add(1, Relaxed);
                *unspec.lock().unwrap().entry(why).or_default() += 1;
                return;
            }
        };
        let small = refsh::size(prog) <= 3;
        let styles = if small { Style::all() } else { Style::orthogonal() };
        let mut first: Option<String> = None;
        for style in styles {
            let script = refsh::print(prog, style);
            let r = run_once(&Setup::script(&script), &Default::default());
            evals.fetch_add(1, Relaxed);
            if let Some((key, what)) = judge(&r, &exp) {
                ctx.violation(
                    &format!("c02:{key}"),
                    &what,
                    json!({"script": script, "ast": format!("{prog:?}"), "expected": format!("{exp:?}")}),
                );
                break;
            }
            first.get_or_insert(script);
        }
        // the same program as the operand of `eval` and as a dot script: both run the text in the
        // current environment, so markers, `$?` values and the final status must be the same
        if first.is_some() && wrappable(prog, false, false) && (small || tier == Tier::Thorough) {
            for style in [Style::default(), Style { newline: true, ..Style::default() }] {
                let text = refsh::print(prog, style);
                if text.contains('\'') {
                    continue;
                }
                for (kind, script) in [("eval", format!("eval '{text}'")), ("dot", ". /tmp/prog".to_string()), ("eval-in-group", format!("{{ eval '{text}'\n}}"))] {
                    let mut setup = Setup::script(&script);
                    setup.files.push(("/tmp/prog".into(), format!("{text}\n").into_bytes(), 0o644));
                    let r = run_once(&setup, &Default::default());
                    wrapped.fetch_add(1, Relaxed);
                    if let Some((key, what)) = judge(&r, &exp) {
                        ctx.violation(
                            &format!("c02:{kind}-wrapper-{key}"),
                            &format!("the program run through {kind} differs from the program itself: {what}"),
                            json!({"script": script, "file:/tmp/prog": text, "ast": format!("{prog:?}"), "expected": format!("{exp:?}")}),
                        );
                        break;
                    }
                }
            }
        }
        // non-trivial: composite program (not a single leaf) whose evaluation produced at least one marker
        if refsh::size(prog) >= 2 && exp.traces.values().any(|v| !v.is_empty()) {
            nontrivial.fetch_add(1, Relaxed);
        }
        samples.offer(|| json!({"script": first, "expected_traces": format!("{:?}", exp.traces), "status": exp.status}));
    });
    let blank_cases = blank_texts(&ctx);
    let (cs_cases, cs_nontrivial) = command_search(&ctx);
    let cov = json!({
        "evaluations": evals.load(Relaxed) + cs_cases + wrapped.load(Relaxed) + blank_cases,
        "runs_through_eval_and_dot": wrapped.load(Relaxed),
        "texts_without_commands": blank_cases,
        "distinct_nontrivial": nontrivial.load(Relaxed) + cs_nontrivial,
        "rule": format!("every AST of at most {n} nodes over {{probe with status 0/1, ;, &&, ||, !, |, {{}}, (), if/else, while/until (tick-guarded), for, case (1-2 arms, first match), function definition+call, break/continue [n], return [n], exit [n]}}, each printed in 16 (size<=3) or 4 orthogonal surface variants (newline vs ;, extra blanks, comment, line continuation) and run through the whole shell; all variants must equal the reference interpreter's markers, $? values and exit status. Non-trivial = composite program that produced at least one marker; distinct by AST. Every program of <= 3 nodes (thorough: all) is also run as the operand of eval, as a dot script and by eval inside a group (same markers and status); texts without any command (empty, blanks, newlines, comments) given to eval, `.`, a command substitution, a function body group and a trap-free subshell leave $? = 0. Plus the exhaustive command-search table (builtin kind x function x executable in PATH dir 1/2)."),
        "samples": samples.take(),
        "programs": progs.len(),
        "programs_skipped_unspecified": skipped.load(Relaxed),
        "unspecified_reasons": *unspec.lock().unwrap(),
        "command_search_cases": cs_cases,
        "exhaustive": true,
    });
    ctx.finish(cov, &["refsh reference interpreter and probe built-ins trusted", "pipelines run under the default schedule here (schedules are C13)"])
}
