//! C11 part (f): one `trap` command naming several conditions. Every ordered selection of two or
//! three distinct conditions out of {INT, HUP, USR1, TERM, KILL, STOP} x every action (command,
//! ignore, reset), alone and after another such command, in an interactive and a non-interactive
//! shell started with no signal / SIGINT / SIGINT and SIGHUP ignored. Each condition is handled on
//! its own: KILL and STOP are refused, a signal ignored at the start of a non-interactive shell is
//! silently left alone, and *every other condition of the same command takes effect* — the
//! disposition installed in the simulated process afterwards is max(user's trap, shell's own
//! need) per signal, a caught signal is blocked, KILL and STOP stay at their defaults.

use crate::common::*;
use crate::vsh::{self, *};
use rayon::prelude::*;
use serde_json::json;
use std::collections::BTreeMap;
use std::sync::atomic::{AtomicU64, Ordering::Relaxed};

#[derive(Clone, Copy, Debug, PartialEq, Eq, PartialOrd, Ord)]
enum D {
    Default,
    Ignore,
    Catch,
}

const CONDS: [&str; 6] = ["INT", "HUP", "USR1", "TERM", "KILL", "STOP"];
const ACTIONS: [(&str, D); 3] = [("'p T'", D::Catch), ("''", D::Ignore), ("-", D::Default)];
const IGNORED: [&[&str]; 3] = [&[], &["INT"], &["INT", "HUP"]];

#[derive(Clone, Debug)]
struct Cmd {
    action: usize,
    conds: Vec<&'static str>,
}

fn commands() -> Vec<Cmd> {
    let mut v = vec![];
    for action in 0..ACTIONS.len() {
        for a in CONDS {
            for b in CONDS {
                if a == b {
                    continue;
                }
                v.push(Cmd { action, conds: vec![a, b] });
                for c in CONDS {
                    if c != a && c != b {
                        v.push(Cmd { action, conds: vec![a, b, c] });
                    }
                }
            }
        }
    }
    v
}

fn text(c: &Cmd, interactive: bool) -> String {
    // an error of a special built-in ends a non-interactive shell: `command` keeps it alive
    format!("{}trap {} {}", if interactive { "" } else { "command " }, ACTIONS[c.action].0, c.conds.join(" "))
}

fn script_of(hist: &[&Cmd], interactive: bool) -> String {
    let mut script = String::from("snap 0\n");
    for (i, c) in hist.iter().enumerate() {
        script.push_str(&format!("{}\nsnap {}\n", text(c, interactive), i + 1));
    }
    script
}

fn run(script: &str, interactive: bool, ignored: &[&str]) -> vsh::Run {
    let mut setup = Setup::script("");
    setup.argv = if interactive { vec!["yash".into(), "-i".into(), "-s".into()] } else { vec!["yash".into(), "-s".into()] };
    setup.stdin = Some(script.as_bytes().to_vec());
    setup.ignored_signals = ignored.iter().map(|s| SIGNALS.iter().find(|(n, _)| n == s).unwrap().1).collect();
    vsh::run_once(&setup, &Default::default())
}

fn judge(ctx: &Ctx, hist: &[&Cmd], interactive: bool, ignored: &'static [&'static str]) {
    let script = script_of(hist, interactive);
    let r = run(&script, interactive, ignored);
    let case = json!({"part": "f", "script": script, "interactive": interactive, "ignored": ignored});
    if r.panic.is_some() || !matches!(r.end, End::Exited(_)) {
        ctx.violation("c11:multi-condition-trap-abnormal-end", &format!("{:?} {:?}", r.end, r.panic), case);
        return;
    }
    let tr = r.all_trace();
    let mut user: BTreeMap<&str, D> = BTreeMap::new();
    for step in 0..=hist.len() {
        if step > 0 {
            let c = hist[step - 1];
            for s in &c.conds {
                let refused = matches!(*s, "KILL" | "STOP") || (!interactive && ignored.contains(s));
                if !refused {
                    user.insert(s, ACTIONS[c.action].1);
                }
            }
        }
        let pfx = format!("snap {step} ");
        let Some(line) = tr.iter().find(|t| t.starts_with(&pfx)) else {
            ctx.violation("c11:multi-condition-trap-abnormal-end", &format!("no snapshot {step}; stderr={:?}", r.stderr), case);
            return;
        };
        let sec = parse_snapshot(&line[pfx.len()..]);
        let disp: BTreeMap<&str, &str> = sec.get("dispositions").map(|s| s.split(',').filter_map(|e| e.split_once(':')).collect()).unwrap_or_default();
        let blocked = sec.get("blocked").cloned().unwrap_or_default();
        let blocked: Vec<i32> = blocked.trim_matches(|c| c == '[' || c == ']').split(',').filter_map(|x| x.trim().parse().ok()).collect();
        for s in CONDS {
            let need = match s {
                "INT" if interactive => D::Catch,
                "TERM" if interactive => D::Ignore,
                _ => D::Default,
            };
            let own = match user.get(s) {
                Some(d) => *d,
                None if ignored.contains(&s) => D::Ignore,
                None => D::Default,
            };
            let want = need.max(own);
            let got = disp.get(s).copied().unwrap_or("?");
            if got != format!("{want:?}") {
                ctx.violation(
                    "c11:disposition-after-multi-condition-trap",
                    &format!(
                        "{} shell started with {ignored:?} ignored, after {:?}: SIG{s} is {got}, but the traps set so far ({:?}) and the shell's own need ({need:?}) imply {want:?}",
                        if interactive { "interactive" } else { "non-interactive" },
                        hist[..step].iter().map(|c| text(c, interactive)).collect::<Vec<_>>(),
                        user.get(s),
                    ),
                    case,
                );
                return;
            }
            let n = SIGNALS.iter().find(|(name, _)| *name == s).map(|x| x.1).unwrap_or(0);
            if blocked.contains(&n) != (want == D::Catch) {
                ctx.violation("c11:mask-after-multi-condition-trap", &format!("after {:?}: SIG{s} blocked={} although its disposition is {want:?}", hist[..step].iter().map(|c| text(c, interactive)).collect::<Vec<_>>(), blocked.contains(&n)), case);
                return;
            }
        }
    }
}

pub fn replay(case: &serde_json::Value) -> bool {
    let Some(script) = case["script"].as_str() else { return false };
    let interactive = case["interactive"].as_bool().unwrap_or(true);
    let ignored: Vec<String> = case["ignored"].as_array().map(|a| a.iter().filter_map(|x| x.as_str().map(|s| s.to_string())).collect()).unwrap_or_default();
    let ign: Vec<&str> = ignored.iter().map(|s| s.as_str()).collect();
    let r = run(script, interactive, &ign);
    println!("script (interactive={interactive}, ignored at start-up {ignored:?}):\n{script}\nend={:?} stderr={:?}", r.end, r.stderr);
    for t in r.all_trace() {
        if let Some(rest) = t.strip_prefix("snap ") {
            let (tag, body) = rest.split_once(' ').unwrap_or((rest, ""));
            let sec = parse_snapshot(body);
            println!("  snap {tag}: dispositions={:?} blocked={:?} traps={:?}", sec.get("dispositions"), sec.get("blocked"), sec.get("traps"));
        }
    }
    true
}

/// Returns (histories run, commands compared).
pub fn part_f(ctx: &Ctx) -> (u64, u64) {
    let cmds = commands();
    let stride = ctx.tier.pick(7, 1);
    let runs = AtomicU64::new(0);
    let steps = AtomicU64::new(0);
    cmds.par_iter().enumerate().for_each(|(i, first)| {
        for interactive in [true, false] {
            for ignored in IGNORED {
                let _g = case_guard(format!("trap {first:?} interactive={interactive} ignored={ignored:?}"));
                judge(ctx, &[first], interactive, ignored);
                runs.fetch_add(1, Relaxed);
                steps.fetch_add(1, Relaxed);
                // a second command after it (quick: every 7th, offset by the first)
                for second in cmds.iter().skip(i % stride).step_by(stride) {
                    judge(ctx, &[first, second], interactive, ignored);
                    runs.fetch_add(1, Relaxed);
                    steps.fetch_add(2, Relaxed);
                }
            }
        }
    });
    (runs.load(Relaxed), steps.load(Relaxed))
}
