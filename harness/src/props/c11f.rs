//! C11 part (f): one `trap` command naming several conditions. Every ordered selection of two or
//! three distinct conditions out of {INT, HUP, USR1, TERM, KILL, STOP} x every action (command,
//! ignore, reset), alone and after another such command, in an interactive and a non-interactive
//! shell started with no signal / SIGINT / SIGINT and SIGHUP ignored. Each condition is handled on
//! its own: KILL and STOP are refused, a signal ignored at the start of a non-interactive shell is
//! silently left alone, and *every other condition of the same command takes effect* — the
//! disposition installed in the simulated process afterwards is max(user's trap, shell's own
//! need) per signal, a caught signal is blocked, KILL and STOP stay at their defaults.

use crate::common::*;
use crate::vsh::{self, *};
use rayon::prelude::*;
use serde_json::json;
use std::collections::BTreeMap;
use std::sync::atomic::{AtomicU64, Ordering::Relaxed};

#[derive(Clone, Copy, Debug, PartialEq, Eq, PartialOrd, Ord)]
enum D {
    Default,
    Ignore,
    Catch,
}

const CONDS: [&str; 6] = ["INT", "HUP", "USR1", "TERM", "KILL", "STOP"];
const ACTIONS: [(&str, D); 3] = [("'p T'", D::Catch), ("''", D::Ignore), ("-", D::Default)];
const IGNORED: [&[&str]; 3] = [&[], &["INT"], &["INT", "HUP"]];

#[derive(Clone, Debug)]
struct Cmd {
    action: usize,
    conds: Vec<&'static str>,
}

fn commands() -> Vec<Cmd> {
    let mut v = vec![];
    for action in 0..ACTIONS.len() {
        for a in CONDS {
            for b in CONDS {
                if a == b {
                    continue;
                }
                v.push(Cmd { action, conds: vec![a, b] });
                for c in CONDS {
                    if c != a && c != b {
                        v.push(Cmd { action, conds: vec![a, b, c] });
                    }
                }
            }
        }
    }
    v
}

fn text(c: &Cmd, interactive: bool) -> String {
    // an error of a special built-in ends a non-interactive shell: `command` keeps it alive
    format!("{}trap {} {}", if interactive { "" } else { "command " }, ACTIONS[c.action].0, c.conds.join(" "))
}

fn script_of(hist: &[&Cmd], interactive: bool) -> String {
    let mut script = String::from("snap 0\n");
    for (i, c) in hist.iter().enumerate() {
        script.push_str(&format!("{}\nsnap {}\n", text(c, interactive), i + 1));
    }
    script
}

fn run(script: &str, interactive: bool, ignored: &[&str]) -> vsh::Run {
    let mut setup = Setup::script("");
    setup.argv = if interactive { vec!["yash".into(), "-i".into(), "-s".into()] } else { vec!["yash".into(), "-s".into()] };
    setup.stdin = Some(script.as_bytes().to_vec());
    setup.ignored_signals = ignored.iter().map(|s| SIGNALS.iter().find(|(n, _)| n == s).unwrap().1).collect();
    vsh::run_once(&setup, &Default::default())
}

fn judge(ctx: &Ctx, hist: &[&Cmd], interactive: bool, ignored: &'static [&'static str]) {
    let script = script_of(hist, interactive);
    let r = run(&script, interactive, ignored);
    let case = json!({"part": "f", "script": script, "interactive": interactive, "ignored": ignored});
    if r.panic.is_some() || !matches!(r.end, End::Exited(_)) {
        ctx.violation("c11:multi-condition-trap-abnormal-end", &format!("{:?} {:?}", r.end, r.panic), case);
        return;
    }
    let tr = r.all_trace();
    let mut user: BTreeMap<&str, D> = BTreeMap::new();
    for step in 0..=hist.len() {
        if step > 0 {
            let c = hist[step - 1];
            for s in &c.conds {
                let refused = matches!(*s, "KILL" | "STOP") || (!interactive && ignored.contains(s));
                if !refused {
                    user.insert(s, ACTIONS[c.action].1);
                }
            }
        }
        let pfx = format!("snap {step} ");
        let Some(line) = tr.iter().find(|t| t.starts_with(&pfx)) else {
            ctx.violation("c11:multi-condition-trap-abnormal-end", &format!("no snapshot {step}; stderr={:?}", r.stderr), case);
            return;
        };
        let sec = parse_snapshot(&line[pfx.len()..]);
        let disp: BTreeMap<&str, &str> = sec.get("dispositions").map(|s| s.split(',').filter_map(|e| e.split_once(':')).collect()).unwrap_or_default();
        let blocked = sec.get("blocked").cloned().unwrap_or_default();
        let blocked: Vec<i32> = blocked.trim_matches(|c| c == '[' || c == ']').split(',').filter_map(|x| x.trim().parse().ok()).collect();
        for s in CONDS {
            let need = match s {
                "INT" if interactive => D::Catch,
                "TERM" if interactive => D::Ignore,
                _ => D::Default,
            };
            let own = match user.get(s) {
                Some(d) => *d,
                None if ignored.contains(&s) => D::Ignore,
                None => D::Default,
            };
            let want = need.max(own);
            let got = disp.get(s).copied().unwrap_or("?");
            if got != format!("{want:?}") {
                ctx.violation(
                    "c11:disposition-after-multi-condition-trap",
                    &format!(
                        "{} shell started with {ignored:?} ignored, after {:?}: SIG{s} is {got}, but the traps set so far ({:?}) and the shell's own need ({need:?}) imply {want:?}",
                        if interactive { "interactive" } else { "non-interactive" },
                        hist[..step].iter().map(|c| text(c, interactive)).collect::<Vec<_>>(),
                        user.get(s),
                    ),
                    case,
                );
                return;
            }
            let n = SIGNALS.iter().find(|(name, _)| *name == s).map(|x| x.1).unwrap_or(0);
            if blocked.contains(&n) != (want == D::Catch) {
                ctx.violation("c11:mask-after-multi-condition-trap", &format!("after {:?}: SIG{s} blocked={} although its disposition is {want:?}", hist[..step].iter().map(|c| text(c, interactive)).collect::<Vec<_>>(), blocked.contains(&n)), case);
                return;
            }
        }
    }
}

pub fn replay(case: &serde_json::Value) -> bool {
    let Some(script) = case["script"].as_str() else { return false };
    let interactive = case["interactive"].as_bool().unwrap_or(true);
    let ignored: Vec<String> = case["ignored"].as_array().map(|a| a.iter().filter_map(|x| x.as_str().map(|s| s.to_string())).collect()).unwrap_or_default();
    let ign: Vec<&str> = ignored.iter().map(|s| s.as_str()).collect();
    let r = run(script, interactive, &ign);
    println!("script (interactive={interactive}, ignored at start-up {ignored:?}):\n{script}\nend={:?} stderr={:?}", r.end, r.stderr);
    for t in r.all_trace() {
        if let Some(rest) = t.strip_prefix("snap ") {
            let (tag, body) = rest.split_once(' ').unwrap_or((rest, ""));
            let sec = parse_snapshot(body);
            println!("  snap {tag}: dispositions={:?} blocked={:?} traps={:?}", sec.get("dispositions"), sec.get("blocked"), sec.get("traps"));
        }
    }
    true
}

/// Returns (histories run, commands compared).
pub fn part_f(ctx: &Ctx) -> (u64, u64) {
    let cmds = commands();
    let stride = ctx.tier.pick(7, 1);
    let runs = AtomicU64::new(0);
    let steps = AtomicU64::new(0);
    cmds.par_iter().enumerate().for_each(|(i, first)| {
        for interactive in [true, false] {
            for ignored in IGNORED {
                let _g = case_guard(format!("trap {first:?} interactive={interactive} ignored={ignored:?}"));
                judge(ctx, &[first], interactive, ignored);
                runs.fetch_add(1, Relaxed);
                steps.fetch_add(1, Relaxed);
                // a second command after it (quick: every 7th, offset by the first)
                for second in cmds.iter().skip(i % stride).step_by(stride) {
                    judge(ctx, &[first, second], interactive, ignored);
                    runs.fetch_add(1, Relaxed);
                    steps.fetch_add(2, Relaxed);
                }
            }
        }
    });
    (runs.load(Relaxed), steps.load(Relaxed))
}

// Part (g): *where* the action runs — "at the next command boundary". While the shell waits for a
// foreground command (a subshell, a multi-command pipeline, a command substitution, an external
// utility …) a trapped signal arrives; its action must run when that command has completed, before
// the next command starts. For each unit, SIGUSR1 is raised at every `select` system call (the shell
// blocks because its child is still running) the main shell makes between the marker before the unit and the marker after it.

const G_UNITS: [&str; 16] = [
    "(s 0)",
    "s 0 | s 0",
    "s 0 | s 0 | s 0",
    "! s 0 | s 0",
    "s 0 && s 0 | s 0",
    "s 1 || s 0 | s 0",
    "{ s 0 | s 0; }",
    "if s 0 | s 0; then s 0; fi",
    "x=$(s 0)",
    ": $(s 0) $(s 0)",
    "f() { s 0 | s 0; }; f",
    "/bin/true",
    "s 0 | /bin/true",
    "set -m; s 0 | s 0",
    "set -m; (s 0)",
    "(s 0) | (s 0; s 0)",
];

/// Returns (executions, injection points).
pub fn part_g(ctx: &Ctx) -> (u64, u64) {
    let execs = AtomicU64::new(0);
    let points = AtomicU64::new(0);
    G_UNITS.par_iter().for_each(|unit| {
        // (one line: between lines the read-eval loop looks for pending traps by itself)
        let script = format!("trap 'p t' USR1\np start; {unit}; p next\np end\n");
        let setup = Setup::script(&script);
        // (an injection plan without any delivery: the system calls of the main shell are counted)
        let base = vsh::run_once(&setup, &RunOpts { log_taps: true, inject: Some(Inject { at: vec![], pid: 2 }), ..Default::default() });
        execs.fetch_add(1, Relaxed);
        let main: Vec<&'static str> = base.tap_log.iter().filter(|(p, _)| *p == 2).map(|(_, n)| *n).collect();
        let at = |m: &str| base.trace.iter().find(|e| e.pid == 2 && e.text.starts_with(m)).map(|e| e.at_tap);
        let (Some(a), Some(b)) = (at("start:"), at("next:")) else {
            ctx.violation("c11:trap-position-baseline", &format!("{unit}: the undisturbed run has no start / next marker: {:?}", base.all_trace()), json!({"part": "g", "script": script}));
            return;
        };
        for k in a..b.min(main.len()) {
            // `select`: the shell has found its child still running and blocks until something
            // happens (a `wait` call may also be the bookkeeping one after the command boundary)
            if main[k] != "select" {
                continue;
            }
            points.fetch_add(1, Relaxed);
            let _g = case_guard(format!("trap position {unit} k={k}"));
            let r = vsh::run_once(&setup, &RunOpts { inject: Some(Inject { at: vec![(k, 124)], pid: 2 }), ..Default::default() });
            execs.fetch_add(1, Relaxed);
            let m: Vec<&str> = r.trace.iter().filter(|e| e.pid == 2).map(|e| e.text.split(':').next().unwrap_or("")).collect();
            if m != ["start", "t", "next", "end"] {
                let late = m == ["start", "next", "t", "end"] || m == ["start", "next", "end", "t"];
                ctx.violation(
                    if late { "c11:trap-ran-after-the-next-command" } else { "c11:trap-position" },
                    &format!("`{unit}`: SIGUSR1 arrived while the shell was waiting for the command (its system call {k}, `{}`); the main shell then executed {m:?} — the action belongs between the command and `next`", main[k]),
                    json!({"part": "g", "script": script, "k": k}),
                );
                return;
            }
        }
    });
    (execs.load(Relaxed), points.load(Relaxed))
}

pub fn replay_g(case: &serde_json::Value) -> bool {
    let (Some(script), Some(k)) = (case["script"].as_str(), case["k"].as_u64()) else { return false };
    let r = vsh::run_once(&Setup::script(script), &RunOpts { inject: Some(Inject { at: vec![(k as usize, 124)], pid: 2 }), ..Default::default() });
    println!("script:\n{script}\nSIGUSR1 at system call {k} of the main shell\nend={:?}\ntrace={:?}\nstderr={}", r.end, r.trace_by_proc(), r.stderr);
    true
}

// Part (h): what a program the shell executes starts with. On `exec` the kernel resets caught
// signals to their default action but keeps the signal mask and the ignored signals: after any
// trap history, whichever way the program is run (as a command in a child, by `exec` in the shell
// itself, in a subshell, asynchronously, in a substitution, in a pipeline, from a function), it
// must start with no signal blocked, a signal ignored iff the user's trap ignores it (or it is
// SIGINT / SIGQUIT of an asynchronous list), and nothing else changed. The `sigs` stub records the
// mask and the dispositions of the simulated process at its `execve`.

const H_TRAPS: [(&str, &str, D); 9] = [
    ("USR1", "'p t'", D::Catch), ("USR1", "''", D::Ignore), ("USR1", "-", D::Default),
    ("INT", "'p t'", D::Catch), ("INT", "''", D::Ignore), ("INT", "-", D::Default),
    ("TERM", "'p t'", D::Catch), ("TERM", "''", D::Ignore), ("TERM", "-", D::Default),
];
const H_RUNNERS: [(&str, bool, bool); 9] = [
    // (text, the program replaces the shell that holds the traps, asynchronous)
    ("sigs", false, false),
    ("exec sigs", true, false),
    ("command exec sigs", true, false),
    ("f() { exec sigs; }; f", true, false),
    ("(exec sigs)", false, false),
    ("sigs &\nwait", false, true),
    ("x=$(sigs)", false, false),
    ("sigs | cat", false, false),
    ("{ exec sigs; } &\nwait", false, true),
];

/// Returns the number of runs.
pub fn part_h(ctx: &Ctx) -> u64 {
    let mut hists: Vec<Vec<usize>> = (0..H_TRAPS.len()).map(|i| vec![i]).collect();
    for i in 0..H_TRAPS.len() {
        for j in 0..H_TRAPS.len() {
            hists.push(vec![i, j]);
        }
    }
    hists.push(vec![]);
    let n = AtomicU64::new(0);
    hists.par_iter().for_each(|h| {
        for (runner, replaces_shell, asynchronous) in H_RUNNERS {
            let mut script = String::new();
            let mut user: BTreeMap<&str, D> = BTreeMap::new();
            for t in h {
                let (sig, action, d) = H_TRAPS[*t];
                script.push_str(&format!("trap {action} {sig}\n"));
                user.insert(sig, d);
            }
            script.push_str(runner);
            script.push('\n');
            let _g = case_guard(format!("signal state at exec: {script}"));
            let r = vsh::run_once(&Setup::script(&script), &Default::default());
            n.fetch_add(1, Relaxed);
            let case = json!({"part": "h", "script": script});
            let Some(line) = r.all_trace().into_iter().find(|t| t.starts_with("sigs exec ")) else {
                ctx.violation("c11:executed-program-signal-state", &format!("{script:?}: the program was not executed: {:?} stderr={:?}", r.end, r.stderr), case);
                return;
            };
            let blocked_empty = line.contains("blocked=[]");
            let disp: BTreeMap<&str, &str> = line.rsplit(' ').next().unwrap_or("").split(',').filter_map(|e| e.split_once(':')).collect();
            let mut wrong = vec![];
            for s in ["USR1", "INT", "TERM", "QUIT"] {
                let ignored = user.get(s) == Some(&D::Ignore) || (asynchronous && matches!(s, "INT" | "QUIT"));
                let got = disp.get(s).copied().unwrap_or("?");
                // a caught signal is reset to the default action by the kernel
                let ok = if ignored { got == "Ignore" } else { got == "Default" || got == "Catch" };
                if !ok {
                    wrong.push(format!("SIG{s} is {got}"));
                }
            }
            if !blocked_empty || !wrong.is_empty() {
                let key = if !blocked_empty && wrong.is_empty() && replaces_shell { "c11:program-run-by-exec-in-the-shell-starts-with-trapped-signals-blocked" } else { "c11:executed-program-signal-state" };
                ctx.violation(key, &format!("{script:?}: the program starts with {line}{}", if wrong.is_empty() { String::new() } else { format!(" ({})", wrong.join(", ")) }), case);
                return;
            }
        }
    });
    n.load(Relaxed)
}

pub fn replay_h(case: &serde_json::Value) -> bool {
    let Some(script) = case["script"].as_str() else { return false };
    let r = vsh::run_once(&Setup::script(script), &Default::default());
    println!("script:\n{script}\nend={:?}\ntrace={:?}\nstderr={}", r.end, r.trace_by_proc(), r.stderr);
    true
}
