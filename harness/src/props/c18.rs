//! C18: input is consumed line by line, no further than the running command needs.
//! Scripts built from units (command lines + the data lines they consume) fed as
//! a file on fd 0, a pipe written in every chunking with <= 2 cuts under explored
//! schedules, a -c string, a dot script and eval; a syntax error planted at every
//! unit boundary.

use crate::common::*;
use crate::vsh::*;
use rayon::prelude::*;
use serde_json::json;
use std::sync::atomic::{AtomicU64, Ordering::Relaxed};

#[derive(Clone, Debug)]
struct Unit {
    /// command lines followed by the data lines the command consumes from the same input
    lines: Vec<&'static str>,
    /// expected markers (main shell), in order
    trace: Vec<&'static str>,
    /// expected bytes on stdout
    out: &'static str,
    /// consumes following input lines as data (only valid for stdin feeds)
    reads_stdin: bool,
    /// if set, the shell stops after this unit with this status class (true = non-zero)
    stops: Option<bool>,
}

fn u(lines: &[&'static str], trace: &[&'static str]) -> Unit {
    Unit { lines: lines.to_vec(), trace: trace.to_vec(), out: "", reads_stdin: false, stops: None }
}

/// Ten lines `args <pad><pattern x 900>` (about 9 KB each) with pads of 0..9 ASCII bytes.
fn long_line_units() -> Vec<Unit> {
    let mut v = vec![u(&["p a"], &["a:0"])];
    for pad in 0..10 {
        let word = format!("{}{}", "a".repeat(pad), "é€😀a".repeat(900));
        let line: &'static str = Box::leak(format!("args {word}").into_boxed_str());
        let trace: &'static str = Box::leak(format!("args[{word}]").into_boxed_str());
        v.push(Unit { lines: vec![line], trace: vec![trace], out: "", reads_stdin: false, stops: None });
    }
    v.push(u(&["p b"], &["b:0"]));
    v
}

fn scripts() -> Vec<(&'static str, Vec<Unit>)> {
    let rd = |mut x: Unit| {
        x.reads_stdin = true;
        x
    };
    let out = |mut x: Unit, o: &'static str| {
        x.out = o;
        x
    };
    vec![
        ("plain", vec![u(&["p a"], &["a:0"]), u(&["p b 3"], &["b:0"]), u(&["p c"], &["c:3"])]),
        (
            "read-next-line",
            vec![
                u(&["p a"], &["a:0"]),
                rd(u(&["read x", "DATA one"], &[])),
                u(&["args \"$x\""], &["args[DATA one]"]),
                u(&["p b"], &["b:0"]),
            ],
        ),
        (
            "read-two-vars-and-rest",
            vec![
                rd(u(&["read x y", "  first  second third  "], &[])),
                u(&["args \"$x\" \"$y\""], &["args[first][second third]"]),
                rd(u(&["{ read x; read y; }", "l1", "l2"], &[])),
                u(&["args \"$x\" \"$y\""], &["args[l1][l2]"]),
            ],
        ),
        (
            "alias-affects-later-line-only",
            vec![
                u(&["alias q='p aliased'; q"], &[]),
                u(&["q"], &["aliased:127"]),
                u(&["alias q='p again'"], &[]),
                u(&["q; unalias q"], &["again:0"]),
                u(&["q"], &[]),
                u(&["p end"], &["end:127"]),
            ],
        ),
        (
            "option-change-affects-later-lines",
            vec![
                u(&["p a"], &["a:0"]),
                u(&["set -e"], &[]),
                u(&["s 0"], &[]),
                Unit { stops: Some(true), ..u(&["s 5"], &[]) },
                u(&["p never"], &["never:0"]),
            ],
        ),
        (
            // the `portable` option changes what the *parser* accepts: the change made by one
            // line must govern the parsing of the following lines of the same input
            "parse-option-on-affects-later-lines",
            vec![
                u(&["p a"], &["a:0"]),
                u(&["x=(1 2)"], &[]),
                u(&["set -o portable; y=(3 4)"], &[]),
                u(&["p b"], &["b:0"]),
                Unit { stops: Some(true), ..u(&["z=(5 6)"], &[]) },
                u(&["p never"], &["never:0"]),
            ],
        ),
        (
            "parse-option-off-affects-later-lines",
            vec![
                u(&["set -o portable"], &[]),
                u(&["p a"], &["a:0"]),
                u(&["set +o portable"], &[]),
                u(&["x=(1 2)"], &[]),
                u(&["case a in (a) p c1 ;;& (*) p c2 ;; esac"], &["c1:0", "c2:0"]),
                u(&["p b"], &["b:0"]),
            ],
        ),
        (
            // very long physical lines made of 2-, 3- and 4-byte characters, with every alignment of the
            // characters relative to any internal buffer boundary: the text must arrive unchanged
            "long-lines-of-multibyte-characters",
            long_line_units(),
        ),
        (
            // a command that redirects the input descriptor twice: afterwards the shell goes on
            // reading the script, not one of the files
            "input-descriptor-redirected-twice",
            vec![
                u(&["p a"], &["a:0"]),
                u(&["read x </tmp/d1 </tmp/d2"], &[]),
                u(&["args \"$x\""], &["args[two]"]),
                rd(u(&["read y", "DATA three"], &[])),
                u(&["args \"$y\""], &["args[DATA three]"]),
                u(&["{ read z; } </tmp/d1 </tmp/d2 0</tmp/d1; args \"$z\""], &["args[p one]"]),
                u(&["f() { read w; }; f </tmp/d2 </tmp/d1 <&0; args \"$w\""], &["args[p one]"]),
                u(&["p end"], &["end:0"]),
            ],
        ),
        (
            "multi-line-compound",
            vec![
                u(&["if s 0", "then", "  p t", "else", "  p e", "fi"], &["t:0"]),
                u(&["while tick v 2", "do", "p w", "done"], &["w:0", "w:0"]),
                u(&["f() {", "p f", "}"], &[]),
                u(&["f"], &["f:0"]),
            ],
        ),
        (
            "here-document",
            vec![
                out(u(&["cat <<E", "body 1", "body 2", "E"], &[]), "body 1\nbody 2\n"),
                u(&["p a"], &["a:0"]),
                out(u(&["cat <<-E; p b", "\tx", "\tE"], &["b:0"]), "x\n"),
                u(&["p c"], &["c:0"]),
            ],
        ),
        (
            "here-document-then-stdin-reader-on-same-line",
            vec![
                out(rd(u(&["cat <<E; read x", "here", "E", "DATA two"], &[])), "here\n"),
                u(&["args \"$x\""], &["args[DATA two]"]),
                out(rd(u(&["{ cat <<E", "h2", "E", "read y; }", "DATA three"], &[])), "h2\n"),
                u(&["args \"$y\""], &["args[DATA three]"]),
            ],
        ),
        (
            "cat-consumes-the-rest",
            vec![
                u(&["p a"], &["a:0"]),
                out(rd(u(&["cat", "p not-run", "more data"], &[])), "p not-run\nmore data\n"),
            ],
        ),
        (
            "line-continuation-and-comments",
            vec![
                u(&["p a \\", "3"], &["a:0"]),
                u(&["# comment line"], &[]),
                u(&["p b # trailing"], &["b:3"]),
                u(&[""], &[]),
                u(&["p c"], &["c:0"]),
            ],
        ),
        (
            "read-inside-loop",
            vec![
                rd(u(&["while tick n 2; do read x; args \"$x\"; done", "i1", "i2"], &["args[i1]", "args[i2]"])),
                u(&["p after"], &["after:0"]),
            ],
        ),
        (
            "subshell-and-pipeline-readers",
            vec![
                rd(u(&["(read x; args \"$x\")", "S1"], &["args[S1]"])),
                u(&["p a"], &["a:0"]),
                rd(u(&["read x | cat", "P1"], &[])),
                u(&["p b"], &["b:0"]),
            ],
        ),
        (
            // a foreground child of a shell without job control stops and is continued later: the
            // command is not complete while it is merely stopped, so the following lines are neither
            // read by the shell nor run before the child has consumed what it needs
            "stopped-child-reads-the-following-line",
            vec![
                u(&["p a"], &["a:0"]),
                rd(u(&["(stopself; read x; args \"$x\")", "S1"], &["args[S1]"])),
                u(&["p b"], &["b:0"]),
                rd(u(&["{ stopself; read y; args \"$y\"; } | cat", "S2"], &["args[S2]"])),
                u(&["p c"], &["c:0"]),
            ],
        ),
        (
            // an asynchronous command of a shell without job control does not read the script, even
            // when it cannot be given /dev/null as its standard input
            "async-reader-without-dev-null",
            vec![
                u(&["p a"], &["a:0"]),
                u(&["cat &"], &[]),
                u(&["wait"], &[]),
                u(&["p b"], &["b:0"]),
                u(&["{ read x; args \"[$x]\"; } & wait"], &["args[[]]"]),
                u(&["p c"], &["c:0"]),
            ],
        ),
        (
            "async-reader",
            vec![
                u(&["p a"], &["a:0"]),
                u(&["cat &"], &[]),
                u(&["wait"], &[]),
                u(&["p b"], &["b:0"]),
                u(&["{ read x; args \"[$x]\"; } & wait"], &["args[[]]"]),
                u(&["p c"], &["c:0"]),
            ],
        ),
        (
            "exit-stops-reading",
            vec![
                u(&["p a"], &["a:0"]),
                Unit { stops: Some(true), ..u(&["exit 7"], &[]) },
                u(&["p never"], &["never:0"]),
            ],
        ),
        (
            "eval-and-dot-inside",
            vec![
                u(&["eval 'p e1", "p e2'"], &["e1:0", "e2:0"]),
                u(&["alias z='p zz'"], &[]),
                u(&["eval z"], &["zz:0"]),
            ],
        ),
    ]
}

#[derive(Clone, Copy, Debug, PartialEq, Eq)]
enum Feed {
    File,
    Pipe,
    CmdString,
    Dot,
    Eval,
}

#[derive(Clone, Debug)]
struct Case {
    name: &'static str,
    text: String,
    /// expected main-shell markers (without `pos` entries)
    trace: Vec<String>,
    /// expected `pos` values for the file feed (offset after each `pos` line)
    pos: Vec<u64>,
    out: String,
    nonzero_exit: bool,
    reads_stdin: bool,
    planted_at: Option<usize>,
    plant_reached: bool,
}

fn build(name: &'static str, units: &[Unit], plant: Option<usize>) -> Case {
    let mut text = String::new();
    let mut trace = vec![];
    let mut pos = vec![];
    let mut out = String::new();
    let mut nonzero = false;
    let mut reads = false;
    let mut stopped = false;
    let mut plant_reached = false;
    for (i, un) in units.iter().enumerate() {
        if plant == Some(i) {
            text.push_str("fi\n");
            if !stopped {
                nonzero = true;
                stopped = true;
                plant_reached = true;
            }
        }
        for l in &un.lines {
            text.push_str(l);
            text.push('\n');
        }
        if !stopped {
            trace.extend(un.trace.iter().map(|s| s.to_string()));
            out.push_str(un.out);
            reads |= un.reads_stdin;
            if let Some(nz) = un.stops {
                stopped = true;
                nonzero = nz;
            }
        }
        // a `pos` probe after every unit (cat-consumes-the-rest swallows it as data)
        if un.lines.first() != Some(&"cat") {
            text.push_str("pos\n");
            if !stopped {
                pos.push(text.len() as u64);
            }
        } else if !stopped {
            stopped = true; // everything after is data for cat
        }
    }
    Case { name, text, trace, pos, out, nonzero_exit: nonzero, reads_stdin: reads, planted_at: plant, plant_reached }
}

fn setup_for(c: &Case, feed: Feed, chunks: Option<Vec<Vec<u8>>>) -> Setup {
    let mut s = match feed {
        Feed::File => {
            let mut s = Setup::default();
            s.argv = vec!["yash".into(), "-s".into()];
            s.stdin = Some(c.text.clone().into_bytes());
            s
        }
        Feed::Pipe => {
            let mut s = Setup::default();
            s.argv = vec!["yash".into(), "-s".into()];
            s.stdin_pipe_chunks = chunks;
            s
        }
        Feed::CmdString => Setup::script(&c.text),
        Feed::Dot => Setup::script(". /tmp/script"),
        Feed::Eval => Setup::script("eval \"$(cat </tmp/script)\""),
    };
    s.files.push(("/tmp/script".into(), c.text.clone().into_bytes(), 0o644));
    // data files whose content would run as commands if the shell mistook them for its input
    s.files.push(("/tmp/d1".into(), b"p one\n".to_vec(), 0o644));
    s.files.push(("/tmp/d2".into(), b"two\n".to_vec(), 0o644));
    s.cwd = Some("/".into());
    // a child that stops itself is continued from outside once everything else is blocked
    s.auto_continue = c.text.contains("stopself");
    s.no_dev_null = c.name.contains("without-dev-null");
    s
}

fn judge(c: &Case, feed: Feed, r: &Run) -> Option<(String, String)> {
    if let Some(p) = &r.panic {
        return Some(("panic".into(), format!("panic: {p}")));
    }
    match &r.end {
        End::Exited(s) => {
            if (*s != 0) != c.nonzero_exit {
                return Some(("status".into(), format!("exit status {s}, expected {}", if c.nonzero_exit { "non-zero" } else { "0" })));
            }
        }
        other => return Some(("end".into(), format!("{other:?}"))),
    }
    // markers of all shell processes in global order (subshell readers included), `pos` separated
    let mut markers = vec![];
    let mut pos = vec![];
    for e in &r.trace {
        if e.pid == 3 && feed == Feed::Pipe {
            continue;
        }
        if let Some(p) = e.text.strip_prefix("pos ") {
            pos.push(p.to_string());
        } else {
            markers.push(e.text.clone());
        }
    }
    let want_full: Vec<String> = c.trace.clone();
    if markers != want_full {
        let key = if markers.len() > want_full.len() { "ran-too-much" } else { "markers" };
        return Some((key.into(), format!("markers {markers:?}, expected {want_full:?}; stderr={:?}", r.stderr)));
    }
    if r.stdout != c.out {
        return Some(("stdout".into(), format!("stdout {:?}, expected {:?}", r.stdout, c.out)));
    }
    if feed == Feed::File {
        let wantp: Vec<String> = c.pos.iter().map(|n| format!("Ok({n})")).collect();
        if pos != wantp {
            return Some(("offset".into(), format!("input offsets after each command {pos:?}, expected {wantp:?}")));
        }
    }
    if c.plant_reached && r.stderr.is_empty() {
        return Some(("no-diagnostic".into(), "syntax error without a diagnostic".into()));
    }
    None
}

/// Cut positions worth trying: around every newline and in the middle of every line.
fn cut_positions(text: &str) -> Vec<usize> {
    let mut v = std::collections::BTreeSet::new();
    let bytes = text.as_bytes();
    let mut start = 0;
    for (i, b) in bytes.iter().enumerate() {
        if *b == b'\n' {
            for p in [i, i + 1] {
                if p > 0 && p < bytes.len() {
                    v.insert(p);
                }
            }
            if i > start + 1 {
                v.insert((start + i) / 2);
            }
            start = i + 1;
        }
    }
    v.into_iter().collect()
}

fn chunkings(text: &str, max_cuts: usize) -> Vec<Vec<Vec<u8>>> {
    let b = text.as_bytes();
    let pos = cut_positions(text);
    let mut out = vec![vec![b.to_vec()]];
    for &a in &pos {
        out.push(vec![b[..a].to_vec(), b[a..].to_vec()]);
    }
    if max_cuts >= 2 {
        for (i, &a) in pos.iter().enumerate() {
            for &c in &pos[i + 1..] {
                out.push(vec![b[..a].to_vec(), b[a..c].to_vec(), b[c..].to_vec()]);
            }
        }
    }
    out
}

pub fn replay(case: &serde_json::Value) -> i32 {
    if let Some(bytes) = case["invalid_utf8_input"].as_array() {
        let text: Vec<u8> = bytes.iter().map(|b| b.as_u64().unwrap() as u8).collect();
        let mut s = Setup::default();
        s.argv = vec!["yash".into(), "-s".into()];
        match case["chunks"].as_array() {
            None => s.stdin = Some(text.clone()),
            Some(c) => s.stdin_pipe_chunks = Some(c.iter().map(|x| x.as_array().unwrap().iter().map(|b| b.as_u64().unwrap() as u8).collect()).collect()),
        }
        s.cwd = Some("/".into());
        let r = run_once(&s, &Default::default());
        println!("input {:?}\nend={:?}\ntrace={:?}\nstderr={}", String::from_utf8_lossy(&text), r.end, r.all_trace(), r.stderr);
        return 1;
    }
    let text = case["text"].as_str().unwrap().to_string();
    let feed = match case["feed"].as_str().unwrap() {
        "File" => Feed::File,
        "Pipe" => Feed::Pipe,
        "CmdString" => Feed::CmdString,
        "Dot" => Feed::Dot,
        _ => Feed::Eval,
    };
    let chunks: Option<Vec<Vec<u8>>> = case["chunks"].as_array().map(|a| a.iter().map(|c| c.as_str().unwrap().as_bytes().to_vec()).collect());
    let c = Case { name: "replay", text, trace: vec![], pos: vec![], out: String::new(), nonzero_exit: false, reads_stdin: false, planted_at: None, plant_reached: false };
    let prefix: Vec<usize> = case["prefix"].as_array().map(|a| a.iter().map(|v| v.as_u64().unwrap() as usize).collect()).unwrap_or_default();
    let r = run_once(&setup_for(&c, feed, chunks), &RunOpts { prefix, ..Default::default() });
    println!("text:\n{}--\nend={:?}\ntrace={:?}\nstdout={:?}\nstderr={}", c.text, r.end, r.all_trace(), r.stdout, r.stderr);
    println!("alive={:?} unreaped={:?} steps={} decisions={}", r.alive, r.unreaped, r.steps, r.decisions.len());
    for (pid, p) in r.state.borrow().processes.iter() {
        println!("  pid {pid}: {:?} fds={:?}", p.state(), p.fds().keys().collect::<Vec<_>>());
    }
    1
}

/// `read` shares the shell's input and is given a line that is not valid UTF-8: every byte
/// sequence class that is invalid or incomplete, followed by 0..4 more bytes of the line. However
/// the built-in fails, it must not take anything beyond the newline of its line: the following
/// lines run as they stand. File on fd 0, and a pipe in one chunk and in every two-chunk cut.
fn read_invalid_utf8(ctx: &Ctx) -> u64 {
    let bads: [&[u8]; 9] = [b"\xE9", b"\x80", b"\xC3", b"\xE2\x82", b"\xF0\x9F", b"\xF0\x9F\x98", b"\xFF", b"\xC0\xAF", b"\xED\xA0\x80"];
    let mut work: Vec<(Vec<u8>, Option<Vec<Vec<u8>>>)> = vec![];
    for bad in bads {
        for head in [&b"caf"[..], &b""[..]] {
            for tail in 0..=4usize {
                let mut text = b"read x\n".to_vec();
                text.extend_from_slice(head);
                text.extend_from_slice(bad);
                text.extend_from_slice(&b"zyxw"[..tail]);
                text.extend_from_slice(b"\nargs after\np end 0\n");
                work.push((text.clone(), None));
                work.push((text.clone(), Some(vec![text.clone()])));
                for cut in 1..text.len() {
                    work.push((text.clone(), Some(vec![text[..cut].to_vec(), text[cut..].to_vec()])));
                }
            }
        }
    }
    work.par_iter().for_each(|(text, chunks)| {
        let mut s = Setup::default();
        s.argv = vec!["yash".into(), "-s".into()];
        match chunks {
            None => s.stdin = Some(text.clone()),
            Some(c) => s.stdin_pipe_chunks = Some(c.clone()),
        }
        s.cwd = Some("/".into());
        let _g = case_guard(format!("read invalid utf8 {text:?}"));
        let r = run_once(&s, &Default::default());
        let tr = r.all_trace();
        let ok = r.panic.is_none() && tr.iter().any(|t| t == "args[after]") && tr.iter().any(|t| t.starts_with("end:"));
        if !ok {
            ctx.violation(
                "c18:read-took-bytes-of-the-next-line",
                &format!("input {:?} (chunks {:?}): the lines after the data line of `read` did not run as they stand: trace {tr:?}, end {:?}, stderr {:?}", String::from_utf8_lossy(text), chunks.as_ref().map(|c| c.iter().map(|x| x.len()).collect::<Vec<_>>()), r.end, r.stderr),
                json!({"invalid_utf8_input": text, "chunks": chunks}),
            );
        }
    });
    work.len() as u64
}

/// "Earlier lines take effect (… option changes)" for the option whose effect *is* the reading of
/// lines: after `set -v` has run, every line the shell reads is written to standard error as it is
/// read, until `set +v` has run — whatever the input is (file on fd 0, a pipe in every two-chunk
/// cut, a script operand, a dot script) and whether or not the shell was started with `-v`.
fn verbose_lines(ctx: &Ctx) -> u64 {
    let cases: [(&str, &str, &str); 4] = [
        ("p a\nset -v\np b\np c\nset +v\np d\n", "p b\np c\nset +v\n", "a:0 b:0 c:0 d:0"),
        ("p a\nset -o verbose\np b; p c\n", "p b; p c\n", "a:0 b:0 c:0"),
        ("set -v\nif s 0; then\np b\nfi\nset +v\np d\n", "if s 0; then\np b\nfi\nset +v\n", "b:0 d:0"),
        ("p a\nset -v\np b\nfi\np never\n", "p b\nfi\n", "a:0 b:0"),
    ];
    // (case, feed: 0 = file on fd 0, 1 = pipe cut at `cut` (0 = one chunk), 2 = script operand, 3 = dot script, cut)
    let mut work: Vec<(usize, u8, usize)> = vec![];
    for (ci, (text, _, _)) in cases.iter().enumerate() {
        work.push((ci, 0, 0));
        for cut in 0..text.len() {
            work.push((ci, 1, cut));
        }
        work.push((ci, 2, 0));
        work.push((ci, 3, 0));
    }
    let build = |ci: usize, kind: u8, cut: usize| -> (String, Setup) {
        let bytes = cases[ci].0.as_bytes().to_vec();
        match kind {
            0 => {
                let mut s = Setup::default();
                s.argv = vec!["yash".into(), "-s".into()];
                s.stdin = Some(bytes);
                ("file on fd 0".into(), s)
            }
            1 => {
                let mut s = Setup::default();
                s.argv = vec!["yash".into(), "-s".into()];
                s.stdin_pipe_chunks = Some(if cut == 0 { vec![bytes.clone()] } else { vec![bytes[..cut].to_vec(), bytes[cut..].to_vec()] });
                (format!("pipe cut at {cut}"), s)
            }
            2 => {
                let mut s = Setup::default();
                s.argv = vec!["yash".into(), "/tmp/script".into()];
                s.files.push(("/tmp/script".into(), bytes, 0o644));
                ("script operand".into(), s)
            }
            _ => {
                let mut s = Setup::script(". /tmp/script");
                s.files.push(("/tmp/script".into(), bytes, 0o644));
                ("dot script".into(), s)
            }
        }
    };
    work.par_iter().for_each(|(ci, kind, cut)| {
        let (text, echoed, markers) = cases[*ci];
        let (feed, mut setup) = build(*ci, *kind, *cut);
        setup.cwd = Some("/".into());
        let _g = case_guard(format!("verbose {feed}: {text}"));
        let r = run_once(&setup, &Default::default());
        let got: Vec<String> = r.all_trace();
        // the diagnostic of the planted syntax error also goes to standard error: compare the
        // echoed lines as a prefix-preserving subsequence (every echoed line, in order, at line starts)
        let mut rest = r.stderr.as_str();
        let mut missing = None;
        for line in echoed.lines() {
            match rest.find(&format!("{line}\n")) {
                Some(i) if i == 0 || rest.as_bytes()[i - 1] == b'\n' => rest = &rest[i + line.len() + 1..],
                _ => {
                    missing = Some(line);
                    break;
                }
            }
        }
        let before_on = text.lines().next().unwrap_or("");
        let early = !before_on.starts_with("set") && r.stderr.lines().any(|l| l == before_on);
        if r.panic.is_some() || got.join(" ") != markers || missing.is_some() || early {
            ctx.violation(
                "c18:verbose-option-change-and-later-lines",
                &format!("{feed}: script {text:?}: markers {got:?} (expected {markers:?}); standard error {:?} must show the lines read after `set -v` ran ({echoed:?}){}", r.stderr, missing.map(|l| format!("; `{l}` is missing")).unwrap_or_default()),
                json!({"verbose_case": ci, "feed": feed}),
            );
        }
    });
    work.len() as u64
}

pub fn run(tier: Tier) -> i32 {
    let ctx = Ctx::new("C18", "model_checking", tier);
    let thorough = tier == Tier::Thorough;
    let mut cases = vec![];
    for (name, units) in scripts() {
        cases.push(build(name, &units, None));
        if name.starts_with("long-lines") {
            continue;
        }
        for k in 1..units.len() {
            cases.push(build(name, &units, Some(k)));
        }
        cases.push(build(name, &units, Some(0)));
    }
    let execs = AtomicU64::new(0);
    let points = AtomicU64::new(0);
    let steps = AtomicU64::new(0);
    let chunkings_n = AtomicU64::new(0);
    let capped = AtomicU64::new(0);
    let samples = Samples::new(6);
    // work items: (case, feed, chunking)
    let mut items: Vec<(usize, Feed, Option<Vec<Vec<u8>>>)> = vec![];
    for (i, c) in cases.iter().enumerate() {
        items.push((i, Feed::File, None));
        if c.name.starts_with("long-lines") {
            // 90 KB through a 1 KB pipe: one chunk and cuts inside the first long line only
            items.push((i, Feed::Pipe, Some(vec![c.text.clone().into_bytes()])));
            for cut in [4095usize, 4096, 4097, 8192] {
                let b = c.text.as_bytes();
                items.push((i, Feed::Pipe, Some(vec![b[..cut].to_vec(), b[cut..].to_vec()])));
            }
        } else {
            for ch in chunkings(&c.text, tier.pick(1, 2)) {
                items.push((i, Feed::Pipe, Some(ch)));
            }
        }
        if !c.reads_stdin {
            items.push((i, Feed::CmdString, None));
            items.push((i, Feed::Dot, None));
            items.push((i, Feed::Eval, None));
        }
    }
    items.par_iter().for_each(|(i, feed, chunks)| {
        let c = &cases[*i];
        let setup = setup_for(c, *feed, chunks.clone());
        let describe = |prefix: &[usize]| {
            json!({"script": c.name, "text": c.text, "feed": format!("{feed:?}"), "planted_before_unit": c.planted_at,
                   "chunks": chunks.as_ref().map(|v| v.iter().map(|b| String::from_utf8_lossy(b).into_owned()).collect::<Vec<_>>()),
                   "prefix": prefix})
        };
        if *feed == Feed::Pipe {
            chunkings_n.fetch_add(1, Relaxed);
            let big = c.name.starts_with("long-lines");
            let ex = Explore { max_dev: if big { 0 } else { tier.pick(1, 2) }, taps: false, cap_runs: tier.pick(60, 400) };
            let stats = explore(&setup, &ex, &RunOpts::default(), |r, prefix| {
                steps.fetch_add(r.steps as u64, Relaxed);
                if let Some((key, what)) = judge(c, *feed, r) {
                    ctx.violation(&format!("c18:{key}"), &what, describe(prefix));
                    return false;
                }
                true
            });
            execs.fetch_add(stats.runs as u64, Relaxed);
            points.fetch_add(stats.decision_points as u64, Relaxed);
            if stats.capped {
                capped.fetch_add(1, Relaxed);
            }
            if thorough && !big && chunks.as_ref().is_some_and(|c| c.len() <= 2) {
                // preemption at syscall boundaries for the single-cut chunkings
                let ex = Explore { max_dev: 1, taps: true, cap_runs: 300 };
                let stats = explore(&setup, &ex, &RunOpts::default(), |r, prefix| {
                    if let Some((key, what)) = judge(c, *feed, r) {
                        ctx.violation(&format!("c18:{key}"), &what, describe(prefix));
                        return false;
                    }
                    true
                });
                execs.fetch_add(stats.runs as u64, Relaxed);
                points.fetch_add(stats.decision_points as u64, Relaxed);
            }
        } else {
            let r = run_once(&setup, &Default::default());
            execs.fetch_add(1, Relaxed);
            steps.fetch_add(r.steps as u64, Relaxed);
            if let Some((key, what)) = judge(c, *feed, &r) {
                ctx.violation(&format!("c18:{key}"), &what, describe(&[]));
            }
        }
        samples.offer(|| describe(&[]));
    });
    let invalid_runs = read_invalid_utf8(&ctx);
    execs.fetch_add(invalid_runs, Relaxed);
    let verbose_runs = verbose_lines(&ctx);
    execs.fetch_add(verbose_runs, Relaxed);
    let cov = json!({
        "read_lines_with_invalid_utf8_runs": invalid_runs,
        "verbose_option_runs": verbose_runs,
        "states": points.load(Relaxed) + execs.load(Relaxed),
        "transitions": steps.load(Relaxed),
        "traces_validated_against_impl": execs.load(Relaxed),
        "samples": samples.take(),
        "scripts": scripts().len(),
        "cases_with_planted_syntax_errors": cases.len(),
        "feed_items": items.len(),
        "pipe_chunkings": chunkings_n.load(Relaxed),
        "pipe_chunkings_capped": capped.load(Relaxed),
        "executions": execs.load(Relaxed),
        "explanation": "each script is a list of units (command lines + the data lines they consume); a syntax error (`fi`) is planted before every unit; each case is fed as a regular file on fd 0 (with a `pos` probe after every unit: the descriptor offset must be exactly after that line), as a pipe written by a separate process in every chunking with <=1 (quick) / <=2 (thorough) cuts at positions around every newline and mid-line, under every schedule with <=1/<=2 deviations (thorough: + syscall-tap preemption), and — for scripts that do not read their own input — as a -c string, a dot script and eval; all feeds must give the unit model's markers, stdout and exit-status class",
    });
    ctx.finish(cov, &["unit expectations are hand-written from POSIX 2.3/2.10 line-by-line semantics", "pipe writer is a separate simulated process yielding between chunks"])
}
