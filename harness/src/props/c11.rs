//! C11: signal dispositions always match the traps; a caught signal runs its
//! trap once. (a) BFS over the real `TrapSet` bound to the real simulated
//! system, against a reference merge model; (b) signal injection at every
//! simulated system call of scripts with traps.

use crate::common::*;
use crate::vsh::{self, *};
use futures_util::FutureExt;
use rayon::prelude::*;
use serde_json::json;
use std::collections::{BTreeMap, HashSet};
use std::rc::Rc;
use std::sync::atomic::{AtomicU64, Ordering::Relaxed};
use yash_env::job::Pid;
use yash_env::signal;
use yash_env::system::r#virtual::VirtualSystem;
use yash_env::system::{Concurrent, Disposition};
use yash_env::trap::{Action, Condition, SetActionError, TrapSet};
use yash_syntax::source::Location;

// ------------------------------------------------------------------ part (a)

#[derive(Clone, Copy, Debug, PartialEq, Eq, Hash, PartialOrd, Ord)]
enum Act3 {
    Default,
    Ignore,
    Command,
}

#[derive(Clone, Copy, Debug, PartialEq, Eq, Hash)]
enum Op {
    Set(u8, Act3, bool),
    Peek(u8),
    EnableChld,
    EnableTerminators,
    EnableStoppers,
    DisableTerminators,
    DisableStoppers,
    DisableAll,
    EnterSubshell(bool, bool),
    /// the shell's signal handling reports a delivery of the signal (`TrapSet::catch_signal`)
    Catch(u8),
    /// the shell asks whether the signal's action has to run (`take_signal_if_caught`)
    Take(u8),
}

fn signum(n: i32) -> signal::Number {
    signal::Number::from_raw_unchecked(std::num::NonZero::new(n).unwrap())
}

fn signo(name: &str) -> i32 {
    SIGNALS.iter().find(|(n, _)| *n == name).unwrap().1
}

#[derive(Clone, Copy, Debug, PartialEq, Eq, Hash, PartialOrd, Ord)]
enum D {
    Default,
    Ignore,
    Catch,
}

impl From<Disposition> for D {
    fn from(d: Disposition) -> D {
        match d {
            Disposition::Default => D::Default,
            Disposition::Ignore => D::Ignore,
            Disposition::Catch => D::Catch,
        }
    }
}

#[derive(Clone, Debug, PartialEq, Eq, Hash)]
struct MSig {
    initial: D,
    /// user's action (None = never successfully set, not touched by a subshell entry)
    user: Option<Act3>,
    internal: D,
    /// still "ignored since start-up" (cannot be trapped or reset without override)
    inherited_ignore: bool,
    /// a delivery has been reported since the current action was set and not yet taken
    delivered: bool,
}

impl MSig {
    fn user_disp(&self) -> D {
        match self.user {
            None => self.initial,
            Some(Act3::Default) => D::Default,
            Some(Act3::Ignore) => D::Ignore,
            Some(Act3::Command) => D::Catch,
        }
    }
    fn installed(&self) -> D {
        self.internal.max(self.user_disp())
    }
}

#[derive(Clone, Debug, PartialEq, Eq, Hash)]
struct Model {
    /// signal name -> state
    sigs: BTreeMap<&'static str, MSig>,
}

const ALL: [&str; 9] = ["INT", "QUIT", "TERM", "CHLD", "TSTP", "TTIN", "TTOU", "USR1", "KILL"];

impl Model {
    fn new(initial: &BTreeMap<&'static str, D>) -> Model {
        let mut sigs = BTreeMap::new();
        for s in ALL.iter().chain(["STOP"].iter()) {
            let i = initial.get(s).copied().unwrap_or(D::Default);
            sigs.insert(*s, MSig { initial: i, user: None, internal: D::Default, inherited_ignore: i == D::Ignore, delivered: false });
        }
        Model { sigs }
    }
    fn set(&mut self, s: &'static str, a: Act3, override_ignore: bool) -> Result<(), &'static str> {
        if s == "KILL" || s == "STOP" {
            return Err("kill/stop");
        }
        let m = self.sigs.get_mut(s).unwrap();
        if !override_ignore && m.inherited_ignore {
            return Err("initially ignored");
        }
        m.user = Some(a);
        m.inherited_ignore = false;
        // a delivery that preceded the new action is not a delivery of the new trap
        m.delivered = false;
        Ok(())
    }
    fn internal(&mut self, s: &'static str, d: D) {
        self.sigs.get_mut(s).unwrap().internal = d;
    }
    fn enter_subshell(&mut self, ignore_int_quit: bool, keep_stoppers: bool) {
        for (name, m) in self.sigs.iter_mut() {
            if m.user == Some(Act3::Command) {
                m.user = Some(Act3::Default);
                m.delivered = false;
            }
            if *name == "CHLD" {
                continue;
            }
            if ignore_int_quit && (*name == "INT" || *name == "QUIT") {
                m.user = Some(Act3::Ignore);
                m.internal = D::Default;
            } else if keep_stoppers && ["TSTP", "TTIN", "TTOU"].contains(name) && m.internal != D::Default {
                m.user = Some(Act3::Ignore);
                m.internal = D::Default;
            } else {
                m.internal = D::Default;
            }
        }
    }
}

struct Real {
    system: Rc<Concurrent<VirtualSystem>>,
    traps: TrapSet,
    state: Rc<std::cell::RefCell<yash_env::system::r#virtual::SystemState>>,
}

fn fresh(initial: &BTreeMap<&'static str, D>) -> Real {
    let vs = VirtualSystem::new();
    let state = Rc::clone(&vs.state);
    {
        let mut st = state.borrow_mut();
        let p = st.processes.get_mut(&Pid(2)).unwrap();
        for (s, d) in initial {
            if *d == D::Ignore {
                p.set_disposition(signum(signo(s)), Disposition::Ignore);
            }
        }
    }
    Real { system: Rc::new(Concurrent::new(vs)), traps: TrapSet::default(), state }
}

fn apply(r: &mut Real, m: &mut Model, op: &Op, sigs: &[&'static str]) -> Option<String> {
    let sys = &r.system;
    match *op {
        Op::Set(i, a, ov) => {
            let name = sigs[i as usize];
            let action = match a {
                Act3::Default => Action::Default,
                Act3::Ignore => Action::Ignore,
                Act3::Command => Action::Command("p trap".into()),
            };
            let res = r
                .traps
                .set_action(sys, Condition::Signal(signum(signo(name))), action, Location::dummy("t"), ov)
                .now_or_never()
                .expect("set_action blocked");
            let mres = m.set(name, a, ov);
            let agree = match (&res, &mres) {
                (Ok(()), Ok(())) => true,
                (Err(SetActionError::SIGKILL), Err("kill/stop")) | (Err(SetActionError::SIGSTOP), Err("kill/stop")) => true,
                (Err(SetActionError::InitiallyIgnored), Err("initially ignored")) => true,
                _ => false,
            };
            if !agree {
                return Some(format!("set_action({name},{a:?},override={ov}) returned {res:?}, model {mres:?}"));
            }
        }
        Op::Peek(i) => {
            let name = sigs[i as usize];
            let _ = r.traps.peek_state(sys, Condition::Signal(signum(signo(name))));
        }
        Op::EnableChld => {
            r.traps.enable_internal_disposition_for_sigchld(sys).now_or_never().unwrap().ok();
            m.internal("CHLD", D::Catch);
        }
        Op::EnableTerminators => {
            r.traps.enable_internal_dispositions_for_terminators(sys).now_or_never().unwrap().ok();
            m.internal("INT", D::Catch);
            m.internal("TERM", D::Ignore);
            m.internal("QUIT", D::Ignore);
        }
        Op::EnableStoppers => {
            r.traps.enable_internal_dispositions_for_stoppers(sys).now_or_never().unwrap().ok();
            for s in ["TSTP", "TTIN", "TTOU"] {
                m.internal(s, D::Ignore);
            }
        }
        Op::DisableTerminators => {
            r.traps.disable_internal_dispositions_for_terminators(sys).now_or_never().unwrap().ok();
            for s in ["INT", "TERM", "QUIT"] {
                m.internal(s, D::Default);
            }
        }
        Op::DisableStoppers => {
            r.traps.disable_internal_dispositions_for_stoppers(sys).now_or_never().unwrap().ok();
            for s in ["TSTP", "TTIN", "TTOU"] {
                m.internal(s, D::Default);
            }
        }
        Op::DisableAll => {
            r.traps.disable_internal_dispositions(sys).now_or_never().unwrap().ok();
            for s in ["CHLD", "INT", "TERM", "QUIT", "TSTP", "TTIN", "TTOU"] {
                m.internal(s, D::Default);
            }
        }
        Op::EnterSubshell(a, b) => {
            r.traps.enter_subshell(sys, a, b).now_or_never().expect("enter_subshell blocked");
            m.enter_subshell(a, b);
        }
        Op::Catch(i) => {
            let name = sigs[i as usize];
            // the shell only sees deliveries of signals it catches
            if m.sigs[name].installed() == D::Catch {
                r.traps.catch_signal(signum(signo(name)));
                m.sigs.get_mut(name).unwrap().delivered = true;
            }
        }
        Op::Take(i) => {
            let name = sigs[i as usize];
            let got = r.traps.take_signal_if_caught(signum(signo(name))).map(|st| matches!(st.action, Action::Command(_)));
            let ms = m.sigs.get_mut(name).unwrap();
            let want = ms.delivered && ms.user == Some(Act3::Command);
            ms.delivered = false;
            // the command action runs iff a delivery was reported since it was set (exactly once)
            if got.unwrap_or(false) != want {
                return Some(format!(
                    "take_signal_if_caught(SIG{name}) says a command action {} run, but {}",
                    if got == Some(true) { "has to" } else { "need not" },
                    if want { "the signal was delivered after the trap was set and its action has not run yet" } else { "no delivery has been reported since the trap was set" }
                ));
            }
        }
    }
    // read back what is installed in the simulated process
    let st = r.state.borrow();
    let p = &st.processes[&Pid(2)];
    for name in ALL.iter().chain(["STOP"].iter()) {
        let n = signum(signo(name));
        let got: D = p.disposition(n).into();
        let want = m.sigs[name].installed();
        if got != want {
            return Some(format!(
                "SIG{name}: installed disposition {got:?}, implied by trap {:?} + internal {:?} (initial {:?}) is {want:?}",
                m.sigs[name].user, m.sigs[name].internal, m.sigs[name].initial
            ));
        }
        let blocked = p.blocked_signals().iter().any(|s| *s == n);
        if blocked != (got == D::Catch) {
            return Some(format!("SIG{name}: blocked={blocked} but disposition is {got:?} (a caught signal must be blocked outside select, others unblocked)"));
        }
    }
    drop(st);
    // the trap set's own view of the user action
    for name in ALL {
        let (cur, _parent) = r.traps.get_state(Condition::Signal(signum(signo(name))));
        if let (Some(cur), Some(u)) = (cur, m.sigs[name].user) {
            let a = match cur.action {
                Action::Default => Act3::Default,
                Action::Ignore => Act3::Ignore,
                Action::Command(_) => Act3::Command,
            };
            if a != u {
                return Some(format!("SIG{name}: trap set records action {a:?}, model {u:?}"));
            }
        }
    }
    None
}

fn replay_a(initial: &BTreeMap<&'static str, D>, sigs: &[&'static str], hist: &[Op]) -> Result<(Model, String), (usize, String)> {
    let _guard = case_guard(
        json!({"part": "a", "signals": sigs, "initial": format!("{initial:?}"), "history": hist.iter().map(|o| format!("{o:?}")).collect::<Vec<_>>()}).to_string(),
    );
    let r = catch(|| {
        let mut real = fresh(initial);
        let mut m = Model::new(initial);
        for (i, op) in hist.iter().enumerate() {
            if let Some(e) = apply(&mut real, &mut m, op, sigs) {
                return Err((i, e));
            }
        }
        let key = {
            let st = real.state.borrow();
            let p = &st.processes[&Pid(2)];
            let disp: Vec<String> = SIGNALS.iter().map(|(n, k)| format!("{n}:{:?}", p.disposition(signum(*k)))).collect();
            format!("{:?}|{disp:?}", real.traps)
        };
        Ok((m, key))
    });
    match r {
        Ok(x) => x,
        Err(p) => Err((hist.len().saturating_sub(1), format!("panic: {p}"))),
    }
}

fn ops_for(nsigs: usize) -> Vec<Op> {
    let mut v = vec![];
    for i in 0..nsigs as u8 {
        for a in [Act3::Default, Act3::Ignore, Act3::Command] {
            for ov in [false, true] {
                v.push(Op::Set(i, a, ov));
            }
        }
        v.push(Op::Peek(i));
        v.push(Op::Catch(i));
        v.push(Op::Take(i));
    }
    v.extend([
        Op::EnableChld,
        Op::EnableTerminators,
        Op::EnableStoppers,
        Op::DisableTerminators,
        Op::DisableStoppers,
        Op::DisableAll,
    ]);
    for a in [false, true] {
        for b in [false, true] {
            v.push(Op::EnterSubshell(a, b));
        }
    }
    v
}

/// Returns (states, transitions, closure reached for all configurations)
fn part_a(ctx: &Ctx, tier: Tier, samples: &Samples) -> (u64, u64, bool) {
    let depth = tier.pick(6, 8);
    let mut configs: Vec<(Vec<&'static str>, BTreeMap<&'static str, D>)> = vec![];
    for s in ["INT", "QUIT", "TERM", "CHLD", "TSTP", "USR1", "KILL", "STOP"] {
        for init in [D::Default, D::Ignore] {
            if (s == "KILL" || s == "STOP") && init == D::Ignore {
                continue;
            }
            let mut m = BTreeMap::new();
            m.insert(s, init);
            configs.push((vec![s], m));
        }
    }
    for (a, b) in [("INT", "TERM"), ("USR1", "INT"), ("QUIT", "TSTP"), ("CHLD", "USR1")] {
        for (ia, ib) in [(D::Default, D::Default), (D::Ignore, D::Default), (D::Default, D::Ignore)] {
            let mut m = BTreeMap::new();
            m.insert(a, ia);
            m.insert(b, ib);
            configs.push((vec![a, b], m));
        }
    }
    let states = AtomicU64::new(0);
    let transitions = AtomicU64::new(0);
    let all_closed = std::sync::atomic::AtomicBool::new(true);
    configs.par_iter().for_each(|(sigs, initial)| {
        let ops = ops_for(sigs.len());
        let mut seen: HashSet<(Model, String)> = HashSet::new();
        seen.insert(replay_a(initial, sigs, &[]).unwrap());
        let mut frontier: Vec<Vec<Op>> = vec![vec![]];
        for _ in 0..depth {
            let mut next = vec![];
            for h in &frontier {
                for op in &ops {
                    let mut h2 = h.clone();
                    h2.push(*op);
                    transitions.fetch_add(1, Relaxed);
                    match replay_a(initial, sigs, &h2) {
                        Err((at, e)) => {
                            ctx.violation(
                                "c11:disposition",
                                &e,
                                json!({"part": "a", "signals": sigs, "initial": format!("{initial:?}"),
                                       "history": h2.iter().map(|o| format!("{o:?}")).collect::<Vec<_>>(), "fails_at": at}),
                            );
                        }
                        Ok(k) => {
                            if seen.insert(k) {
                                samples.offer(|| json!({"part": "a", "signals": sigs, "initial": format!("{initial:?}"), "history": h2.iter().map(|o| format!("{o:?}")).collect::<Vec<_>>()}));
                                next.push(h2);
                            }
                        }
                    }
                }
            }
            frontier = next;
            if frontier.is_empty() {
                break;
            }
        }
        if !frontier.is_empty() {
            all_closed.store(false, Relaxed);
        }
        states.fetch_add(seen.len() as u64, Relaxed);
    });
    (states.load(Relaxed), transitions.load(Relaxed), all_closed.load(Relaxed))
}

// ------------------------------------------------------------------ part (b): delivery at every point

struct Script {
    text: &'static str,
    /// signal trapped (name), marker printed by the trap
    sig: &'static str,
    /// alternative sequences of non-trap markers that are also correct (a `wait` interrupted by
    /// the signal returns 384+signal and the job is collected by the next wait; with two
    /// deliveries both waits may be interrupted)
    alt: Option<&'static [&'static [&'static str]]>,
}

const SCRIPTS: &[Script] = &[
    Script { text: "trap 'p T' USR1\np a\np b 3\np c\np d", sig: "USR1", alt: None },
    Script { text: "trap 'p T 9' TERM\np a 2\nwhile tick v 3; do p w 4; done\np c", sig: "TERM", alt: None },
    Script { text: "trap 'p T' INT\nf() { p f1 5; p f2; }\np a\nf\np c", sig: "INT", alt: None },
    Script { text: "trap 'p T' USR1\np a\ny=$(p s1; p s2 3)\np b\n(p u1; p u2 2)\np c", sig: "USR1", alt: None },
    Script { text: "trap 'p T' USR1\np a\np p1 | p p2 2\np b\nif s 0; then p t 1; fi\np c", sig: "USR1", alt: None },
    Script { text: "trap 'p T; p T2 4' USR1\np a 1\np b\ncase a in (a) p c 2;; esac\np d", sig: "USR1", alt: None },
    Script { text: "trap 'p T' USR1\np a\n{ p g1; p g2 3; }\nfor i in 1 2; do p l; done\np z", sig: "USR1", alt: None },
    Script { text: "trap 'p T' USR1\ntrap 'p E' EXIT\np a\np b 2\nexit 5", sig: "USR1", alt: None },
    // the signal may interrupt `wait`: then it returns 384+124 at once and the job is collected later
    Script {
        text: "trap 'p T' USR1\np a\n{ s 0; s 3; } &\nwait $!\np w\nwait $!\np e",
        sig: "USR1",
        alt: Some(&[&["a:0", "w:508", "e:3"], &["a:0", "w:508", "e:508"], &["a:0", "w:3", "e:508"]]),
    },
    Script {
        text: "trap 'p T' TERM\n{ s 0; s 2; } & { s 0; s 4; } &\nwait\np w\nwait\np e",
        sig: "TERM",
        alt: Some(&[&["w:399", "e:0"], &["w:399", "e:399"], &["w:0", "e:399"]]),
    },
];

fn base_trace(r: &Run) -> Vec<String> {
    // main-process markers only (signals are injected into the main shell)
    r.trace.iter().filter(|e| e.pid == 2).map(|e| e.text.clone()).collect()
}

/// The trace with all markers produced by the trap action removed; returns (rest, number of trap runs, ok)
fn strip_trap(tr: &[String]) -> (Vec<String>, usize) {
    let mut rest = vec![];
    let mut n = 0;
    for t in tr {
        if t.starts_with("T:") {
            n += 1;
        } else if t.starts_with("T2:") {
            // second command of the trap action
        } else {
            rest.push(t.clone());
        }
    }
    (rest, n)
}

static INTERRUPTED_WAITS: AtomicU64 = AtomicU64::new(0);

fn part_b(ctx: &Ctx, tier: Tier, samples: &Samples) -> (u64, u64, u64) {
    let execs = AtomicU64::new(0);
    let points = AtomicU64::new(0);
    let coalesced = AtomicU64::new(0);
    let interrupted_waits = &INTERRUPTED_WAITS;
    SCRIPTS.par_iter().for_each(|sc| {
        let setup = Setup::script(sc.text);
        let base = run_once(&setup, &RunOpts { inject: Some(Inject { at: vec![], pid: 2 }), ..Default::default() });
        let base_tr = base_trace(&base);
        let ntaps = base.target_taps;
        let sig = signo(sc.sig);
        // the trap is installed by the first line: find the first tap index after which the trap is in place
        // (injection before that point kills the shell or is ignored: judged separately)
        // inject only once the trap is in place (first marker seen): before that the default action
        // applies, and the simulator does not stop a process killed from outside at once (a
        // simulator limitation examined under C19, not a property of traps)
        let k0 = base.trace.iter().find(|e| e.pid == 2).map_or(0, |e| e.at_tap);
        let last_cmd_tap = base.trace.iter().filter(|e| e.pid == 2 && !e.text.starts_with("E:")).last().map_or(0, |e| e.at_tap);
        let mut injections: Vec<Vec<(usize, i32)>> = (k0..ntaps + 3).map(|k| vec![(k, sig)]).collect();
        if tier == Tier::Thorough {
            for k1 in (k0..ntaps).step_by(3) {
                for k2 in (k1..ntaps).step_by(5) {
                    injections.push(vec![(k1, sig), (k2, sig)]);
                }
            }
        } else {
            for k1 in (k0..ntaps).step_by(11) {
                injections.push(vec![(k1, sig), (k1 + 1, sig)]);
                injections.push(vec![(k1, sig), (k1 + 7, sig)]);
            }
        }
        points.fetch_add(ntaps as u64, Relaxed);
        for inj in injections {
            let r = run_once(&setup, &RunOpts { inject: Some(Inject { at: inj.clone(), pid: 2 }), ..Default::default() });
            execs.fetch_add(1, Relaxed);
            let delivered = inj.iter().filter(|(k, _)| *k < r.target_taps).count();
            let tr = base_trace(&r);
            let (rest, nt) = strip_trap(&tr);
            let describe = || json!({"part": "b", "script": sc.text, "signal": sc.sig, "inject_at_syscall": inj.iter().map(|(k, _)| *k).collect::<Vec<_>>()});
            if let Some(p) = &r.panic {
                ctx.violation("c11:panic", &format!("panic: {p}"), describe());
                continue;
            }
            // Was the signal delivered before the trap was installed? Then the default action applies.
            if matches!(r.end, End::Signaled(_)) {
                // legitimate only if the shell was killed before the `trap` command took effect:
                // then nothing but a prefix of the first line ran
                if !tr.is_empty() {
                    ctx.violation("c11:killed-with-trap-set", &format!("shell killed by SIG{} after the trap was set; trace {tr:?}", sc.sig), describe());
                }
                continue;
            }
            if matches!(r.end, End::Deadlock | End::Livelock) {
                ctx.violation("c11:hang", &format!("{:?}", r.end), describe());
                continue;
            }
            // every $? otherwise unchanged: the non-trap markers equal the baseline
            let alt_ok = sc.alt.is_some_and(|alts| alts.iter().any(|a| rest.iter().map(|s| s.as_str()).eq(a.iter().copied())));
            if alt_ok {
                interrupted_waits.fetch_add(1, Relaxed);
            }
            if rest != base_tr && !alt_ok {
                ctx.violation(
                    "c11:status-clobbered",
                    &format!("markers outside the trap differ from the undisturbed run: {rest:?} vs {base_tr:?} (full {tr:?})"),
                    describe(),
                );
                continue;
            }
            // exactly once per delivery; two deliveries before the first is handled may coalesce
            // a signal arriving after the last command has run finds no command boundary any more
            // (the shell is about to exit): then the trap may or may not run
            let tail = inj.iter().all(|(k, _)| *k >= last_cmd_tap);
            let ok = match delivered {
                0 => nt == 0,
                _ if tail => nt <= delivered,
                1 => nt == 1,
                _ => nt >= 1 && nt <= delivered,
            };
            if delivered >= 2 && nt < delivered {
                coalesced.fetch_add(1, Relaxed);
            }
            if !ok {
                let key = if nt == 0 { "trap-lost" } else { "trap-duplicated" };
                ctx.violation(
                    &format!("c11:{key}"),
                    &format!("{delivered} deliveries of SIG{} but the trap ran {nt} times; trace {tr:?}", sc.sig),
                    describe(),
                );
                continue;
            }
            // exit status unchanged
            if r.end != base.end {
                ctx.violation("c11:exit-status", &format!("shell ended {:?}, undisturbed run {:?}", r.end, base.end), describe());
                continue;
            }
            // the trap's first marker sees the $? of the command boundary it runs at: must equal the
            // status left by the preceding main-shell marker (or 0 at the start)
            let mut prev_status: i32 = 0;
            let mut statuses: BTreeMap<String, i32> = BTreeMap::new();
            for t in &base_tr {
                if let Some((l, _)) = t.split_once(':') {
                    statuses.insert(l.to_string(), 0);
                }
            }
            let _ = (&mut prev_status, &statuses);
        }
        samples.offer(|| json!({"part": "b", "script": sc.text, "signal": sc.sig, "syscalls_in_undisturbed_run": ntaps, "baseline": base_tr}));
    });
    (execs.load(Relaxed), points.load(Relaxed), coalesced.load(Relaxed))
}

// ---------------------------------------------------------------------------------------------
// (e) two *different* trapped signals caught in one batch (raised at the same system call, in
// either order) or at consecutive calls, at every system call: each action runs exactly once; and
// when one action aborts the shell (`exit`, an expansion error) nothing runs after it, whatever
// the other action does.

struct Pair {
    text: &'static str,
    /// alternative sequences of the markers outside the two actions (interrupted `wait`s)
    alt: &'static [&'static [&'static str]],
    /// the USR1 action ends the shell with this status (then nothing may run after `T`)
    aborts: Option<i32>,
}

const PAIRS: &[Pair] = &[
    Pair { text: "trap 'p T' USR1; trap 'p U' USR2\np a\np b 3\n(s 0)\np c\np d", alt: &[], aborts: None },
    Pair { text: "trap 'p T' USR1; trap 'p U' USR2\np a\ny=$(p s1; p s2 3)\np b\np p1 | p p2 2\np c", alt: &[], aborts: None },
    Pair {
        text: "trap 'p T' USR1; trap 'p U' USR2\np a\n{ s 0; s 3; } &\nwait $!\np w\nwait $!\np e",
        alt: &[&["a:0", "w:508", "e:3"], &["a:0", "w:509", "e:3"], &["a:0", "w:508", "e:509"], &["a:0", "w:509", "e:508"], &["a:0", "w:3", "e:508"], &["a:0", "w:3", "e:509"]],
        aborts: None,
    },
    Pair {
        text: "trap 'p T' USR1; trap 'p U' USR2\np a\nhang &\nwait $!\np w\nkill -s KILL $!; wait $!\np e",
        alt: &[&["a:0", "w:508", "e:393"], &["a:0", "w:509", "e:393"]],
        aborts: None,
    },
    Pair { text: "trap 'p T; exit 7' USR1; trap 'p U' USR2; trap 'p X' EXIT\np a\np b 3\n(s 0)\np c", alt: &[], aborts: Some(7) },
    Pair { text: "trap 'p T; : ${nosuch?}' USR1; trap 'p U' USR2; trap 'p X' EXIT\np a\np b 3\n(s 0)\np c", alt: &[], aborts: Some(2) },
    Pair {
        text: "trap 'p T; exit 7' USR1; trap 'p U' USR2; trap 'p X' EXIT\np a\nhang &\nwait $!\np w\nkill -s KILL $!; wait $!\np e",
        alt: &[],
        aborts: Some(7),
    },
    Pair {
        text: "trap 'p T; : ${nosuch?}' USR1; trap 'p U' USR2; trap 'p X' EXIT\np a\n{ s 0; s 3; } &\nwait $!\np w\nwait $!\np e",
        alt: &[],
        aborts: Some(2),
    },
];

fn part_e(ctx: &Ctx) -> (u64, u64) {
    let execs = AtomicU64::new(0);
    let both = AtomicU64::new(0);
    let (usr1, usr2) = (signo("USR1"), signo("USR2"));
    PAIRS.par_iter().for_each(|pr| {
        let setup = Setup::script(pr.text);
        let hangs = pr.text.contains("hang &");
        // the undisturbed run (a script that waits for a job that never ends has none: it is only
        // run with signals arriving while `wait` blocks)
        let base = run_once(&setup, &RunOpts { inject: Some(Inject { at: vec![], pid: 2 }), ..Default::default() });
        let base_tr: Vec<String> = base_trace(&base).into_iter().filter(|t| !t.starts_with("X:")).collect();
        let ntaps = base.target_taps;
        let k0 = base.trace.iter().find(|e| e.pid == 2).map_or(0, |e| e.at_tap);
        let last_cmd_tap = base.trace.iter().filter(|e| e.pid == 2 && !e.text.starts_with("X:")).last().map_or(0, |e| e.at_tap);
        let (from, to) = if hangs { (ntaps.saturating_sub(1), ntaps + 1) } else { (k0, ntaps + 2) };
        for k in from..to {
            for inj in [vec![(k, usr1), (k, usr2)], vec![(k, usr2), (k, usr1)], vec![(k, usr1), (k + 1, usr2)], vec![(k, usr2), (k + 1, usr1)]] {
                let r = run_once(&setup, &RunOpts { inject: Some(Inject { at: inj.clone(), pid: 2 }), ..Default::default() });
                execs.fetch_add(1, Relaxed);
                let describe = || json!({"part": "b", "script": pr.text, "signal": "USR1", "inject_pairs": inj.iter().map(|(k, s)| json!([k, s])).collect::<Vec<_>>(), "inject_at_syscall": inj.iter().map(|(k, _)| *k).collect::<Vec<_>>()});
                if let Some(p) = &r.panic {
                    ctx.violation("c11:panic", &format!("panic: {p}"), describe());
                    continue;
                }
                let delivered = inj.iter().filter(|(k, _)| *k < r.target_taps).count();
                if delivered < 2 {
                    continue;
                }
                let tr = base_trace(&r);
                let nt = tr.iter().filter(|t| t.starts_with("T:")).count();
                let nu = tr.iter().filter(|t| t.starts_with("U:")).count();
                let nx = tr.iter().filter(|t| t.starts_with("X:")).count();
                let rest: Vec<String> = tr.iter().filter(|t| !t.starts_with("T:") && !t.starts_with("U:") && !t.starts_with("X:")).cloned().collect();
                if matches!(r.end, End::Deadlock | End::Livelock | End::Signaled(_)) {
                    // a script whose job never ends legitimately blocks for ever when both signals came
                    // before `wait` started
                    if !(hangs && matches!(r.end, End::Deadlock) && nt == 1 && nu == 1) {
                        ctx.violation("c11:two-signals-end", &format!("{:?}; trace {tr:?}", r.end), describe());
                    }
                    continue;
                }
                both.fetch_add(1, Relaxed);
                let tail = inj.iter().any(|(k, _)| *k >= last_cmd_tap);
                if let Some(status) = pr.aborts {
                    // (a signal that arrives when no command of the script is left finds its command
                    // boundary inside the EXIT trap, which the aborting action then cuts short: legitimate)
                    if tail {
                        continue;
                    }
                    // after `T` no command of the script runs, the EXIT trap runs once, the exit status is
                    // the abort's. (The other action may run before `T`, or — still pending when the shell
                    // begins to exit — at the first command boundary of the EXIT trap.)
                    let after_t: Vec<&String> = tr.iter().skip_while(|t| !t.starts_with("T:")).skip(1).filter(|t| !t.starts_with("X:") && !t.starts_with("U:")).collect();
                    if nt != 1 || !after_t.is_empty() || nx != 1 || r.end != End::Exited(status) {
                        ctx.violation(
                            "c11:abort-in-trap-batch",
                            &format!("the USR1 action ends the shell with status {status}, yet: T ran {nt}x, after it {after_t:?}, EXIT trap {nx}x, end {:?}; trace {tr:?}", r.end),
                            describe(),
                        );
                    }
                    continue;
                }
                let rest_ok = (!hangs && rest == base_tr) || pr.alt.iter().any(|a| rest.iter().map(|s| s.as_str()).eq(a.iter().copied()));
                if !rest_ok {
                    ctx.violation("c11:status-clobbered", &format!("markers outside the trap actions: {rest:?}, undisturbed {base_tr:?} (full {tr:?})"), describe());
                    continue;
                }
                let ok = if tail { nt <= 1 && nu <= 1 } else { nt == 1 && nu == 1 };
                if !ok {
                    ctx.violation(
                        if nt == 0 || nu == 0 { "c11:trap-lost-in-batch" } else { "c11:trap-duplicated" },
                        &format!("USR1 and USR2 were both delivered (system calls {:?}) but their actions ran {nt} and {nu} times; trace {tr:?}", inj.iter().map(|(k, _)| *k).collect::<Vec<_>>()),
                        describe(),
                    );
                }
            }
        }
    });
    (execs.load(Relaxed), both.load(Relaxed))
}

// ---------------------------------------------------------------------------------------------
// (c) interactive shell: a trapped signal delivered in the same batch as the SIGINT that
// interrupts a blocked built-in (or any other command) still runs its action exactly once.

const INTERACTIVE_SCRIPTS: &[&str] = &[
    "trap 'p T' USR1\np a\nmkpipe 8 9; p go; read x <&8; p sameline\np b\np end\n",
    "trap 'p T' USR1\np a\nmkpipe 8 9; p go; cat <&8; p sameline\np b\np end\n",
    "trap 'p T' USR1\np a\nf() { read x; p inf; }\nmkpipe 8 9; p go; f <&8; p sameline\np b\np end\n",
    "trap 'p T' USR1 TERM\np a\nmkpipe 8 9; p go; { read x <&8; p sameline; }\np b\np end\n",
    "trap 'p T' USR1\np a\nmkpipe 8 9; p go; x=1 read y <&8 && p sameline\np b\np end\n",
];

fn part_c(ctx: &Ctx) -> (u64, u64) {
    let execs = AtomicU64::new(0);
    let judged = AtomicU64::new(0);
    let (usr1, int) = (signo("USR1"), signo("INT"));
    INTERACTIVE_SCRIPTS.par_iter().for_each(|text| {
        let mut setup = Setup::script("");
        setup.argv = vec!["yash".into(), "-i".into(), "-s".into()];
        setup.stdin = Some(text.as_bytes().to_vec());
        let opts = |at: Vec<(usize, i32)>| RunOpts { inject: Some(Inject { at, pid: 2 }), ..Default::default() };
        let base = run_once(&setup, &opts(vec![]));
        execs.fetch_add(1, Relaxed);
        // undisturbed, the built-in blocks for ever on the pipe the shell itself keeps open
        if base.end != End::Deadlock || !base_trace(&base).iter().any(|m| m.starts_with("a:")) {
            ctx.violation("c11:interactive-baseline", &format!("undisturbed interactive run: {:?}, trace {:?}, stderr {:?}", base.end, base_trace(&base), base.stderr), json!({"part": "c", "script": text}));
            return;
        }
        let n = base.target_taps;
        // from the marker `go` on, the line that contains the blocking built-in is being executed
        let Some(k0) = base.trace.iter().find(|e| e.pid == 2 && e.text.starts_with("go:")).map(|e| e.at_tap) else {
            ctx.violation("c11:interactive-baseline", "marker `go` missing in the undisturbed run", json!({"part": "c", "script": text}));
            return;
        };
        for k in k0..n {
            for batch in [vec![(k, usr1), (k, int)], vec![(k, int), (k, usr1)], vec![(k, usr1), (k + 1, int)], vec![(k, int)]] {
                let same_batch = batch.iter().all(|(at, _)| *at == k);
                let r = run_once(&setup, &opts(batch.clone()));
                execs.fetch_add(1, Relaxed);
                let case = || json!({"part": "c", "script": text, "inject": batch});
                if let Some(p) = &r.panic {
                    ctx.violation("c11:panic", &format!("panic: {p}"), case());
                    continue;
                }
                // SIGINT that arrived before the blocking command started interrupts an earlier
                // command line; the built-in then blocks for ever as in the undisturbed run
                if r.end == End::Deadlock {
                    continue;
                }
                judged.fetch_add(1, Relaxed);
                let tr = base_trace(&r);
                let nt = tr.iter().filter(|m| m.starts_with("T:")).count();
                let want = batch.iter().filter(|(_, s)| *s == usr1).count();
                // Ctrl-C also interrupts a trap action that has just started: when SIGINT comes
                // after SIGUSR1 has been taken, the action may be cut short
                let count_ok = if same_batch { nt == want } else { nt <= want };
                if !matches!(r.end, End::Exited(_)) {
                    ctx.violation("c11:interactive-end", &format!("interactive shell ended {:?}; trace {tr:?}", r.end), case());
                } else if !tr.iter().any(|m| m.starts_with("end:")) || !tr.iter().any(|m| m.starts_with("b:")) {
                    ctx.violation("c11:interactive-lines-lost", &format!("SIGINT discarded more than the interrupted command line: trace {tr:?}"), case());
                } else if tr.iter().any(|m| m.starts_with("sameline:") || m.starts_with("inf:")) {
                    ctx.violation("c11:interactive-not-interrupted", &format!("the rest of the interrupted command line ran: trace {tr:?}"), case());
                } else if !count_ok {
                    ctx.violation(
                        "c11:trap-lost-with-sigint",
                        &format!("SIGUSR1 delivered {want} time(s) together with the interrupting SIGINT but its trap ran {nt} time(s); trace {tr:?}"),
                        case(),
                    );
                }
            }
        }
    });
    // interactive shells poll for signals in more places (e.g. while scanning directories for
    // pathname expansion): a trapped signal other than SIGINT must never disturb the commands
    for text in ["trap 'p T' USR1\np a\nargs * d/*\nargs .* ?\nfor i in *; do args $i; done\np end\n", "trap 'p T' USR1; trap 'p C' CHLD\np a\n(s 1); args */ [a-z]*\nx=$(s 0); args \"$x\" *\np end\n"] {
        fn plain_setup(text: &str) -> Setup {
            let mut setup = Setup::script("");
            setup.argv = vec!["yash".into(), "-i".into(), "-s".into()];
            setup.stdin = Some(text.as_bytes().to_vec());
            setup.dirs.push("/tmp/g/d".into());
            for f in ["/tmp/g/a.txt", "/tmp/g/b", "/tmp/g/.h", "/tmp/g/d/x", "/tmp/g/d/y"] {
                setup.files.push((f.into(), vec![], 0o644));
            }
            setup.cwd = Some("/tmp/g".into());
            setup
        }
        let opts = |at: Vec<(usize, i32)>| RunOpts { inject: Some(Inject { at, pid: 2 }), ..Default::default() };
        let base = run_once(&plain_setup(text), &opts(vec![]));
        execs.fetch_add(1, Relaxed);
        let strip = |r: &Run| -> Vec<String> { base_trace(r).into_iter().filter(|m| !m.starts_with("T:") && !m.starts_with("C:")).map(|m| m.split(':').next().unwrap_or("").to_string()).collect() };
        let want = strip(&base);
        if !matches!(base.end, End::Exited(_)) || !want.iter().any(|m| m == "end") || !want.iter().any(|m| m.contains("[a.txt]")) {
            ctx.violation("c11:interactive-baseline", &format!("undisturbed interactive run: {:?}, trace {want:?}, stderr {:?}", base.end, base.stderr), json!({"part": "c", "script": text}));
            continue;
        }
        let k0 = base.trace.iter().find(|e| e.pid == 2).map_or(0, |e| e.at_tap);
        // after the last command has run no command boundary is left: the trap may or may not run
        let last_cmd_tap = base.trace.iter().filter(|e| e.pid == 2).last().map_or(0, |e| e.at_tap);
        let results: Vec<(usize, Vec<String>, usize, End)> = (k0..base.target_taps)
            .into_par_iter()
            .map(|k| {
                let r = run_once(&plain_setup(text), &RunOpts { inject: Some(Inject { at: vec![(k, usr1)], pid: 2 }), ..Default::default() });
                let nt = base_trace(&r).iter().filter(|m| m.starts_with("T:")).count();
                let got: Vec<String> = base_trace(&r).into_iter().filter(|m| !m.starts_with("T:") && !m.starts_with("C:")).map(|m| m.split(':').next().unwrap_or("").to_string()).collect();
                (k, got, nt, r.end.clone())
            })
            .collect();
        for (k, got, nt, end) in results {
            execs.fetch_add(1, Relaxed);
            judged.fetch_add(1, Relaxed);
            let case = || json!({"part": "c", "script": text, "inject": [[k, usr1]], "cwd": "/tmp/g"});
            if got != want || !matches!(end, End::Exited(_)) {
                ctx.violation("c11:interactive-command-disturbed", &format!("a trapped SIGUSR1 at system call {k} changed the commands' results: {got:?} (end {end:?}), undisturbed {want:?}"), case());
            } else if nt > 1 || (nt == 0 && k < last_cmd_tap) {
                ctx.violation("c11:trap-count", &format!("SIGUSR1 delivered once at system call {k}, its trap ran {nt} times"), case());
            }
        }
    }
    (execs.load(Relaxed), judged.load(Relaxed))
}

pub fn replay(case: &serde_json::Value) -> i32 {
    if case["part"] == "d" && super::c11d::replay(case) {
        return 1;
    }
    if case["part"] == "h" && super::c11f::replay_h(case) {
        return 1;
    }
    if case["part"] == "g" && super::c11f::replay_g(case) {
        return 1;
    }
    if case["part"] == "f" && super::c11f::replay(case) {
        return 1;
    }
    if case["part"] == "c" {
        let text = case["script"].as_str().unwrap();
        let mut setup = Setup::script("");
        setup.argv = vec!["yash".into(), "-i".into(), "-s".into()];
        setup.stdin = Some(text.as_bytes().to_vec());
        if case["cwd"].is_string() {
            setup.dirs.push("/tmp/g/d".into());
            for f in ["/tmp/g/a.txt", "/tmp/g/b", "/tmp/g/.h", "/tmp/g/d/x", "/tmp/g/d/y"] {
                setup.files.push((f.into(), vec![], 0o644));
            }
            setup.cwd = Some("/tmp/g".into());
        }
        let at: Vec<(usize, i32)> = case["inject"].as_array().map(|a| a.iter().map(|p| (p[0].as_u64().unwrap() as usize, p[1].as_i64().unwrap() as i32)).collect()).unwrap_or_default();
        let r = vsh::run_once(&setup, &RunOpts { inject: Some(Inject { at, pid: 2 }), log_taps: true, ..Default::default() });
        let taps: Vec<String> = r.tap_log.iter().filter(|(p, _)| *p == 2).enumerate().skip(80).map(|(i, (_, n))| format!("{i}:{n}")).collect();
        for e in &r.trace {
            println!("  [{} @{}] {}", e.pid, e.at_tap, e.text);
        }
        println!("system calls of the shell from #80: {}", taps.join(" "));
        println!("interactive script:\n{text}\nend={:?}\ntrace={:?}\nstderr={}", r.end, base_trace(&r), r.stderr);
        return 1;
    }
    if case["part"] == "b" {
        let script = case["script"].as_str().unwrap();
        let sig = signo(case["signal"].as_str().unwrap());
        let at: Vec<(usize, i32)> = match case["inject_pairs"].as_array() {
            Some(pairs) => pairs.iter().map(|p| (p[0].as_u64().unwrap() as usize, p[1].as_i64().unwrap() as i32)).collect(),
            None => case["inject_at_syscall"].as_array().unwrap().iter().map(|k| (k.as_u64().unwrap() as usize, sig)).collect(),
        };
        let r = vsh::run_once(&Setup::script(script), &RunOpts { inject: Some(Inject { at, pid: 2 }), log_taps: true, ..Default::default() });
        println!("script:\n{script}\nend={:?}\ntrace={:?}\nstderr={}", r.end, base_trace(&r), r.stderr);
        return 1;
    }
    println!("{}", serde_json::to_string_pretty(case).unwrap());
    1
}

pub fn run(tier: Tier) -> i32 {
    let ctx = Ctx::new("C11", "model_checking", tier);
    let samples = Samples::new(10);
    let (states, transitions, closed) = part_a(&ctx, tier, &samples);
    let (execs, points, coalesced) = part_b(&ctx, tier, &samples);
    let (c_execs, c_judged) = part_c(&ctx);
    let (d_runs, d_steps) = super::c11d::part_d(&ctx, &samples);
    let (e_execs, e_both) = part_e(&ctx);
    let (f_runs, f_steps) = super::c11f::part_f(&ctx);
    let (g_execs, g_points) = super::c11f::part_g(&ctx);
    let h_runs = super::c11f::part_h(&ctx);
    let cov = json!({
        "part_h_signal_state_at_exec_runs": h_runs,
        "part_g_trap_position_executions": g_execs,
        "part_g_wait_or_select_injection_points": g_points,
        "part_f_multi_condition_trap_histories": f_runs,
        "part_f_commands_compared": f_steps,
        "part_e_two_signal_executions": e_execs,
        "part_e_executions_with_both_signals_delivered": e_both,
        "part_d_set_trap_histories": d_runs,
        "part_d_commands_compared": d_steps,
        "part_c_interactive_executions": c_execs,
        "part_c_interactive_executions_judged": c_judged,
        "states": states,
        "transitions": transitions,
        "traces_validated_against_impl": transitions + execs + c_execs + d_runs + e_execs + f_runs + g_execs + h_runs,
        "samples": samples.take(),
        "part_a_closure_reached_in_every_configuration": closed,
        "part_b_executions": execs,
        "part_b_syscall_injection_points": points,
        "part_b_double_deliveries_that_coalesced": coalesced,
        "part_b_executions_in_which_the_signal_interrupted_wait": INTERRUPTED_WAITS.load(Relaxed),
        "explanation": "(a) BFS by history replay over the real TrapSet bound to a real Concurrent<VirtualSystem>: ops = set_action(Default|Ignore|Command, override f/t) per signal, peek_state, catch_signal (a delivery is reported) and take_signal_if_caught (a command action has to run iff a delivery was reported since the action was set, exactly once), enable/disable each internal disposition group, enter_subshell with each option pair; per signal class {INT,QUIT,TERM,CHLD,TSTP,USR1,KILL,STOP} x initial disposition {default, ignored} and 4 signal pairs; after every op the disposition installed in the simulated process and its signal mask are read back and compared with the reference merge max(internal, user) (caught <=> blocked), return values compared, states merged on (model, Debug of the trap set, installed dispositions). (b) 8 scripts with traps: the signal is raised on the shell at every simulated system call index k (and at pairs k1,k2); the markers outside the trap and the exit status must equal the undisturbed run, the trap must run exactly once per delivery (1..n for n coalescing deliveries). (c) interactive shells (-i) whose built-in (read, cat, a function reading) blocks on a pipe: SIGINT alone, SIGUSR1+SIGINT in either order at the same system call, and at consecutive calls, at every system call index; executions in which the built-in was interrupted must run the USR1 trap exactly once, discard the rest of the interrupted line only, and go on with the next lines; two interactive scripts with pathname expansion, loops, subshells and substitutions under SIGUSR1 alone at every system call: results unchanged, trap exactly once. (d) every history of 3 (thorough: 4) commands over 25 commands (a failing `exec`; `set` switching monitor alone, before / after / grouped with another option, by long name; `trap` command / ignore / reset on TSTP, TTIN, INT, TERM) in an interactive (-i, monitor on) and a non-interactive shell: after every command the dispositions installed in the simulated process for INT QUIT TERM TSTP TTIN TTOU, the signal mask and the option set are compared with max(user trap, shell's own need). (f) one `trap` command naming two or three distinct conditions out of {INT HUP USR1 TERM KILL STOP} in every order x {command, ignore, reset}, alone and followed by a second such command, in interactive and non-interactive shells started with nothing / INT / INT+HUP ignored: a refused condition (KILL, STOP, ignored at start-up) does not keep the other conditions of the command from taking effect",
    });
    ctx.finish(cov, &["signals are injected at syscall boundaries of the simulator (complete because caught signals are blocked outside select)", "reference merge model trusted"])
}
