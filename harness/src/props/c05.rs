//! C05: pathname expansion returns exactly the existing matching paths, sorted.
//! All small directory trees × all short fields with every quoting mask,
//! against a walk-and-match reference (`refglob`).

use crate::common::*;
use crate::props::c04::{At, Item, PC, Parsed, parse as parse_pattern};
use futures_util::FutureExt;
use rayon::prelude::*;
use serde_json::json;
use std::cell::RefCell;
use std::collections::BTreeMap;
use std::rc::Rc;
use std::str::FromStr;
use std::sync::atomic::{AtomicU64, Ordering::Relaxed};
use yash_env::Env;
use yash_env::option::{Option as ShOpt, State};
use yash_env::system::Concurrent;
use yash_env::system::Mode;
use yash_env::system::r#virtual::{FileBody, Inode, VirtualSystem};
use yash_env::variable::Scope;
use yash_semantics::expansion::expand_words;
use yash_syntax::syntax::Word;

#[derive(Clone, Copy, Debug, PartialEq, Eq, Hash, PartialOrd, Ord)]
enum Ent {
    File(&'static str),
    Dir(&'static str),
    /// (path, target)
    Link(&'static str, &'static str),
    /// a directory that can be read but not searched (mode rw-------), holding one file `a`
    Locked(&'static str),
}

const ENTRIES: &[Ent] = &[
    Ent::File("a"),
    Ent::File("b"),
    Ent::File("ab"),
    Ent::File(".a"),
    Ent::File(".b"),
    Ent::File("-"),
    Ent::File("["),
    Ent::File("*"),
    Ent::File("a]"),
    Ent::Dir("sub"),
    Ent::File("sub/a"),
    Ent::File("sub/.a"),
    Ent::File("sub/sub2/a"),
    Ent::File("sub.x/a"),
    Ent::File("sub-/b"),
    Ent::File("\\a"),
    Ent::File("\\"),
    Ent::File("é"),
    Ent::File("éa"),
    Ent::Link("lnk", "a"),
    Ent::Link("dlnk", "sub"),
    // stat fails with something other than "not found" below these
    Ent::Link("loop", "loop"),
    Ent::Locked("lck"),
];

/// The reference tree: path (relative to the root /t) -> node kind
#[derive(Clone, Debug, PartialEq, Eq)]
enum Node {
    File,
    Dir,
    Link(String),
    /// directory without search permission: its entries can be listed, nothing below it can be reached
    Locked,
}

fn build_tree(ents: &[Ent]) -> BTreeMap<String, Node> {
    let mut t = BTreeMap::new();
    let mut add_parents = |t: &mut BTreeMap<String, Node>, p: &str| {
        let mut acc = String::new();
        let parts: Vec<&str> = p.split('/').collect();
        for part in &parts[..parts.len() - 1] {
            if !acc.is_empty() {
                acc.push('/');
            }
            acc.push_str(part);
            t.entry(acc.clone()).or_insert(Node::Dir);
        }
    };
    for e in ents {
        match e {
            Ent::File(p) => {
                add_parents(&mut t, p);
                t.insert(p.to_string(), Node::File);
            }
            Ent::Dir(p) => {
                add_parents(&mut t, p);
                t.insert(p.to_string(), Node::Dir);
            }
            Ent::Link(p, target) => {
                t.insert(p.to_string(), Node::Link(target.to_string()));
            }
            Ent::Locked(p) => {
                t.insert(p.to_string(), Node::Locked);
                t.insert(format!("{p}/a"), Node::File);
            }
        }
    }
    t
}

/// Resolves a path (relative to /t, "" = the root) following symlinks; returns the node kind.
fn resolve(tree: &BTreeMap<String, Node>, path: &str) -> Option<Node> {
    if path.is_empty() {
        return Some(Node::Dir);
    }
    let mut cur = String::new();
    for comp in path.split('/') {
        if comp.is_empty() {
            continue;
        }
        // cur must be a directory
        if !cur.is_empty() {
            match tree.get(&cur)? {
                Node::Dir => {}
                _ => return None,
            }
        }
        if comp == "." {
            continue;
        }
        if comp == ".." {
            // `cur` is canonical (links are replaced by their targets): the parent is lexical.
            // (Paths that climb above the tree root are filtered out by the caller.)
            if !cur.is_empty() && !matches!(tree.get(&cur)?, Node::Dir) {
                return None;
            }
            cur = cur.rsplit_once('/').map(|(p, _)| p.to_string()).unwrap_or_default();
            continue;
        }
        let next = if cur.is_empty() { comp.to_string() } else { format!("{cur}/{comp}") };
        match tree.get(&next)? {
            Node::Link(target) => {
                // links are only at the top level and point to top-level names; a link to a link
                // (here: to itself) never resolves
                cur = target.clone();
                if matches!(tree.get(&cur)?, Node::Link(_)) {
                    return None;
                }
            }
            _ => cur = next,
        }
    }
    if cur.is_empty() {
        return Some(Node::Dir);
    }
    tree.get(&cur).cloned()
}

fn children(tree: &BTreeMap<String, Node>, dir: &str) -> Vec<String> {
    // dir is a resolved real directory path ("" = root)
    tree.keys()
        .filter_map(|k| {
            let rest = if dir.is_empty() { Some(k.as_str()) } else { k.strip_prefix(&format!("{dir}/")) }?;
            (!rest.contains('/')).then(|| rest.to_string())
        })
        .collect()
}

fn real_dir(tree: &BTreeMap<String, Node>, path: &str) -> Option<String> {
    // returns the canonical directory path of `path` if it is (a link to) a directory
    if path.is_empty() {
        return Some(String::new());
    }
    let mut cur = String::new();
    for comp in path.split('/').filter(|c| !c.is_empty() && *c != ".") {
        if comp == ".." {
            if !cur.is_empty() && !matches!(tree.get(&cur)?, Node::Dir) {
                return None;
            }
            cur = cur.rsplit_once('/').map(|(p, _)| p.to_string()).unwrap_or_default();
            continue;
        }
        let next = if cur.is_empty() { comp.to_string() } else { format!("{cur}/{comp}") };
        match tree.get(&next)? {
            Node::Link(t) => cur = t.clone(),
            _ => cur = next,
        }
    }
    if cur.is_empty() {
        return Some(cur);
    }
    // (a directory without search permission can still be listed)
    matches!(tree.get(&cur)?, Node::Dir | Node::Locked).then_some(cur)
}

fn comp_match(ast: &[At], name: &str) -> bool {
    fn m(p: &[At], s: &[char]) -> bool {
        match p.first() {
            None => s.is_empty(),
            Some(At::Star) => (0..=s.len()).any(|k| m(&p[1..], &s[k..])),
            Some(a) => {
                if s.is_empty() {
                    return false;
                }
                let c = s[0];
                let ok = match a {
                    At::Lit(l) => *l == c,
                    At::Any => true,
                    At::Br { neg, items } => {
                        items.iter().any(|it| match it {
                            Item::Ch(x) => *x == c,
                            Item::Range(a, b) => *a <= c && c <= *b,
                            Item::Class(n) => crate::props::c04::class(n, c),
                        }) != *neg
                    }
                    At::Star => unreachable!(),
                };
                ok && m(&p[1..], &s[1..])
            }
        }
    }
    m(ast, &name.chars().collect::<Vec<_>>())
}

enum Ref {
    Paths(Vec<String>),
    Unspecified,
}

/// refglob: `field` = pattern characters with their literal (quoted) flag; cwd relative to /t.
fn refglob(tree: &BTreeMap<String, Node>, field: &[PC], cwd: &str, noglob: bool) -> Ref {
    let plain: String = field.iter().map(|p| p.0).collect();
    let active = field.iter().any(|(c, lit)| !lit && matches!(c, '*' | '?' | '['));
    // a quoted hyphen inside a bracket expression: dash, bash and yash all still form a range
    // while XCU 2.14 can be read either way -> unspecified
    if active && field.iter().any(|(c, lit)| *lit && *c == '-') && field.iter().any(|(c, lit)| !lit && *c == '[') {
        return Ref::Unspecified;
    }
    if noglob || !active {
        return Ref::Paths(vec![plain]);
    }
    // split into components at every slash
    let mut comps: Vec<Vec<PC>> = vec![vec![]];
    for pc in field {
        if pc.0 == '/' {
            comps.push(vec![]);
        } else {
            comps.last_mut().unwrap().push(*pc);
        }
    }
    let absolute = field.first().is_some_and(|p| p.0 == '/');
    // partial results: (printed prefix, real directory path or None if the prefix is not a directory)
    let start_dir = if absolute { None } else { Some(cwd.to_string()) };
    if absolute {
        // absolute patterns are not generated (the tree lives under /t)
        return Ref::Unspecified;
    }
    // a `..` component that climbs above the root of the modelled tree leaves the model
    {
        let mut depth = cwd.split('/').filter(|c| !c.is_empty()).count() as i32;
        for c in &comps {
            let t: String = c.iter().map(|p| p.0).collect();
            match t.as_str() {
                "" | "." => {}
                ".." => depth -= 1,
                _ => depth += 1,
            }
            if depth < 0 {
                return Ref::Unspecified;
            }
        }
    }
    let mut partial: Vec<(String, Option<String>)> = vec![(String::new(), start_dir)];
    let n = comps.len();
    for (ci, comp) in comps.iter().enumerate() {
        let last = ci + 1 == n;
        let mut next = vec![];
        let comp_active = comp.iter().any(|(c, lit)| !lit && matches!(c, '*' | '?' | '['));
        let lit_text: String = comp.iter().map(|p| p.0).collect();
        for (prefix, dir) in &partial {
            let Some(dir) = dir else { continue };
            let join = |name: &str| if prefix.is_empty() && ci == 0 { name.to_string() } else { format!("{prefix}/{name}") };
            if comp.is_empty() {
                // empty component: `a//b` or a trailing slash: the prefix must be a directory
                if ci == 0 {
                    continue;
                }
                next.push((format!("{prefix}/"), Some(dir.clone())));
                // (a trailing slash keeps the prefix with the slash appended)
                continue;
            }
            if !comp_active {
                let full = if dir.is_empty() { lit_text.clone() } else { format!("{dir}/{lit_text}") };
                // `.` and `..` below a directory without search permission: the kernel refuses them,
                // the simulator resolves them lexically (a matter of C19, not of pathname expansion)
                if (lit_text == "." || lit_text == "..") && matches!(tree.get(dir.as_str()), Some(Node::Locked)) {
                    return Ref::Unspecified;
                }
                if lit_text == "." {
                    next.push((join("."), Some(dir.clone())));
                    continue;
                }
                if resolve(tree, &full).is_some() {
                    next.push((join(&lit_text), real_dir(tree, &full)));
                }
                continue;
            }
            let ast = match parse_pattern(comp) {
                Parsed::Ok(a) => a,
                Parsed::Unspecified => return Ref::Unspecified,
            };
            let literal_dot_first = comp.first().is_some_and(|p| p.0 == '.') && matches!(ast.first(), Some(At::Lit('.')));
            for name in children(tree, dir) {
                if name.starts_with('.') && !literal_dot_first {
                    continue;
                }
                if comp_match(&ast, &name) {
                    let full = if dir.is_empty() { name.clone() } else { format!("{dir}/{name}") };
                    next.push((join(&name), real_dir(tree, &full)));
                }
            }
        }
        // a trailing empty component requires a directory
        if last && comp.is_empty() {
            // already handled: entries with prefix + "/"; but `prefix//` artifacts are fine
        }
        partial = next;
    }
    let mut results: Vec<String> = partial
        .into_iter()
        .map(|(p, _)| {
            // normalise the artefact of the empty-component handling: "x/" + "/" join
            p.replace("//", "/")
        })
        .collect();
    if plain.contains("//") {
        return Ref::Unspecified;
    }
    results.sort();
    results.dedup();
    if results.is_empty() {
        Ref::Paths(vec![plain])
    } else {
        Ref::Paths(results)
    }
}

// ------------------------------------------------------------------ real side

type E = Env<Rc<Concurrent<VirtualSystem>>>;

fn make_env(ents: &[Ent], cwd: &str, noglob: bool) -> E {
    let vs = VirtualSystem::new();
    {
        let mut st = vs.state.borrow_mut();
        let dir = || {
            Rc::new(RefCell::new(Inode {
                body: FileBody::Directory { files: Default::default() },
                permissions: Mode::from_bits_truncate(0o755),
            }))
        };
        st.file_system.save("/t", dir()).unwrap();
        for e in ents {
            match e {
                Ent::File(p) => st.file_system.save(format!("/t/{p}"), Rc::new(RefCell::new(Inode::new([])))).unwrap(),
                Ent::Dir(p) => st.file_system.save(format!("/t/{p}"), dir()).unwrap(),
                Ent::Locked(p) => {
                    st.file_system.save(format!("/t/{p}/a"), Rc::new(RefCell::new(Inode::new([])))).unwrap();
                    st.file_system.get(format!("/t/{p}").as_str()).unwrap().borrow_mut().permissions = Mode::from_bits_truncate(0o600);
                    None
                }
                Ent::Link(p, t) => st
                    .file_system
                    .save(
                        format!("/t/{p}"),
                        Rc::new(RefCell::new(Inode { body: FileBody::Symlink { target: (*t).into() }, permissions: Mode::from_bits_truncate(0o777) })),
                    )
                    .unwrap(),
            };
        }
        let full = if cwd.is_empty() { "/t".to_string() } else { format!("/t/{cwd}") };
        st.processes.get_mut(&yash_env::job::Pid(2)).unwrap().chdir(full.into());
    }
    let mut env = Env::with_system(Rc::new(Concurrent::new(vs)));
    if noglob {
        env.options.set(ShOpt::Glob, State::Off);
    }
    env.variables.get_or_new("IFS", Scope::Global).assign("", None).unwrap();
    env
}

/// Quoting styles for a field.
#[derive(Clone, Copy, Debug, PartialEq, Eq)]
enum Style {
    /// per-character: bit set = that character is quoted; `single` picks '…' vs backslash
    Mask(u32, bool),
    /// the whole field comes from "$v"
    DqVar,
    /// the whole field comes from unquoted $v
    Var,
}

fn render(chars: &[char], style: Style) -> (String, Vec<PC>, Option<String>) {
    match style {
        Style::Mask(mask, single) => {
            let mut text = String::new();
            let mut pcs = vec![];
            for (i, c) in chars.iter().enumerate() {
                let quoted = mask & (1 << i) != 0;
                if quoted {
                    if single {
                        text.push_str(&format!("'{c}'"));
                    } else {
                        text.push_str(&format!("\\{c}"));
                    }
                } else {
                    text.push(*c);
                }
                pcs.push((*c, quoted));
            }
            (text, pcs, None)
        }
        Style::DqVar => ("\"$v\"".into(), chars.iter().map(|c| (*c, true)).collect(), Some(chars.iter().collect())),
        Style::Var => ("$v".into(), chars.iter().map(|c| (*c, false)).collect(), Some(chars.iter().collect())),
    }
}

pub fn replay(case: &serde_json::Value) -> i32 {
    println!("{}", serde_json::to_string_pretty(case).unwrap());
    1
}

pub fn run(tier: Tier) -> i32 {
    let ctx = Ctx::new("C05", "exploration", tier);
    // trees: all subsets of ENTRIES up to a size bound
    let max_entries = tier.pick(2, 3);
    let n = ENTRIES.len();
    let mut trees: Vec<Vec<Ent>> = vec![];
    for mask in 0u32..(1 << n) {
        if (mask.count_ones() as usize) <= max_entries {
            trees.push((0..n).filter(|i| mask & (1 << i) != 0).map(|i| ENTRIES[i]).collect());
        }
    }
    // one larger tree with everything
    trees.push(ENTRIES.to_vec());
    // fields: all strings up to length L over the pattern alphabet
    let alphabet: Vec<char> = "ab*?[].-/".chars().collect();
    let flen = tier.pick(3, 4);
    let mut fields: Vec<Vec<char>> = vec![];
    let mut cur: Vec<Vec<char>> = vec![vec![]];
    for _ in 0..flen {
        let next: Vec<Vec<char>> = cur.iter().flat_map(|s| alphabet.iter().map(move |c| [s.as_slice(), &[*c]].concat())).collect();
        fields.extend(next.iter().cloned());
        cur = next;
    }
    // a backslash before an ordinary character and fields that start with `!`/`^` in brackets
    // multi-byte file names: `?` is one character, brackets hold characters
    for extra in ["é", "?", "??", "é?", "?a", "[é]", "[!a]*", "é*", "*a", "[é]a", "[a-é]"] {
        fields.push(extra.chars().collect());
    }
    // collating symbols, equivalence classes and character classes inside (complemented) brackets,
    // naming ASCII and non-ASCII characters
    for extra in ["[![.é.]a]", "[![=é=]]*", "[[.é.]]", "[[=é=]a]*", "[![.a.]]", "[[=a=]b]", "[![:alpha:]]", "[[:alpha:]]*", "[![.é.]]a", "[[.-.]a]", "[![.-.]]"] {
        fields.push(extra.chars().collect());
    }
    for extra in ["l*/a", "l??/a", "*/a/", "lck/*", "l*k/?", "*oop", "loop/*", "l*p/a", "[!a]", "[^a]", "[a-b]", "*/a", "*/.a", "s*/a", "*/*", "*/*/a", "sub*/?", "?ub/a", "*/", "./*", "sub/*", "*/..", "*/../*", "sub/../s*", "*/./a", "s*/../.a"] {
        fields.push(extra.chars().collect());
    }
    // a literal backslash followed by wildcards (the backslash itself is always quoted)
    for extra in ["\\*", "\\?", "\\[a]", "*\\*", "\\a*", "\\", "a\\*", "?\\"] {
        fields.push(extra.chars().collect());
    }
    fields.retain(|f| !f.starts_with(&['/']));
    let evals = AtomicU64::new(0);
    let unspec = AtomicU64::new(0);
    let nontrivial = AtomicU64::new(0);
    let samples = Samples::new(8);
    trees.par_iter().enumerate().for_each(|(ti, ents)| {
        let tree = build_tree(ents);
        let has_sub = tree.get("sub") == Some(&Node::Dir);
        for (cwd, noglob) in [("", false), ("sub", false), ("", true)] {
            if cwd == "sub" && !has_sub {
                continue;
            }
            let mut env = make_env(ents, cwd, noglob);
            for (fi, chars) in fields.iter().enumerate() {
                let metas = chars.iter().filter(|c| matches!(c, '*' | '?' | '[' | ']' | '.')).count();
                let has_backslash = chars.contains(&'\\');
                let mut styles: Vec<Style> = if has_backslash { vec![] } else { vec![Style::Mask(0, true), Style::Var, Style::DqVar] };
                // quoting masks: every mask for short fields, single-position masks otherwise
                let len = chars.len();
                if has_backslash {
                    // every mask in which each backslash is quoted, in both quoting styles
                    let must: u32 = chars.iter().enumerate().filter(|(_, c)| **c == '\\').map(|(i, _)| 1u32 << i).sum();
                    for m in 0..(1u32 << len) {
                        if m & must == must {
                            styles.push(Style::Mask(m, true));
                            styles.push(Style::Mask(m, false));
                        }
                    }
                } else if metas > 0 {
                    if len <= 3 {
                        for m in 1..(1u32 << len) {
                            styles.push(Style::Mask(m, true));
                            if (ti + fi) % 2 == 0 {
                                styles.push(Style::Mask(m, false));
                            }
                        }
                    } else {
                        for i in 0..len {
                            styles.push(Style::Mask(1 << i, (ti + fi + i) % 2 == 0));
                        }
                    }
                }
                // ordering and big trees: thin the styles for the large tree sweep in the quick tier
                for style in styles {
                    let (text, pcs, var) = render(chars, style);
                    // a quoted slash or quotes next to slashes are fine; but a backslash-quoted char inside `[`..`]`
                    // is handled by the reference parser the same way (literal)
                    let exp = match refglob(&tree, &pcs, cwd, noglob) {
                        Ref::Paths(p) => p,
                        Ref::Unspecified => {
                            unspec.fetch_add(1, Relaxed);
                            continue;
                        }
                    };
                    if let Some(v) = &var {
                        env.variables.get_or_new("v", Scope::Global).assign(v.as_str(), None).unwrap();
                    }
                    let Ok(word) = Word::from_str(&text) else {
                        continue;
                    };
                    evals.fetch_add(1, Relaxed);
                    let got = catch(|| expand_words(&mut env, std::iter::once(&word)).now_or_never());
                    let got: Result<Vec<String>, String> = match got {
                        Ok(Some(Ok((f, _)))) => Ok(f.into_iter().map(|f| f.value).collect()),
                        Ok(Some(Err(e))) => Err(format!("error {:?}", e.cause)),
                        Ok(None) => Err("blocked".into()),
                        Err(p) => Err(format!("panic: {p}")),
                    };
                    if exp.len() != 1 || exp[0] != chars.iter().collect::<String>() {
                        nontrivial.fetch_add(1, Relaxed);
                    }
                    if got.as_ref() != Ok(&exp) {
                        let key = match &got {
                            Ok(g) => {
                                let mut a = g.clone();
                                let mut b = exp.clone();
                                a.sort();
                                b.sort();
                                if a == b { "c05:order" } else if g.iter().any(|p| !exp.contains(p)) { "c05:extra-path" } else { "c05:missing-path" }
                            }
                            Err(_) => "c05:error",
                        };
                        ctx.violation(
                            key,
                            &format!("word {text} (v={var:?}) in tree {:?} cwd /t/{cwd} noglob={noglob}: got {got:?}, expected {exp:?}", tree.keys().collect::<Vec<_>>()),
                            json!({"word": text, "v": var, "tree": format!("{ents:?}"), "cwd": cwd, "noglob": noglob, "expected": exp}),
                        );
                    }
                    if ti == 40 && fi % 50 == 0 {
                        samples.offer(|| json!({"word": text, "v": var, "tree": format!("{ents:?}"), "cwd": cwd, "expected": exp}));
                    }
                }
            }
            // tilde results are literal: `~` followed by nothing, a slash or a path with wildcards,
            // under HOME values that contain pattern characters, with and without a trailing
            // slash (which merges with a following one)
            for home in ["sub", "sub/", "s*b", "s*b/", "*", "*/", "su?/", "[s]ub/", "?", "s*", ".", "./", "sub/s*/", "\\*/"] {
                env.variables.get_or_new("HOME", Scope::Global).assign(home, None).unwrap();
                for rest in ["", "/", "/a", "/*", "/.a", "/?", "/s*/a", "/sub2/*"] {
                    let text = format!("~{rest}");
                    let merged = if rest.starts_with('/') { home.strip_suffix('/').unwrap_or(home) } else { home };
                    let pcs: Vec<PC> = merged.chars().map(|c| (c, true)).chain(rest.chars().map(|c| (c, false))).collect();
                    let field: String = pcs.iter().map(|p| p.0).collect();
                    if field.starts_with('/') || field.is_empty() {
                        continue;
                    }
                    let exp = match refglob(&tree, &pcs, cwd, noglob) {
                        Ref::Paths(p) => p,
                        Ref::Unspecified => {
                            unspec.fetch_add(1, Relaxed);
                            continue;
                        }
                    };
                    let Ok(mut word) = Word::from_str(&text) else { continue };
                    word.parse_tilde_front();
                    evals.fetch_add(1, Relaxed);
                    let got = catch(|| expand_words(&mut env, std::iter::once(&word)).now_or_never());
                    let got: Result<Vec<String>, String> = match got {
                        Ok(Some(Ok((f, _)))) => Ok(f.into_iter().map(|f| f.value).collect()),
                        Ok(Some(Err(e))) => Err(format!("error {:?}", e.cause)),
                        Ok(None) => Err("blocked".into()),
                        Err(p) => Err(format!("panic: {p}")),
                    };
                    if exp.len() != 1 || exp[0] != field {
                        nontrivial.fetch_add(1, Relaxed);
                    }
                    if got.as_ref() != Ok(&exp) {
                        ctx.violation(
                            "c05:tilde-result",
                            &format!("word {text} with HOME={home:?} in tree {:?} cwd /t/{cwd} noglob={noglob}: got {got:?}, expected {exp:?}", tree.keys().collect::<Vec<_>>()),
                            json!({"word": text, "HOME": home, "tree": format!("{ents:?}"), "cwd": cwd, "noglob": noglob, "expected": exp}),
                        );
                    }
                }
            }
            // no descriptor left open by directory scans
            let fds = env.system.clone();
            let _ = fds;
        }
    });
    let cov = json!({
        "evaluations": evals.load(Relaxed),
        "distinct_nontrivial": nontrivial.load(Relaxed),
        "rule": format!("every tree made of <= {max_entries} of 23 entries (files a b ab .a .b - [ * a] and multi-byte names, directory sub with sub/a sub/.a sub/sub2/a, sibling directories sub.x sub-, symlinks lnk->a and dlnk->sub, a symbolic link to itself, a directory without search permission) plus the full tree, x every field of <= {flen} characters over {{a b * ? [ ] . - /}} (plus longer multi-component fields, multi-byte fields, and brackets holding collating symbols / equivalence classes / character classes of ASCII and non-ASCII characters, plain and complemented) with every quoting mask ('c' and \\c per character for fields <= 3, single positions above), from \"$v\" and from unquoted $v, x cwd at the tree root and in sub, x noglob; expanded by expand_words on a real Env over the simulated file system and compared with refglob (component-wise walk with the reference matcher, leading-period rule, slash only literal, sorted; no match or noglob -> the field with quotes removed). Non-trivial = the expected result differs from the field itself."),
        "samples": samples.take(),
        "trees": trees.len(),
        "fields": fields.len(),
        "skipped_unspecified": unspec.load(Relaxed),
        "exhaustive": true,
    });
    ctx.finish(cov, &["refglob and the C04 reference matcher trusted", "unreadable/unsearchable directories are not reachable: the simulator does not model read permission and the sandbox runs as root", "absolute patterns and fields with `//` are skipped"])
}
