//! C06 part (i): job names denote the commands that were entered.
//!
//! (1) Every C02 program of up to N nodes whose text fits one line is started as an asynchronous
//! list (`TEXT &`); the name the shell records for the job must parse back to the and-or list that
//! was entered (structural equality with all locations erased, as in the round trip of part (a)).
//! (2) In a `set -m` shell, foreground commands that stop themselves become jobs; their names must
//! parse back to the command that was entered (multi-command pipelines, subshells with and
//! without redirections).

use crate::common::*;
use crate::progs;
use crate::props::c06::erase_locations;
use crate::refsh::{self, Style};
use crate::vsh::{self, *};
use futures_util::FutureExt;
use rayon::prelude::*;
use serde_json::json;
use std::sync::atomic::{AtomicU64, Ordering::Relaxed};
use yash_syntax::parser::lex::Lexer;
use yash_syntax::parser::Parser;
use yash_syntax::syntax::List;

fn parse(src: &str) -> Option<Vec<List>> {
    let mut lexer = Lexer::with_code(src);
    let mut parser = Parser::new(&mut lexer);
    let mut out = vec![];
    loop {
        match parser.command_line().now_or_never()? {
            Ok(Some(l)) => out.push(l),
            Ok(None) => return Some(out),
            Err(_) => return None,
        }
    }
}

/// The and-or list of the last item of the text, with locations erased.
fn last_and_or(src: &str) -> Option<String> {
    let lists = parse(src)?;
    let item = lists.iter().rev().find_map(|l| l.0.last())?;
    Some(erase_locations(&format!("{:?}", item.and_or)))
}

/// The single and-or list a job name consists of (None: not exactly one synchronous item).
fn name_and_or(name: &str) -> Option<String> {
    let lists = parse(name)?;
    let items: Vec<_> = lists.iter().flat_map(|l| l.0.iter()).collect();
    if items.len() != 1 || items[0].async_flag.is_some() {
        return None;
    }
    Some(erase_locations(&format!("{:?}", items[0].and_or)))
}

/// Names of the jobs in a `jl` dump, in job-number order.
fn names_in_dump(t: &str) -> Vec<String> {
    t.split('\x1e').skip(1).filter_map(|e| e.split('\x1f').nth(5).map(|s| s.to_string())).collect()
}

pub fn run(ctx: &Ctx) -> serde_json::Value {
    let n = ctx.tier.pick(3, 4);
    let mut progs = progs::programs(n);
    for p in progs.iter_mut() {
        refsh::relabel(p);
    }
    let runs = AtomicU64::new(0);
    let compared = AtomicU64::new(0);
    let distinct: std::sync::Mutex<std::collections::BTreeSet<String>> = Default::default();
    progs.par_iter().for_each(|prog| {
        // programs the reference interpreter calls unspecified (among them the ones that never end)
        if refsh::run(prog).is_err() {
            return;
        }
        for style in [Style::default(), Style { spaces: true, ..Style::default() }] {
            let text = refsh::print(prog, style);
            if text.contains('\n') {
                continue;
            }
            let line = format!("{text} &");
            let Some(expected) = last_and_or(&line) else { continue };
            let script = format!("{line}\njl x\nwait\ns 0\n");
            let _g = case_guard(format!("job name of {line}"));
            let r = vsh::run_once(&Setup::script(&script), &Default::default());
            runs.fetch_add(1, Relaxed);
            let Some(dump) = r.all_trace().into_iter().find(|t| t.starts_with("jl x ")) else {
                // the line itself ended the shell (e.g. a syntax error would): not this part's matter
                continue;
            };
            let names = names_in_dump(&dump);
            let case = json!({"part": "job-name", "script": script});
            let Some(name) = names.last() else {
                ctx.violation("c06:job-name:no-job", &format!("`{line}` left no job in the job list"), case);
                return;
            };
            compared.fetch_add(1, Relaxed);
            match name_and_or(name) {
                Some(got) if got == expected => {
                    distinct.lock().unwrap().insert(name.clone());
                }
                Some(_) => {
                    ctx.violation("c06:job-name:asynchronous-list", &format!("`{line}`: the job is named {name:?}, which parses to another command than the one entered"), case);
                    return;
                }
                None => {
                    ctx.violation("c06:job-name:asynchronous-list-unparsable", &format!("`{line}`: the job name {name:?} does not parse as one and-or list"), case);
                    return;
                }
            }
        }
    });
    // (2) foreground commands that are stopped and thereby become jobs
    let units: [(&str, &str); 12] = [
        ("kill -s STOP 0 | p b", "pipeline"),
        ("p a | kill -s STOP 0", "pipeline"),
        ("kill -s STOP 0 | { p a; p b; } | (p c)", "pipeline"),
        ("kill -s STOP 0 | if s 0; then p a; fi | p 'x y' \"$HOME\"", "pipeline"),
        ("kill -s STOP 0 2>/dev/null | p b >/dev/null", "pipeline"),
        ("x=1 kill -s STOP 0 | while s 1; do p a; done", "pipeline"),
        ("(stopself; s 4)", "subshell"),
        ("(stopself)", "subshell"),
        ("(p a; stopself) >/dev/null", "subshell"),
        ("(stopself && p a || p b)", "subshell"),
        ("( (kill -s STOP 0); p a)", "subshell"),
        ("(kill -s STOP 0 | p a)", "subshell"),
    ];
    let fg_runs = AtomicU64::new(0);
    units.par_iter().for_each(|(unit, kind)| {
        let script = format!("set -m\n{unit}\njl x\nkill -s KILL %1\nwait %1\ns 0\n");
        let Some(expected) = last_and_or(unit) else { return };
        let _g = case_guard(format!("job name of stopped {unit}"));
        let mut setup = Setup::script(&script);
        setup.auto_continue = false;
        let r = vsh::run_once(&setup, &Default::default());
        fg_runs.fetch_add(1, Relaxed);
        let case = json!({"part": "job-name", "script": script});
        let Some(dump) = r.all_trace().into_iter().find(|t| t.starts_with("jl x ")) else {
            ctx.violation("c06:job-name:stopped-command-no-dump", &format!("`{unit}` in a set -m shell: the script did not get past the stopped command: {:?} stderr={:?}", r.end, r.stderr), case);
            return;
        };
        let names = names_in_dump(&dump);
        let Some(name) = names.last() else {
            ctx.violation("c06:job-name:stopped-command-no-job", &format!("`{unit}` stopped but left no job"), case);
            return;
        };
        compared.fetch_add(1, Relaxed);
        if name_and_or(name).as_deref() != Some(expected.as_str()) {
            // a subshell named by its body alone: parentheses (and redirections) are missing
            let bare = unit.split(") >").next().map(|u| if u.ends_with(')') { u.to_string() } else { format!("{u})") }).unwrap();
            let named_by_body = *kind == "subshell" && last_and_or(&format!("({name})")).is_some_and(|t| Some(t) == last_and_or(&bare));
            let key = if named_by_body { "c06:job-name:stopped-subshell-named-by-its-body" } else { "c06:job-name:stopped-command" };
            ctx.violation(key, &format!("`{unit}` stopped in a set -m shell: the job is named {name:?}, which does not parse to the command entered"), case);
        } else {
            distinct.lock().unwrap().insert(name.clone());
        }
    });
    json!({
        "job_name_runs": runs.load(Relaxed) + fg_runs.load(Relaxed),
        "job_names_compared": compared.load(Relaxed),
        "job_names_distinct": distinct.lock().unwrap().len(),
        "job_name_rule": format!("every C02 program of <= {n} nodes that prints on one line, in 2 spacings, run as `TEXT &`: the recorded job name parses to the and-or list entered; 12 foreground pipelines / subshells stopped in a set -m shell: the same for the job they become"),
    })
}
