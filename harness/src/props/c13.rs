//! C13: children are started, awaited and reaped correctly under every schedule.
//! Race-free programs × all schedules of the simulated processes (stateless DFS
//! with a controlled executor; optional syscall-tap preemption).

use crate::common::*;
use crate::refsh::{self, Cmd, Style};
use crate::vsh::*;
use rayon::prelude::*;
use serde_json::json;
use std::sync::atomic::{AtomicU64, Ordering::Relaxed};

fn p(st: i32) -> Cmd {
    Cmd::P { label: 0, st }
}
fn seq(v: Vec<Cmd>) -> Cmd {
    Cmd::Seq(v)
}
fn bx(c: Cmd) -> Box<Cmd> {
    Box::new(c)
}

fn pipelines(thorough: bool) -> Vec<Cmd> {
    let mut v = vec![];
    let stages = [Cmd::S(0), Cmd::S(2), Cmd::Exit(Some(3)), p(0), p(1)];
    for a in &stages {
        for b in &stages {
            v.push(Cmd::Pipe(vec![a.clone(), b.clone()]));
        }
    }
    for (a, b, c) in [(1, 0, 0), (0, 1, 0), (0, 0, 1), (1, 2, 0), (2, 1, 1), (3, 4, 2)] {
        v.push(Cmd::Pipe(vec![
            stages[a].clone(),
            stages[b].clone(),
            stages[c].clone(),
        ]));
    }
    let sizes: &[u32] = if thorough { &[0, 1, 600, 1100, 1600] } else { &[0, 1, 600, 1100] };
    for &n in sizes {
        v.push(Cmd::Pipe(vec![Cmd::Gen(n), Cmd::Sink]));
        v.push(Cmd::Pipe(vec![Cmd::Gen(n), Cmd::Cat, Cmd::Sink]));
    }
    v.push(Cmd::Pipe(vec![Cmd::Gen(600), Cmd::Cat, Cmd::Cat, Cmd::Sink]));
    v.push(Cmd::Pipe(vec![Cmd::S(2), Cmd::Cat, Cmd::S(0)]));
    v.push(Cmd::Pipe(vec![
        Cmd::Gen(5),
        seq(vec![Cmd::Cat, Cmd::Exit(Some(4))]),
    ]));
    v.push(Cmd::Pipe(vec![
        seq(vec![Cmd::Gen(5), Cmd::Exit(Some(6))]),
        seq(vec![Cmd::Sink, p(1)]),
    ]));
    v
}

fn atoms() -> Vec<Cmd> {
    vec![
        Cmd::S(0),
        Cmd::S(3),
        Cmd::Exit(Some(5)),
        seq(vec![p(0), Cmd::S(2)]),
        Cmd::Pipe(vec![Cmd::S(1), Cmd::S(0)]),
        Cmd::Pipe(vec![Cmd::Gen(600), Cmd::Sink]),
        Cmd::Subshell(bx(Cmd::S(4))),
    ]
}

pub fn programs(thorough: bool) -> Vec<Cmd> {
    let mut out = vec![];
    let pipes = pipelines(thorough);
    let atoms = atoms();
    // T1/T2: pipeline statuses, pipefail off/on, negated
    for pl in &pipes {
        out.push(seq(vec![pl.clone(), p(0)]));
        out.push(seq(vec![Cmd::SetPipefail(true), pl.clone(), p(0)]));
    }
    // job control on: the pipeline runs through execute_job_controlled_pipeline (one more subshell)
    for pl in pipes.iter().step_by(2) {
        out.push(seq(vec![Cmd::SetM(true), pl.clone(), p(0)]));
        out.push(seq(vec![Cmd::SetM(true), Cmd::SetPipefail(true), pl.clone(), p(0), Cmd::SetM(false), pl.clone(), p(0)]));
    }
    for pl in pipes.iter().step_by(5) {
        out.push(seq(vec![Cmd::Not(bx(pl.clone())), p(0)]));
        out.push(seq(vec![Cmd::Subshell(bx(pl.clone())), p(0)]));
        out.push(seq(vec![Cmd::Subst(bx(seq(vec![pl.clone(), Cmd::Exit(Some(7))]))), p(0)]));
        out.push(seq(vec![Cmd::Subst(bx(pl.clone())), p(0)]));
        out.push(seq(vec![Cmd::Async(bx(Cmd::Subshell(bx(pl.clone())))), Cmd::WaitLast, p(0)]));
        out.push(seq(vec![Cmd::Async(bx(pl.clone())), Cmd::WaitLast, p(0)]));
    }
    // T3: A & wait $!
    for a in &atoms {
        out.push(seq(vec![Cmd::Async(bx(a.clone())), Cmd::WaitLast, p(0)]));
        out.push(seq(vec![
            Cmd::Async(bx(a.clone())),
            Cmd::WaitLast,
            p(0),
            Cmd::WaitLast,
            p(0),
        ]));
    }
    // T4..T6: two async commands
    for (i, a) in atoms.iter().enumerate() {
        for (j, b) in atoms.iter().enumerate() {
            if !thorough && (i + j) % 2 == 1 {
                continue;
            }
            out.push(seq(vec![
                Cmd::Async(bx(a.clone())),
                Cmd::Async(bx(b.clone())),
                Cmd::WaitAll,
                p(0),
            ]));
            out.push(seq(vec![
                Cmd::Async(bx(a.clone())),
                Cmd::Async(bx(b.clone())),
                Cmd::WaitLast,
                p(0),
                Cmd::WaitAll,
                p(0),
            ]));
            out.push(seq(vec![
                Cmd::Async(bx(a.clone())),
                Cmd::SaveBg(0),
                Cmd::Async(bx(b.clone())),
                Cmd::WaitVar(0),
                p(0),
                Cmd::WaitLast,
                p(0),
                Cmd::WaitVar(0),
                p(0),
            ]));
        }
    }
    // T6b: operand-less wait after a specific job has been waited for (hole in the job table)
    for (i, a) in atoms.iter().enumerate() {
        for (j, b) in atoms.iter().enumerate() {
            if (i + 2 * j) % 3 != 0 && !thorough {
                continue;
            }
            out.push(seq(vec![
                Cmd::Async(bx(a.clone())),
                Cmd::SaveBg(0),
                Cmd::Async(bx(seq(vec![b.clone(), p(0)]))),
                Cmd::WaitVar(0),
                p(0),
                Cmd::WaitAll,
                p(0),
            ]));
        }
    }
    // T6c: three async jobs and an operand-less wait
    for (a, b, c) in [(0usize, 1usize, 2usize), (3, 3, 3), (5, 0, 4), (2, 6, 1)] {
        out.push(seq(vec![
            Cmd::Async(bx(seq(vec![atoms[a].clone(), p(0)]))),
            Cmd::Async(bx(seq(vec![atoms[b].clone(), p(0)]))),
            Cmd::Async(bx(seq(vec![atoms[c].clone(), p(0)]))),
            Cmd::WaitAll,
            p(0),
        ]));
    }
    // T7: unknown pid
    out.push(seq(vec![Cmd::WaitUnknown, p(0)]));
    out.push(seq(vec![Cmd::Async(bx(Cmd::S(3))), Cmd::WaitUnknown, p(0), Cmd::WaitAll, p(0)]));
    // T8: waiting inside subshells / substitutions
    for a in atoms.iter().take(4) {
        out.push(seq(vec![
            Cmd::Subshell(bx(seq(vec![Cmd::Async(bx(a.clone())), Cmd::WaitLast]))),
            p(0),
        ]));
        out.push(seq(vec![
            Cmd::Subst(bx(seq(vec![
                Cmd::Async(bx(a.clone())),
                Cmd::WaitLast,
                p(0),
                Cmd::Exit(Some(5)),
            ]))),
            p(0),
        ]));
        // a subshell cannot wait for its parent's job
        out.push(seq(vec![
            Cmd::Async(bx(a.clone())),
            Cmd::Subshell(bx(Cmd::WaitLast)),
            p(0),
            Cmd::WaitLast,
            p(0),
        ]));
    }
    // T9: a child stops itself (SIGSTOP) and is continued from outside while the shell, which does
    // not control jobs, is waiting for it: the stop is not a termination
    {
        let st = Cmd::StopSelf;
        out.push(seq(vec![Cmd::Subshell(bx(seq(vec![st.clone(), p(0), Cmd::S(42)]))), p(0)]));
        out.push(seq(vec![Cmd::Subshell(bx(seq(vec![p(0), st.clone(), Cmd::Exit(Some(7))]))), p(0)]));
        out.push(seq(vec![Cmd::Pipe(vec![seq(vec![st.clone(), Cmd::S(2)]), Cmd::S(3)]), p(0)]));
        out.push(seq(vec![Cmd::Pipe(vec![Cmd::S(2), seq(vec![st.clone(), Cmd::S(3)])]), p(0)]));
        out.push(seq(vec![Cmd::SetPipefail(true), Cmd::Pipe(vec![seq(vec![st.clone(), Cmd::S(2)]), seq(vec![st.clone(), Cmd::S(0)])]), p(0)]));
        out.push(seq(vec![Cmd::Pipe(vec![seq(vec![st.clone(), Cmd::Gen(600)]), Cmd::Sink]), p(0)]));
        out.push(seq(vec![Cmd::Subst(bx(seq(vec![st.clone(), p(0), Cmd::Exit(Some(5))]))), p(0)]));
        out.push(seq(vec![Cmd::Async(bx(seq(vec![st.clone(), Cmd::S(6)]))), Cmd::WaitLast, p(0)]));
        out.push(seq(vec![Cmd::Async(bx(seq(vec![st.clone(), Cmd::S(6)]))), Cmd::WaitAll, p(0)]));
        out.push(seq(vec![Cmd::Subshell(bx(Cmd::Subshell(bx(seq(vec![st.clone(), Cmd::S(9)]))))), p(0)]));
        out.push(seq(vec![Cmd::Subshell(bx(seq(vec![st.clone(), st.clone(), Cmd::S(8)]))), p(0)]));
    }
    // T10: substitutions whose output exceeds the pipe capacity (the parent must read while the
    // child is still writing: waiting first would deadlock)
    for n in [1025u32, 2049, 5000] {
        out.push(seq(vec![Cmd::Subst(bx(Cmd::Gen(n))), p(0)]));
        out.push(seq(vec![Cmd::Subst(bx(seq(vec![Cmd::Gen(n), Cmd::Exit(Some(7))]))), p(0)]));
        out.push(seq(vec![Cmd::Subst(bx(Cmd::Pipe(vec![Cmd::Gen(n), Cmd::Cat]))), p(0)]));
        out.push(seq(vec![Cmd::Async(bx(Cmd::Subst(bx(Cmd::Gen(n))))), Cmd::WaitLast, p(0)]));
        out.push(seq(vec![Cmd::Pipe(vec![Cmd::Subst(bx(Cmd::Gen(n))), Cmd::S(3)]), p(0)]));
    }
    // T11: background job concurrent with a foreground pipeline
    for a in atoms.iter().take(5) {
        for pl in pipes.iter().step_by(7) {
            out.push(seq(vec![
                Cmd::Async(bx(a.clone())),
                pl.clone(),
                p(0),
                Cmd::WaitLast,
                p(0),
            ]));
        }
    }
    // T12: three async commands, waited in another order
    for (a, b, c) in [(1usize, 2usize, 3usize), (3, 0, 1), (2, 2, 2), (4, 5, 1)] {
        out.push(seq(vec![
            Cmd::Async(bx(atoms[a].clone())),
            Cmd::SaveBg(0),
            Cmd::Async(bx(atoms[b].clone())),
            Cmd::SaveBg(1),
            Cmd::Async(bx(atoms[c].clone())),
            Cmd::WaitVar(1),
            p(0),
            Cmd::WaitLast,
            p(0),
            Cmd::WaitVar(0),
            p(0),
            Cmd::WaitAll,
            p(0),
        ]));
    }
    // T13: `wait` with several operands — every arrangement of two or three distinct operands out
    // of {a saved pid, `$!`, an unknown pid, a pid that has been waited for already}: all operands
    // are waited for, the status is the last operand's (127 for the unknown ones)
    {
        let arrangements: [&[u8]; 14] =
            [&[2, 0], &[0, 2], &[1, 0], &[0, 1], &[1, 2], &[2, 1], &[1, 2, 0], &[2, 1, 0], &[2, 0, 1], &[0, 1, 2], &[3, 0], &[0, 3], &[3, 2, 0], &[1, 3]];
        for (k, ops) in arrangements.iter().enumerate() {
            for (a, b, c) in [(1usize, 2usize, 3usize), (4, 0, 1)] {
                if !thorough && (k + a) % 2 == 1 && ops.len() == 2 && !ops.contains(&1) {
                    continue;
                }
                out.push(seq(vec![
                    Cmd::Async(bx(atoms[a].clone())),
                    Cmd::SaveBg(0),
                    Cmd::Async(bx(atoms[c].clone())),
                    Cmd::SaveBg(1),
                    Cmd::WaitVar(1),
                    Cmd::Async(bx(atoms[b].clone())),
                    Cmd::WaitMany(ops.to_vec()),
                    p(0),
                    Cmd::WaitAll,
                    p(0),
                ]));
            }
        }
    }
    for c in out.iter_mut() {
        refsh::relabel(c);
    }
    out
}

fn outcome_string(r: &Run) -> String {
    format!(
        "{:?}|{:?}|{:?}|{:?}|err={}|{:?}",
        r.end,
        r.trace_by_proc(),
        r.unreaped,
        r.alive,
        !r.stderr.is_empty(),
        r.panic
    )
}

/// Checks one execution against the expectation; returns (key, description) on failure.
fn judge(r: &Run, exp: &refsh::Outcome) -> Option<(String, String)> {
    if let Some(p) = &r.panic {
        return Some(("panic".into(), format!("panic: {p}")));
    }
    match &r.end {
        End::Deadlock => return Some(("deadlock".into(), "deadlock: processes alive, nothing runnable".into())),
        End::Livelock => return Some(("livelock".into(), "step horizon exceeded".into())),
        End::Exited(s) if *s == exp.status => {}
        other => {
            return Some((
                "status".into(),
                format!("shell ended {other:?}, expected exit {}", exp.status),
            ));
        }
    }
    let t = r.trace_by_proc();
    if t != exp.traces {
        let key = if r.stderr.contains("no job to wait for") {
            "wait-any-echild"
        } else {
            "trace"
        };
        return Some((
            key.into(),
            format!("markers/$? differ: got {t:?}, expected {:?}; stderr={:?}", exp.traces, r.stderr),
        ));
    }
    if !r.unreaped.is_empty() || !r.alive.is_empty() {
        return Some((
            "zombie".into(),
            format!("children not reaped: zombies={:?} alive={:?}", r.unreaped, r.alive),
        ));
    }
    if !r.stderr.is_empty() != exp.stderr {
        return Some(("stderr".into(), format!("unexpected diagnostics: {:?}", r.stderr)));
    }
    // no descriptor left behind in the shell process (these scripts never use exec redirections)
    let fds: Vec<i32> = r
        .final_fds
        .as_deref()
        .unwrap_or("0= 1= 2=")
        .split_whitespace()
        .filter_map(|t| t.split('=').next().and_then(|f| f.parse().ok()))
        .collect();
    if fds != [0, 1, 2] {
        return Some(("fd-leak".into(), format!("descriptors open in the shell at exit: {fds:?}")));
    }
    None
}

/// Scripts outside the reference interpreter's language. A signal sent to the whole process
/// group while the shell is blocked in `wait`: among the shell's children the one with the lower
/// process ID is not affected (it ignores the signal; it is the sender), the one with the higher
/// process ID is terminated — the shell must be told (SIGCHLD) and `wait` must return its status.
fn raw_cases() -> Vec<(String, refsh::Outcome)> {
    let m = |main: &[&str], status: i32| refsh::Outcome {
        traces: [("M".to_string(), main.iter().map(|s| s.to_string()).collect::<Vec<_>>())].into_iter().collect(),
        status,
        stderr: false,
    };
    let mut v = vec![];
    for sig in ["USR1", "TERM"] {
        let n = if sig == "USR1" { 508 } else { 399 };
        // the second job tells the first one (through a pipe) that its trap is reset; the first one
        // then signals the group and hangs; afterwards it is removed by SIGKILL
        v.push((
            format!("trap '' {sig}\nmkpipe 8 9; mkpipe 6 7\n{{ read r <&8; kill -s {sig} 0; read x <&6; }} &\nb1=$!\n{{ trap - {sig}; echo r >&9; read x <&6; }} &\nwait $!\np w\nkill -s KILL $b1\nwait $b1\np e\nexec 6<&- 7>&- 8<&- 9>&-\ns 0"),
            m(&[&format!("w:{n}"), "e:393"], 0),
        ));
        // three children, the affected one in the middle
        v.push((
            format!("trap '' {sig}\nmkpipe 8 9; mkpipe 6 7\n{{ read r <&8; kill -s {sig} 0; read x <&6; }} &\nb1=$!\n{{ trap - {sig}; echo r >&9; read x <&6; }} &\nb2=$!\n{{ read x <&6; }} &\nb3=$!\nwait $b2\np w\nkill -s KILL $b1 $b3\nwait $b1\nwait $b3\np e\nexec 6<&- 7>&- 8<&- 9>&-\ns 0"),
            m(&[&format!("w:{n}"), "e:393"], 0),
        ));
    }
    // two shell processes write to one pipe at the same time, each more than the pipe holds (and,
    // as a control, less): whatever the order of the data, nobody may be left waiting for ever
    for n in [100, 1100, 3000] {
        v.push((format!("{{ gen {n} 0 0 & gen {n} 0 0; wait; }} | cat >/dev/null\np done\ns 0\n{TWO_WRITERS}"), m(&["done:0"], 0)));
        v.push((format!("x=$(gen {n} 0 0 & gen {n} 0 0; wait)\np done\ns 0\n{TWO_WRITERS}"), m(&["done:0"], 0)));
        v.push((format!("{{ gen {n} 0 0 | cat & gen {n} 0 0 | cat; wait; }} | cat >/dev/null\np done\ns 0\n{TWO_WRITERS}"), m(&["done:0"], 0)));
    }
    v
}

const TWO_WRITERS: &str = "# two shell processes write to one pipe";

/// Key of a violation: deadlocks of the two-writer scripts have a key of their own.
fn key_for(script: &str, key: &str) -> String {
    if key == "deadlock" && script.contains(TWO_WRITERS) { format!("c13:{key}:two-shell-writers-on-one-pipe") } else { format!("c13:{key}") }
}

pub fn replay(case: &serde_json::Value) -> i32 {
    let script = case["script"].as_str().unwrap();
    let prefix: Vec<usize> = case["prefix"]
        .as_array()
        .unwrap()
        .iter()
        .map(|v| v.as_u64().unwrap() as usize)
        .collect();
    let taps = case["taps"].as_bool().unwrap_or(false);
    let mut setup = Setup::script(script);
    setup.auto_continue = script.contains("stopself");
    let opts = RunOpts { prefix, taps, ..Default::default() };
    let a = run_once(&setup, &opts);
    let b = run_once(&setup, &opts);
    println!("script: {script}\nrun 1: {}\nrun 2: {}", outcome_string(&a), outcome_string(&b));
    println!("stderr: {}", a.stderr);
    if outcome_string(&a) != outcome_string(&b) || a.diverged {
        println!("MACHINERY: replay is not deterministic");
        return 2;
    }
    println!("expected: {}", case["expected"]);
    1
}

pub fn run(tier: Tier) -> i32 {
    let ctx = Ctx::new("C13", "model_checking", tier);
    let thorough = tier == Tier::Thorough;
    let progs = programs(thorough);
    let execs = AtomicU64::new(0);
    let points = AtomicU64::new(0);
    let steps = AtomicU64::new(0);
    let deviating = AtomicU64::new(0);
    let capped = AtomicU64::new(0);
    let discarded = AtomicU64::new(0);
    let skipped = AtomicU64::new(0);
    let multi_outcome = AtomicU64::new(0);
    let max_depth = AtomicU64::new(0);
    let samples = Samples::new(8);
    let machinery = AtomicU64::new(0);

    // (script, expected outcome): the generated programs with the reference interpreter's verdict,
    // plus hand-written scripts whose outcome is stated directly
    let mut cases: Vec<(String, refsh::Outcome)> = vec![];
    for prog in &progs {
        match refsh::run(prog) {
            Ok(e) => cases.push((refsh::print(prog, Style::default()), e)),
            Err(_) => {
                skipped.fetch_add(1, Relaxed);
            }
        }
    }
    cases.extend(raw_cases());
    cases.par_iter().for_each(|(script, exp)| {
        let exp = exp.clone();
        let script = script.clone();
        let mut setup = Setup::script(&script);
        setup.auto_continue = script.contains("stopself");
        // canary: the default schedule twice must give identical observations
        let a = run_once(&setup, &RunOpts::default());
        let b = run_once(&setup, &RunOpts::default());
        if outcome_string(&a) != outcome_string(&b) {
            machinery.fetch_add(1, Relaxed);
            println!("MACHINERY: nondeterministic default schedule for {script}");
            return;
        }
        let mut phases = vec![Explore { max_dev: usize::MAX, taps: false, cap_runs: tier.pick(1500, 20000) }];
        if thorough {
            phases.push(Explore { max_dev: 2, taps: true, cap_runs: 6000 });
        } else {
            phases.push(Explore { max_dev: 2, taps: true, cap_runs: 1500 });
        }
        let mut outcomes = std::collections::HashSet::new();
        for (pi, ph) in phases.iter().enumerate() {
            let mut failed = false;
            let mut ex = ph.clone();
            let mut stats = explore(&setup, &ex, &RunOpts::default(), |r, prefix| {
                steps.fetch_add(r.steps as u64, Relaxed);
                outcomes.insert(outcome_string(r));
                if r.diverged {
                    machinery.fetch_add(1, Relaxed);
                    println!("MACHINERY: replay divergence in {script} prefix {prefix:?}");
                    return false;
                }
                if let Some((key, what)) = judge(r, &exp) {
                    // confirm by replaying twice
                    let opts = RunOpts { prefix: prefix.to_vec(), taps: ph.taps, ..Default::default() };
                    let again = run_once(&setup, &opts);
                    if outcome_string(&again) != outcome_string(r) {
                        machinery.fetch_add(1, Relaxed);
                        println!("MACHINERY: failure not reproducible for {script} prefix {prefix:?}");
                        return false;
                    }
                    ctx.violation(
                        &key_for(&script, &key),
                        &what,
                        json!({"script": script, "prefix": prefix, "taps": ph.taps,
                               "expected": format!("{exp:?}"), "observed": outcome_string(r)}),
                    );
                    failed = true;
                    return false;
                }
                true
            });
            // cooperative phase capped: fall back to a deviation bound that completes
            if pi == 0 && stats.capped && !failed {
                capped.fetch_add(1, Relaxed);
                ex.max_dev = 2;
                ex.cap_runs = tier.pick(3000, 40000);
                let s2 = explore(&setup, &ex, &RunOpts::default(), |r, prefix| {
                    steps.fetch_add(r.steps as u64, Relaxed);
                    outcomes.insert(outcome_string(r));
                    if let Some((key, what)) = judge(r, &exp) {
                        ctx.violation(
                            &key_for(&script, &key),
                            &what,
                            json!({"script": script, "prefix": prefix, "taps": false,
                                   "expected": format!("{exp:?}"), "observed": outcome_string(r)}),
                        );
                        failed = true;
                        return false;
                    }
                    true
                });
                stats.runs += s2.runs;
                stats.decision_points += s2.decision_points;
                stats.with_deviation += s2.with_deviation;
                stats.max_depth = stats.max_depth.max(s2.max_depth);
            }
            execs.fetch_add(stats.runs as u64, Relaxed);
            points.fetch_add(stats.decision_points as u64, Relaxed);
            deviating.fetch_add(stats.with_deviation as u64, Relaxed);
            discarded.fetch_add(stats.discarded as u64, Relaxed);
            max_depth.fetch_max(stats.max_depth as u64, Relaxed);
            if failed {
                break;
            }
        }
        if outcomes.len() > 1 {
            multi_outcome.fetch_add(1, Relaxed);
        }
        samples.offer(|| json!({"script": script, "expected": format!("{:?}", exp.traces), "status": exp.status}));
    });

    if machinery.load(Relaxed) > 0 {
        println!("MACHINERY failure(s): {}", machinery.load(Relaxed));
        std::process::exit(2);
    }
    let cov = json!({
        "states": points.load(Relaxed) + execs.load(Relaxed),
        "transitions": steps.load(Relaxed),
        "traces_validated_against_impl": execs.load(Relaxed),
        "samples": samples.take(),
        "programs": progs.len(),
        "programs_skipped_unspecified": skipped.load(Relaxed),
        "executions": execs.load(Relaxed),
        "executions_with_deviation": deviating.load(Relaxed),
        "decision_points": points.load(Relaxed),
        "max_decision_depth": max_depth.load(Relaxed),
        "programs_where_unbounded_cooperative_search_was_capped": capped.load(Relaxed),
        "executions_discarded_unrepresentable": discarded.load(Relaxed),
        "programs_with_more_than_one_outcome": multi_outcome.load(Relaxed),
        "bounds": if thorough {
            "cooperative schedules: all (cap 20000 runs/program, then deviation bound 2); syscall-tap preemption: deviation bound 2 (cap 6000)"
        } else {
            "cooperative schedules: all (cap 1500 runs/program, then deviation bound 2); syscall-tap preemption: deviation bound 1 (cap 400)"
        },
        "explanation": "states = schedule-tree nodes visited (decision points + completed executions), transitions = process polls executed, every execution is a run of the real shell on the simulated OS under a controlled executor; oracle = refsh sequential semantics per process + no deadlock/livelock + every child reaped, nothing alive",
    });
    ctx.finish(
        cov,
        &[
            "schedules are orders of polls of simulated processes at blocking points (and at syscall boundaries with taps); the real kernel is not involved",
            "refsh reference interpreter and probe built-ins are trusted",
        ],
    )
}
