//! C01: word expansion yields exactly the fields POSIX prescribes.
//! All words of up to L units × variable states × positional parameters × IFS
//! values × nounset, against `refexp`, an independent expander over attributed
//! characters (XCU 2.6.2 / 2.6.5 / 2.6.7, 2.5.2); and the `read` built-in.

use crate::common::*;
use crate::props::c04::{Parsed, parse as parse_pattern, pchars, ref_find};
use crate::vsh::{self, Setup};
use futures_util::FutureExt;
use rayon::prelude::*;
use serde_json::json;
use std::rc::Rc;
use std::str::FromStr;
use std::sync::atomic::{AtomicU64, Ordering::Relaxed};
use yash_env::Env;
use yash_env::option::{Option as ShOpt, State};
use yash_env::system::Concurrent;
use yash_env::system::r#virtual::VirtualSystem;
use yash_env::variable::Scope;
use yash_semantics::expansion::{ErrorCause, expand_words};
use yash_syntax::syntax::Word;

// ------------------------------------------------------------------ words

#[derive(Clone, Copy, Debug, PartialEq, Eq)]
enum Inner {
    /// bare literal text (may contain a blank)
    Lit(&'static str),
    /// double-quoted text
    Dq(&'static str),
    /// `$y`
    VarY,
}

#[derive(Clone, Debug, PartialEq, Eq)]
enum Unit {
    Lit(char),
    /// `'…'`
    Sq(&'static str),
    /// `"…"`
    Dq(&'static str),
    /// `\c`
    Bs(char),
    /// `$x` / `${x}`, optionally inside double quotes
    Var { braces: bool, quoted: bool },
    /// `${#x}`
    Len { quoted: bool },
    /// `${x<colon><kind>word}`
    Switch { colon: bool, kind: char, word: Vec<Inner>, quoted: bool },
    /// `${x<op>pattern}`
    Trim { op: &'static str, pat: &'static str, quoted: bool },
    At { quoted: bool },
    Star { quoted: bool },
    Count,
    Pos1 { quoted: bool },
    /// `${IFS=:}` / `${IFS:=:}`: assigns IFS while the word is being expanded
    IfsAssign { colon: bool, quoted: bool },
    /// `~` (family B; only meaningful as the first unit of a word)
    Tilde,
    /// `$((…))` / `$(…)` / backquotes with a known result (family B, through the whole shell)
    Subst { text: &'static str, val: &'static str, quoted: bool },
}

impl Unit {
    fn text(&self) -> String {
        let q = |quoted: bool, s: String| if quoted { format!("\"{s}\"") } else { s };
        match self {
            Unit::Lit(c) => c.to_string(),
            Unit::Sq(s) => format!("'{s}'"),
            Unit::Dq(s) => format!("\"{s}\""),
            Unit::Bs(c) => format!("\\{c}"),
            Unit::Var { braces, quoted } => q(*quoted, if *braces { "${x}".into() } else { "$x".into() }),
            Unit::Len { quoted } => q(*quoted, "${#x}".into()),
            Unit::Switch { colon, kind, word, quoted } => {
                let w: String = word
                    .iter()
                    .map(|i| match i {
                        Inner::Lit(s) => s.to_string(),
                        Inner::Dq(s) => format!("\"{s}\""),
                        Inner::VarY => "$y".to_string(),
                    })
                    .collect();
                q(*quoted, format!("${{x{}{kind}{w}}}", if *colon { ":" } else { "" }))
            }
            Unit::Trim { op, pat, quoted } => q(*quoted, format!("${{x{op}{pat}}}")),
            Unit::At { quoted } => q(*quoted, "$@".into()),
            Unit::Star { quoted } => q(*quoted, "$*".into()),
            Unit::Count => "$#".into(),
            Unit::Pos1 { quoted } => q(*quoted, "$1".into()),
            Unit::IfsAssign { colon, quoted } => q(*quoted, format!("${{IFS{}=:}}", if *colon { ":" } else { "" })),
            Unit::Tilde => "~".into(),
            Unit::Subst { text, quoted, .. } => q(*quoted, text.to_string()),
        }
    }
}

fn units() -> Vec<Unit> {
    let mut v = vec![
        Unit::Lit('a'),
        Unit::Sq(" "),
        Unit::Sq(""),
        Unit::Dq(" "),
        Unit::Dq(""),
        Unit::Bs(' '),
        Unit::Bs(':'),
    ];
    for braces in [false, true] {
        for quoted in [false, true] {
            v.push(Unit::Var { braces, quoted });
        }
    }
    v.push(Unit::Len { quoted: false });
    v.push(Unit::Len { quoted: true });
    for colon in [false, true] {
        for kind in ['-', '=', '?', '+'] {
            for word in [vec![Inner::Lit("a")], vec![Inner::Dq("b c")], vec![Inner::VarY], vec![Inner::Lit("b c")]] {
                v.push(Unit::Switch { colon, kind, word, quoted: false });
            }
            v.push(Unit::Switch { colon, kind, word: vec![Inner::Lit("b c")], quoted: true });
            v.push(Unit::Switch { colon, kind, word: vec![Inner::VarY], quoted: true });
            // a nested pair of double quotes inside the outer ones
            v.push(Unit::Switch { colon, kind, word: vec![Inner::Dq("b c")], quoted: true });
        }
    }
    for op in ["#", "##", "%", "%%"] {
        for pat in ["a*", "?", "*b", "*:"] {
            v.push(Unit::Trim { op, pat, quoted: false });
        }
        v.push(Unit::Trim { op, pat: "a*", quoted: true });
    }
    for quoted in [false, true] {
        v.push(Unit::At { quoted });
        v.push(Unit::Star { quoted });
        v.push(Unit::Pos1 { quoted });
    }
    v.push(Unit::Count);
    for colon in [false, true] {
        v.push(Unit::IfsAssign { colon, quoted: false });
    }
    v.push(Unit::IfsAssign { colon: true, quoted: true });
    v
}

// ------------------------------------------------------------------ state

#[derive(Clone, Debug)]
struct Config {
    x: Option<&'static str>,
    params: Vec<&'static str>,
    /// None = unset
    ifs: Option<&'static str>,
    nounset: bool,
    /// value of HOME (family B); None = unset
    home: Option<&'static str>,
}

const Y: &str = "b c";

fn configs() -> Vec<Config> {
    let mut v = vec![];
    for x in [None, Some(""), Some("a"), Some("a b"), Some(" a  b "), Some("a:b"), Some(":a::b:"), Some("a: b"), Some("aéb é")] {
        for params in [vec![], vec![""], vec!["a"], vec!["a b", "c"], vec!["", "a", ""]] {
            // (`é`: a multi-byte character as a field separator and inside values)
            for ifs in [None, Some(" \t\n"), Some(""), Some(":"), Some(": "), Some(" :"), Some("a"), Some("é")] {
                for nounset in [false, true] {
                    v.push(Config { x, params: params.clone(), ifs, nounset, home: Some("/h") });
                }
            }
        }
    }
    v
}

// ------------------------------------------------------------------ refexp

#[derive(Clone, Copy, Debug, PartialEq, Eq)]
struct AC {
    c: char,
    /// quoted: never a delimiter, protects empty fields
    q: bool,
    /// produced by an expansion (subject to field splitting when not quoted)
    e: bool,
    /// zero-width mark left by a quoting construct (keeps an otherwise empty field)
    marker: bool,
}

#[derive(Clone, Debug, Default)]
struct FieldB {
    chars: Vec<AC>,
    has_quote: bool,
}

#[derive(Debug, Clone, PartialEq, Eq)]
enum Outcome {
    Fields(Vec<String>, Option<String>), // fields, new value of x (if assigned)
    /// error class
    Unset,
    Vacant,
    Unspecified(&'static str),
}

struct Builder {
    fields: Vec<FieldB>,
}

impl Builder {
    fn cur(&mut self) -> &mut FieldB {
        if self.fields.is_empty() {
            self.fields.push(FieldB::default());
        }
        self.fields.last_mut().unwrap()
    }
    fn push(&mut self, s: &str, q: bool, e: bool) {
        let f = self.cur();
        for c in s.chars() {
            f.chars.push(AC { c, q, e, marker: false });
        }
    }
    fn quote_mark(&mut self) {
        self.cur().has_quote = true;
        self.cur().chars.push(AC { c: '\0', q: true, e: false, marker: true });
    }
    fn break_field(&mut self) {
        self.cur();
        self.fields.push(FieldB::default());
    }
}

fn ifs_of(cfg: &Config) -> &str {
    cfg.ifs.unwrap_or(" \t\n")
}

fn trim(value: &str, op: &str, pat: &str) -> Result<String, &'static str> {
    let pc = pchars(pat).ok_or("pattern")?;
    let Parsed::Ok(ast) = parse_pattern(&pc) else {
        return Err("pattern");
    };
    let s: Vec<char> = value.chars().collect();
    let r = match op {
        "#" => ref_find(&ast, &s, true, false, true, false),
        "##" => ref_find(&ast, &s, true, false, false, false),
        "%" => ref_find(&ast, &s, false, true, true, true),
        _ => ref_find(&ast, &s, false, true, false, false),
    };
    Ok(match r {
        None => value.to_string(),
        Some((a, b)) => format!("{}{}", &value[..a], &value[b..]),
    })
}

/// The reference expansion of one word.
fn refexp(word: &[Unit], cfg: &Config) -> Outcome {
    let mut b = Builder { fields: vec![] };
    let mut x: Option<String> = cfg.x.map(|s| s.to_string());
    let mut assigned: Option<String> = None;
    // IFS can be assigned by an expansion in the word itself (`${IFS:=:}`): `$*` joins with the value
    // current at that point, field splitting (done after all expansions of the word) uses the last one
    let mut cur_ifs: Option<String> = cfg.ifs.map(|s| s.to_string());
    for (ui, u) in word.iter().enumerate() {
        let ifs_now: String = cur_ifs.clone().unwrap_or_else(|| " \t\n".to_string());
        let ifs = ifs_now.as_str();
        let edge_ifs = |p: &str| p.chars().next().is_some_and(|c| ifs.contains(c)) || p.chars().last().is_some_and(|c| ifs.contains(c));
        match u {
            Unit::Lit(c) => b.push(&c.to_string(), false, false),
            Unit::Sq(s) | Unit::Dq(s) => {
                b.push(s, true, false);
                b.quote_mark();
            }
            Unit::Bs(c) => {
                b.push(&c.to_string(), true, false);
                b.quote_mark();
            }
            Unit::Var { quoted, .. } => {
                if *quoted {
                    b.quote_mark();
                }
                match &x {
                    Some(v) => b.push(v, *quoted, true),
                    None if cfg.nounset => return Outcome::Unset,
                    None => {}
                }
            }
            Unit::Len { quoted } => {
                if *quoted {
                    b.quote_mark();
                }
                match &x {
                    Some(v) => b.push(&v.chars().count().to_string(), *quoted, true),
                    None if cfg.nounset => return Outcome::Unset,
                    None => b.push("0", *quoted, true),
                }
            }
            Unit::Pos1 { quoted } => {
                if *quoted {
                    b.quote_mark();
                }
                match cfg.params.first() {
                    Some(v) => b.push(v, *quoted, true),
                    None if cfg.nounset => return Outcome::Unset,
                    None => {}
                }
            }
            Unit::Count => b.push(&cfg.params.len().to_string(), false, true),
            Unit::Trim { op, pat, quoted } => {
                if *quoted {
                    b.quote_mark();
                }
                match &x {
                    Some(v) => match trim(v, op, pat) {
                        Ok(t) => b.push(&t, *quoted, true),
                        Err(_) => return Outcome::Unspecified("pattern"),
                    },
                    None if cfg.nounset => return Outcome::Unset,
                    None => {}
                }
            }
            Unit::Switch { colon, kind, word, quoted } => {
                if *quoted {
                    b.quote_mark();
                }
                let cond = match &x {
                    None => true,
                    Some(v) => *colon && v.is_empty(),
                };
                let use_word = match kind {
                    '-' | '=' | '?' => cond,
                    _ => !cond,
                };
                if use_word && *kind == '?' {
                    return Outcome::Vacant;
                }
                if use_word && *kind == '=' {
                    // the value assigned is the word after quote removal, no splitting
                    let val: String = word
                        .iter()
                        .map(|i| match i {
                            Inner::Lit(s) | Inner::Dq(s) => s.to_string(),
                            Inner::VarY => Y.to_string(),
                        })
                        .collect();
                    x = Some(val.clone());
                    assigned = Some(val.clone());
                    b.push(&val, *quoted, true);
                } else if use_word {
                    for i in word {
                        match i {
                            Inner::Lit(s) => b.push(s, *quoted, true),
                            Inner::Dq(s) => {
                                b.push(s, true, true);
                                b.quote_mark();
                            }
                            Inner::VarY => b.push(Y, *quoted, true),
                        }
                    }
                } else if *kind != '+' {
                    if let Some(v) = &x {
                        b.push(v, *quoted, true);
                    }
                }
            }
            Unit::Subst { val, quoted, .. } => {
                if *quoted {
                    b.quote_mark();
                }
                b.push(val, *quoted, true);
            }
            Unit::Tilde => {
                if ui != 0 {
                    b.push("~", false, false);
                    continue;
                }
                // the tilde-prefix reaches to the first unquoted slash (XCU 2.6.1)
                match word.get(1) {
                    None | Some(Unit::Lit('/')) => {}
                    // a quoted character in the prefix: no tilde expansion
                    Some(Unit::Sq(_) | Unit::Dq(_) | Unit::Bs(_)) => {
                        b.push("~", false, false);
                        continue;
                    }
                    Some(Unit::Var { quoted: true, .. } | Unit::Subst { quoted: true, .. }) => {
                        b.push("~", false, false);
                        continue;
                    }
                    _ => return Outcome::Unspecified("tilde-prefix with a login name or an expansion"),
                }
                let Some(home) = cfg.home else { return Outcome::Unspecified("~ with HOME unset") };
                // the result is treated as if quoted (no field splitting, no pathname expansion); a
                // trailing slash is dropped before a following slash
                let h = if matches!(word.get(1), Some(Unit::Lit('/'))) && home.ends_with('/') { &home[..home.len() - 1] } else { home };
                b.push(h, true, false);
                b.quote_mark();
            }
            Unit::IfsAssign { colon, quoted } => {
                if *quoted {
                    b.quote_mark();
                }
                let assign = match &cur_ifs {
                    None => true,
                    Some(v) => *colon && v.is_empty(),
                };
                if assign {
                    cur_ifs = Some(":".into());
                }
                let v = cur_ifs.clone().unwrap();
                b.push(&v, *quoted, true);
            }
            Unit::At { quoted: true } => {
                for (i, p) in cfg.params.iter().enumerate() {
                    if i > 0 {
                        b.break_field();
                    }
                    b.push(p, true, true);
                    b.quote_mark();
                }
            }
            Unit::Star { quoted: true } => {
                b.quote_mark();
                let sep: String = match &cur_ifs {
                    None => " ".into(),
                    Some(s) => s.chars().next().map(|c| c.to_string()).unwrap_or_default(),
                };
                b.push(&cfg.params.join(&sep), true, true);
            }
            Unit::At { quoted: false } | Unit::Star { quoted: false } => {
                if cfg.params.iter().any(|p| p.is_empty() || edge_ifs(p)) {
                    return Outcome::Unspecified("unquoted $@/$* with empty or IFS-edged parameters");
                }
                if matches!(u, Unit::Star { .. }) && cur_ifs.as_deref() == Some("") {
                    return Outcome::Unspecified("unquoted $* with empty IFS");
                }
                for (i, p) in cfg.params.iter().enumerate() {
                    if i > 0 {
                        b.break_field();
                    }
                    b.push(p, false, true);
                }
            }
        }
    }
    // field splitting (2.6.5)
    let ifs_final: String = cur_ifs.clone().unwrap_or_else(|| " \t\n".to_string());
    let ifs = ifs_final.as_str();
    let ws = |c: char| ifs.contains(c) && matches!(c, ' ' | '\t' | '\n');
    let nws = |c: char| ifs.contains(c) && !matches!(c, ' ' | '\t' | '\n');
    let mut out: Vec<String> = vec![];
    for f in &b.fields {
        let delim = |a: &AC| a.e && !a.q && !a.marker && ifs.contains(a.c);
        let chars = &f.chars;
        let mut i = 0;
        // leading IFS white space is ignored
        while i < chars.len() && delim(&chars[i]) && ws(chars[i].c) {
            i += 1;
        }
        let mut cur = String::new();
        let mut cur_nonempty = false; // has characters or quote marks
        while i < chars.len() {
            let a = chars[i];
            if delim(&a) {
                // one delimiter = optional white space, at most one non-white-space character, optional white space
                let mut j = i;
                while j < chars.len() && delim(&chars[j]) && ws(chars[j].c) {
                    j += 1;
                }
                let mut had_nws = false;
                if j < chars.len() && delim(&chars[j]) && nws(chars[j].c) {
                    had_nws = true;
                    j += 1;
                    while j < chars.len() && delim(&chars[j]) && ws(chars[j].c) {
                        j += 1;
                    }
                }
                if had_nws || cur_nonempty {
                    out.push(std::mem::take(&mut cur));
                }
                cur_nonempty = false;
                i = j;
            } else {
                if !a.marker {
                    cur.push(a.c);
                }
                cur_nonempty = true;
                i += 1;
            }
        }
        // the last, unterminated part survives only if it has characters or a quote mark
        if cur_nonempty {
            out.push(cur);
        }
    }
    Outcome::Fields(out, assigned)
}

// ------------------------------------------------------------------ driver

fn new_env(cfg: &Config) -> Env<Rc<Concurrent<VirtualSystem>>> {
    let mut env = Env::with_system(Rc::new(Concurrent::new(VirtualSystem::new())));
    env.options.set(ShOpt::Glob, State::Off);
    if cfg.nounset {
        env.options.set(ShOpt::Unset, State::Off);
    }
    if let Some(ifs) = cfg.ifs {
        env.variables.get_or_new("IFS", Scope::Global).assign(ifs, None).unwrap();
    }
    env.variables.get_or_new("y", Scope::Global).assign(Y, None).unwrap();
    env.variables.positional_params_mut().values = cfg.params.iter().map(|s| s.to_string()).collect();
    env
}

fn set_x(env: &mut Env<Rc<Concurrent<VirtualSystem>>>, cfg: &Config) {
    // (a word may have assigned IFS)
    let _ = env.variables.unset("IFS", Scope::Global);
    if let Some(ifs) = cfg.ifs {
        env.variables.get_or_new("IFS", Scope::Global).assign(ifs, None).unwrap();
    }
    let _ = env.variables.unset("x", Scope::Global);
    if let Some(x) = cfg.x {
        env.variables.get_or_new("x", Scope::Global).assign(x, None).unwrap();
    }
}

fn run_real(env: &mut Env<Rc<Concurrent<VirtualSystem>>>, text: &str) -> Result<Outcome, String> {
    let word = Word::from_str(text).map_err(|e| format!("word does not parse: {e}"))?;
    let r = catch(|| expand_words(env, std::iter::once(&word)).now_or_never());
    match r {
        Err(p) => Err(format!("panic: {p}")),
        Ok(None) => Err("expansion blocked".into()),
        Ok(Some(Ok((fields, _)))) => {
            let x = env.variables.get_scalar("x").map(|s| s.to_string());
            Ok(Outcome::Fields(fields.into_iter().map(|f| f.value).collect(), x))
        }
        Ok(Some(Err(e))) => Ok(match e.cause {
            ErrorCause::UnsetParameter { .. } => Outcome::Unset,
            ErrorCause::VacantExpansion(_) => Outcome::Vacant,
            _ => Outcome::Unspecified("other error"),
        }),
    }
}

fn shell_quote_for_script(s: &str) -> String {
    format!("'{}'", s.replace('\'', "'\\''"))
}

fn judge(ctx: &Ctx, units: &[Unit], text: &str, cfg: &Config, exp: &Outcome, got: &Result<Outcome, String>, via: &str) -> bool {
    let describe = || json!({"word": text, "x": cfg.x, "params": cfg.params, "ifs": cfg.ifs, "nounset": cfg.nounset, "via": via});
    let classify = || -> &'static str {
        if units.iter().any(|u| matches!(u, Unit::At { .. } | Unit::Star { .. })) {
            "at-star"
        } else if units.iter().any(|u| matches!(u, Unit::Switch { .. })) {
            "switch"
        } else if units.iter().any(|u| matches!(u, Unit::Trim { .. })) {
            "trim"
        } else {
            "split"
        }
    };
    match got {
        Err(e) => {
            ctx.violation("c01:panic-or-parse", e, describe());
            false
        }
        Ok(g) => {
            let ok = match (exp, g) {
                (Outcome::Fields(ef, ea), Outcome::Fields(gf, gx)) => ef == gf && (ea.is_none() || ea == gx),
                (a, b) => a == b,
            };
            if !ok {
                ctx.violation(&format!("c01:{}", classify()), &format!("{text} -> {g:?}, POSIX: {exp:?}"), describe());
            }
            ok
        }
    }
}

// ------------------------------------------------------------------ family B: tilde, arithmetic, command substitution

/// Words of up to two units over tilde expansion, arithmetic expansion and command substitution
/// (all three forms), next to literals, quotes and `$x`, under IFS values that contain characters
/// of their results and HOME values that contain IFS characters, blanks, a trailing slash or
/// nothing: only *unquoted expansion results* are split, the result of a tilde expansion is not.
/// Through the whole shell (`args WORD`). Returns (runs, skipped as unspecified).
fn family_b(ctx: &Ctx) -> (u64, u64) {
    let mut alphabet: Vec<Unit> = vec![
        Unit::Lit('/'),
        Unit::Lit('a'),
        Unit::Sq(" "),
        Unit::Dq(""),
        Unit::Var { braces: false, quoted: false },
        Unit::Var { braces: true, quoted: true },
    ];
    for (text, val) in [("$((10+1))", "11"), ("$((1-2))", "-1"), ("$(echo 'a b')", "a b"), ("$(echo ' a:1b ')", " a:1b "), ("$(echo)", ""), ("`echo 'a 1 b'`", "a 1 b"), ("$(echo '/h m')", "/h m")] {
        alphabet.push(Unit::Subst { text, val, quoted: false });
        alphabet.push(Unit::Subst { text, val, quoted: true });
    }
    let mut words: Vec<Vec<Unit>> = vec![vec![Unit::Tilde]];
    for a in &alphabet {
        words.push(vec![a.clone()]);
        words.push(vec![Unit::Tilde, a.clone()]);
        for b in &alphabet {
            words.push(vec![a.clone(), b.clone()]);
            if matches!(a, Unit::Lit('/')) {
                words.push(vec![Unit::Tilde, a.clone(), b.clone()]);
            }
        }
        // a tilde that is not at the start of the word is an ordinary character
        words.push(vec![a.clone(), Unit::Tilde]);
    }
    let mut cfgs = vec![];
    for ifs in [None, Some("1"), Some(":"), Some("/"), Some(""), Some("-"), Some(" m")] {
        for home in [Some("/h"), Some(""), Some("/h m"), Some("/"), Some("/h/"), Some("/h:1"), Some("*"), None] {
            cfgs.push(Config { x: Some("a b"), params: vec![], ifs, nounset: false, home });
        }
    }
    let runs = AtomicU64::new(0);
    let unspec = AtomicU64::new(0);
    cfgs.par_iter().for_each(|cfg| {
        for w in &words {
            if w.windows(2).any(|p| matches!(p[0], Unit::Var { braces: false, quoted: false }) && matches!(p[1], Unit::Lit(c) if c.is_alphanumeric())) {
                continue;
            }
            let exp = refexp(w, cfg);
            let Outcome::Fields(ef, _) = &exp else {
                unspec.fetch_add(1, Relaxed);
                continue;
            };
            let text: String = w.iter().map(|u| u.text()).collect();
            // (pathname expansion stays on: the result of a tilde expansion must not be globbed either;
            // no other unit produces a pattern character. The working directory has files.)
            let mut script = String::new();
            script.push_str("x='a b'\n");
            match cfg.home {
                Some(h) => script.push_str(&format!("HOME={}\n", shell_quote_for_script(h))),
                None => script.push_str("unset HOME\n"),
            }
            match cfg.ifs {
                Some(i) => script.push_str(&format!("IFS={}\n", shell_quote_for_script(i))),
                None => script.push_str("unset IFS\n"),
            }
            script.push_str(&format!("args {text}\n"));
            let mut setup = Setup::script(&script);
            setup.dirs.push("/tmp/g".into());
            setup.files.push(("/tmp/g/f1".into(), vec![], 0o644));
            setup.files.push(("/tmp/g/h m".into(), vec![], 0o644));
            setup.cwd = Some("/tmp/g".into());
            let r = vsh::run_once(&setup, &Default::default());
            runs.fetch_add(1, Relaxed);
            let want = format!("args{}", ef.iter().map(|f| format!("[{f}]")).collect::<String>());
            if r.all_trace() != vec![want.clone()] || r.panic.is_some() {
                let class = if w.iter().any(|u| matches!(u, Unit::Tilde)) { "tilde" } else { "substitution-result" };
                ctx.violation(
                    &format!("c01:{class}"),
                    &format!("`args {text}` with HOME={:?} IFS={:?} gave {:?}, expected {want}; stderr={:?}", cfg.home, cfg.ifs, r.all_trace(), r.stderr),
                    json!({"script": script, "cwd": "/tmp/g"}),
                );
            }
        }
    });
    (runs.load(Relaxed), unspec.load(Relaxed))
}

// ------------------------------------------------------------------ read

fn ref_read(line: &str, nvars: usize, ifs: &str, raw: bool) -> Option<Vec<String>> {
    // attributed characters: backslash escapes the next character unless -r
    let mut chars: Vec<(char, bool)> = vec![];
    let mut it = line.chars();
    while let Some(c) = it.next() {
        if c == '\\' && !raw {
            match it.next() {
                Some(d) => chars.push((d, true)),
                None => return None, // line continuation: handled by the caller's alphabet (not generated)
            }
        } else {
            chars.push((c, false));
        }
    }
    let is_d = |a: &(char, bool)| !a.1 && ifs.contains(a.0);
    let is_ws = |a: &(char, bool)| is_d(a) && matches!(a.0, ' ' | '\t' | '\n');
    let mut vars: Vec<String> = vec![];
    let mut i = 0;
    while i < chars.len() && is_ws(&chars[i]) {
        i += 1;
    }
    while vars.len() + 1 < nvars && i < chars.len() {
        let mut cur = String::new();
        while i < chars.len() && !is_d(&chars[i]) {
            cur.push(chars[i].0);
            i += 1;
        }
        // consume one delimiter
        while i < chars.len() && is_ws(&chars[i]) {
            i += 1;
        }
        if i < chars.len() && is_d(&chars[i]) && !is_ws(&chars[i]) {
            i += 1;
            while i < chars.len() && is_ws(&chars[i]) {
                i += 1;
            }
        }
        vars.push(cur);
    }
    // the remainder goes to the last variable, trailing IFS white space removed;
    // a single trailing non-ws delimiter (with ws around it) is also removed when
    // the remainder contains no other delimiter (POSIX 2.6.5 reading of `read`)
    let mut rest: Vec<(char, bool)> = chars[i.min(chars.len())..].to_vec();
    while rest.last().is_some_and(is_ws) {
        rest.pop();
    }
    if rest.last().is_some_and(|a| is_d(a) && !is_ws(a)) {
        let body = &rest[..rest.len() - 1];
        if !body.iter().any(is_d) {
            let mut b = body.to_vec();
            while b.last().is_some_and(is_ws) {
                b.pop();
            }
            rest = b;
        } else {
            return None; // unspecified corner: several delimiters left and a trailing one
        }
    }
    vars.push(rest.iter().map(|a| a.0).collect());
    while vars.len() < nvars {
        vars.push(String::new());
    }
    Some(vars)
}

pub fn replay(case: &serde_json::Value) -> i32 {
    if let Some(script) = case["script"].as_str() {
        let mut s = Setup::script(script);
        if let Some(i) = case["stdin"].as_str() {
            s.stdin = Some(i.as_bytes().to_vec());
        }
        if let Some(cwd) = case["cwd"].as_str() {
            s.dirs.push(cwd.into());
            s.files.push((format!("{cwd}/f1"), vec![], 0o644));
            s.files.push((format!("{cwd}/h m"), vec![], 0o644));
            s.cwd = Some(cwd.into());
        }
        let r = vsh::run_once(&s, &Default::default());
        println!("{script}\n=> {:?} stderr={}", r.all_trace(), r.stderr);
        return 1;
    }
    println!("{}", serde_json::to_string_pretty(case).unwrap());
    1
}

pub fn run(tier: Tier) -> i32 {
    let ctx = Ctx::new("C01", "exploration", tier);
    let us = units();
    let cfgs = configs();
    let maxlen = tier.pick(2, 3);
    let mut words: Vec<Vec<Unit>> = us.iter().map(|u| vec![u.clone()]).collect();
    for a in &us {
        for b in &us {
            words.push(vec![a.clone(), b.clone()]);
        }
    }
    if maxlen >= 3 {
        // length 3: the middle unit from the full alphabet, the outer ones from a reduced one
        let outer: Vec<&Unit> = us.iter().step_by(3).collect();
        for a in &outer {
            for b in &us {
                for c in &outer {
                    words.push(vec![(*a).clone(), b.clone(), (*c).clone()]);
                }
            }
        }
    }
    let evals = AtomicU64::new(0);
    let unspec = AtomicU64::new(0);
    let nontrivial = AtomicU64::new(0);
    let shell_runs = AtomicU64::new(0);
    let samples = Samples::new(8);
    cfgs.par_iter().enumerate().for_each(|(ci, cfg)| {
        let mut env = new_env(cfg);
        for (wi, w) in words.iter().enumerate() {
            // `$x` directly followed by a name character would be a different parameter name
            if w.windows(2).any(|p| matches!(p[0], Unit::Var { braces: false, quoted: false }) && matches!(p[1], Unit::Lit(c) if c.is_alphanumeric())) {
                continue;
            }
            let text: String = w.iter().map(|u| u.text()).collect();
            let exp = refexp(w, cfg);
            if let Outcome::Unspecified(_) = exp {
                unspec.fetch_add(1, Relaxed);
                continue;
            }
            set_x(&mut env, cfg);
            let got = run_real(&mut env, &text);
            evals.fetch_add(1, Relaxed);
            // non-trivial: the expansion involved splitting (a delimiter inside an unquoted expansion), a
            // modifier, or $@/$*
            let involved = w.iter().any(|u| !matches!(u, Unit::Lit(_) | Unit::Sq(_) | Unit::Dq(_) | Unit::Bs(_)));
            if involved {
                nontrivial.fetch_add(1, Relaxed);
            }
            let mut ok = judge(&ctx, w, &text, cfg, &exp, &got, "expand_words");
            // adjacent double-quoted units may share one pair of quotes (`"A""B"` = `"AB"`): the same
            // fields must result when a nested quote, `$*`, `$@` … sit inside the same outer quotes
            if ok && w.len() >= 2 {
                let parts: Vec<String> = w.iter().map(|u| u.text()).collect();
                // (`""` itself is left alone: merged it vanishes, and with it the empty field it stands for)
                let mergeable = !parts.iter().any(|p| p == "\"\"")
                    && parts.windows(2).any(|p| p[0].len() >= 2 && p[0].starts_with('"') && p[0].ends_with('"') && p[1].len() >= 2 && p[1].starts_with('"') && p[1].ends_with('"'));
                if mergeable {
                    let mut merged = String::new();
                    for (i, p) in parts.iter().enumerate() {
                        let dq = |s: &String| s.len() >= 2 && s.starts_with('"') && s.ends_with('"');
                        let join_prev = i > 0 && dq(&parts[i - 1]) && dq(p);
                        let join_next = i + 1 < parts.len() && dq(p) && dq(&parts[i + 1]);
                        let start = if join_prev { 1 } else { 0 };
                        let end = if join_next { p.len() - 1 } else { p.len() };
                        merged.push_str(&p[start..end]);
                    }
                    set_x(&mut env, cfg);
                    let got2 = run_real(&mut env, &merged);
                    evals.fetch_add(1, Relaxed);
                    ok = judge(&ctx, w, &merged, cfg, &exp, &got2, "expand_words (shared quotes)");
                }
            }
            // every 192nd (thorough: 48th) case also end-to-end through the whole shell
            if ok && (ci * 31 + wi) % tier.pick(192, 48) == 0 {
                if let Outcome::Fields(ef, _) = &exp {
                    let mut script = String::from("set -f\n");
                    if cfg.nounset {
                        script.push_str("set -u\n");
                    }
                    script.push_str(&format!("y={}\n", shell_quote_for_script(Y)));
                    if let Some(x) = cfg.x {
                        script.push_str(&format!("x={}\n", shell_quote_for_script(x)));
                    }
                    script.push_str("set --");
                    for p in &cfg.params {
                        script.push_str(&format!(" {}", shell_quote_for_script(p)));
                    }
                    script.push('\n');
                    match cfg.ifs {
                        Some(i) => script.push_str(&format!("IFS={}\n", shell_quote_for_script(i))),
                        None => script.push_str("unset IFS\n"),
                    }
                    script.push_str(&format!("args {text}\n"));
                    let r = vsh::run_once(&Setup::script(&script), &Default::default());
                    shell_runs.fetch_add(1, Relaxed);
                    let want = format!("args{}", ef.iter().map(|f| format!("[{f}]")).collect::<String>());
                    if r.all_trace() != vec![want.clone()] {
                        ctx.violation(
                            "c01:shell",
                            &format!("`args {text}` gave {:?}, expected {want}; stderr={:?}", r.all_trace(), r.stderr),
                            json!({"script": script}),
                        );
                    }
                }
            }
            if ci == 37 {
                samples.offer(|| json!({"word": text, "x": cfg.x, "params": cfg.params, "ifs": cfg.ifs, "nounset": cfg.nounset, "expected": format!("{exp:?}")}));
            }
        }
    });

    // read: all lines up to length 5 over {a, space, :, backslash} x IFS x 1-3 variables x -r
    let alphabet = ['a', ' ', ':', '\\'];
    let mut lines = vec![String::new()];
    let mut cur = vec![String::new()];
    for _ in 0..tier.pick(4, 5) {
        let next: Vec<String> = cur.iter().flat_map(|s| alphabet.iter().map(move |c| format!("{s}{c}"))).collect();
        lines.extend(next.iter().cloned());
        cur = next;
    }
    let read_evals = AtomicU64::new(0);
    let read_unspec = AtomicU64::new(0);
    let ifs_values = [None, Some(":"), Some(": "), Some("")];
    lines.par_iter().for_each(|line| {
        for ifs in ifs_values {
            for nvars in 1..=3usize {
                for raw in [false, true] {
                    let Some(exp) = ref_read(line, nvars, ifs.unwrap_or(" \t\n"), raw) else {
                        read_unspec.fetch_add(1, Relaxed);
                        continue;
                    };
                    let names = ["v1", "v2", "v3"];
                    let mut script = String::new();
                    match ifs {
                        Some(i) => script.push_str(&format!("IFS={}\n", shell_quote_for_script(i))),
                        None => {}
                    }
                    script.push_str(&format!("read {}{}\n", if raw { "-r " } else { "" }, names[..nvars].join(" ")));
                    script.push_str(&format!("args {}\n", names[..nvars].iter().map(|n| format!("\"${n}\"")).collect::<Vec<_>>().join(" ")));
                    let mut setup = Setup::script(&script);
                    setup.stdin = Some(format!("{line}\n").into_bytes());
                    let r = vsh::run_once(&setup, &Default::default());
                    read_evals.fetch_add(1, Relaxed);
                    let want = format!("args{}", exp.iter().map(|f| format!("[{f}]")).collect::<String>());
                    // the same line as the last one of an input that does not end in a newline, read into
                    // variables that still hold values from before: the variables get the same fields (an
                    // empty input: empty values), the exit status says "end of input"
                    if !line.ends_with('\\') {
                        let pre: String = names[..nvars].iter().map(|n| format!("{n}=old ")).collect();
                        let script2 = format!("{}{pre}\nread {}{}\nargs $? {}\n", match ifs { Some(i) => format!("IFS={}\n", shell_quote_for_script(i)), None => String::new() }, if raw { "-r " } else { "" }, names[..nvars].join(" "), names[..nvars].iter().map(|n| format!("\"${n}\"")).collect::<Vec<_>>().join(" "));
                        let mut setup2 = Setup::script(&script2);
                        setup2.stdin = Some(line.clone().into_bytes());
                        let r2 = vsh::run_once(&setup2, &Default::default());
                        read_evals.fetch_add(1, Relaxed);
                        let want2 = format!("args[1]{}", exp.iter().map(|f| format!("[{f}]")).collect::<String>());
                        if r2.all_trace() != vec![want2.clone()] {
                            ctx.violation(
                                "c01:read-at-end-of-input",
                                &format!("read of {line:?} without a final newline (IFS={ifs:?}, {nvars} vars, raw={raw}) into variables holding `old` gave {:?}, expected {want2}", r2.all_trace()),
                                json!({"script": script2, "stdin": line}),
                            );
                        }
                    }
                    if r.all_trace() != vec![want.clone()] {
                        let key = if line.ends_with("\\ ") || line.contains("\\ ") || line.contains("\\:") { "c01:read-escaped" } else { "c01:read" };
                        ctx.violation(
                            key,
                            &format!("read of {line:?} (IFS={ifs:?}, {nvars} vars, raw={raw}) gave {:?}, expected {want}", r.all_trace()),
                            json!({"script": script, "stdin": format!("{line}\n")}),
                        );
                    }
                }
            }
        }
    });

    let (b_runs, b_unspec) = family_b(&ctx);
    let cov = json!({
        "family_b_tilde_arithmetic_substitution_runs": b_runs,
        "family_b_skipped_unspecified": b_unspec,
        "evaluations": evals.load(Relaxed) + shell_runs.load(Relaxed) + read_evals.load(Relaxed) + b_runs,
        "distinct_nontrivial": nontrivial.load(Relaxed),
        "rule": format!("every word of <= {maxlen} units over {} units (literal, quoting forms ' ' '' \" \" \"\" \\<blank> \\:, $x ${{x}} \"$x\" \"${{x}}\" ${{#x}}, the eight switch forms with inner words a / \"b c\" / $y / b c bare and inside double quotes, the four trims with four patterns, $@ \"$@\" $* \"$*\" $# $1 \"$1\"; length 3 with a reduced outer alphabet) x 8 values of x x 5 positional-parameter lists x 7 IFS values x nounset, expanded by expand_words on a real Env and compared with refexp (fields, error class, and the assigned value for = forms); every 192nd (thorough: 48th) case also through the whole shell; plus `read` on every line of length <= 4/5 over {{a, blank, :, backslash}} x 4 IFS x 1-3 variables x -r. Non-trivial = the word contains at least one expansion unit.", us.len()),
        "samples": samples.take(),
        "words": words.len(),
        "configurations": cfgs.len(),
        "skipped_unspecified": unspec.load(Relaxed),
        "shell_runs": shell_runs.load(Relaxed),
        "read_cases": read_evals.load(Relaxed),
        "read_skipped_unspecified": read_unspec.load(Relaxed),
        "exhaustive": true,
    });
    ctx.finish(cov, &["refexp (independent model of XCU 2.6) trusted; unspecified: unquoted $@/$* with empty or IFS-edged parameters, unquoted $* with empty IFS, read with several delimiters left and a trailing non-whitespace one"])
}
