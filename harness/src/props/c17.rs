//! C17: alias substitution terminates and rewrites exactly the eligible words.
//! All alias tables over three names × command lines, against a hand
//! substitution on a tiny tokeniser (POSIX 2.3.1) followed by an alias-free parse.

use crate::common::*;
use crate::props::c06::erase_locations;
use futures_util::FutureExt;
use rayon::prelude::*;
use serde_json::json;
use std::collections::BTreeSet;
use std::sync::atomic::{AtomicU64, Ordering::Relaxed};
use yash_env::alias::{AliasSet, HashEntry};
use yash_syntax::parser::Parser;
use yash_syntax::parser::lex::Lexer;
use yash_syntax::source::Location;
use yash_syntax::syntax::List;

const NAMES: [&str; 3] = ["a", "b", "c"];
/// None = undefined
const VALUES: [Option<&str>; 28] = [
    None,
    Some(""),
    Some("b"),
    Some("b "),
    Some("a"),
    Some("a "),
    Some("x"),
    Some("x y"),
    Some("if"),
    Some("!"),
    Some("{"),
    Some(";"),
    Some("| x"),
    Some("> f"),
    Some("'b'"),
    Some("\\b"),
    Some("2>&1 x "),
    // a blank is a space or a tab
    Some("b\t"),
    Some("x \t"),
    Some("a\t "),
    // values that mention c (self-reference when given to c, the alias that may be global)
    Some("c"),
    Some("c x"),
    Some("x c "),
    // values that end in a redirection operator and a blank: the operand comes from the next word
    Some("x < "),
    Some("> "),
    Some("x 2>| \t"),
    // values that start or end with a newline (a line break is allowed after && || | ( { and keywords)
    Some("\nx"),
    Some("x\n"),
];

const LINES: [&str; 44] = [
    "a",
    "a b",
    "a b c",
    "x a",
    "v=1 a",
    "v=1 a b",
    ">f a",
    "a >f b",
    "a; b",
    "a | b",
    "a && b || c",
    "! a",
    "( a )",
    "( a b )",
    "{ a; }",
    "if a; then b; fi",
    "if x; then a; else b; fi",
    "while a; do b; done",
    "'a'",
    "\\a",
    "\"a\" b",
    "a 'b'",
    "a \\\nb",
    "a\\\n b",
    "x; a b; c",
    "a b c a",
    "a a a",
    "b a",
    "a;b;c",
    "x | a | b",
    "a b >f c",
    "v=1 >f a b",
    // words that are not in command position inside compound-command headers
    "for a in b; do c; done",
    "for i in a b; do a; done",
    "case a in b) a;; esac",
    "case x in (a|b) c;; a) b;; esac",
    "case a in esac",
    "for i in a; do case b in a) c;; esac; done",
    // a command substitution after (or next to) an alias on the same line: the lexer cuts its text
    // out of a buffer into which the replacement has been spliced
    "a $(x)",
    "a b $(x y) c",
    "x; a $(b) $(c)",
    "a && b $(x) || c",
    "$(x) a",
    "a \"$(x)\" b",
];

// ------------------------------------------------------------------ refalias

#[derive(Clone, Debug, PartialEq, Eq)]
enum Tok {
    /// word text, quoted (any quoting character in it)
    Word(String, bool),
    Op(String),
    /// redirection operator (the next word token is its operand)
    Redir(String),
    /// marks the end of a blank-ending alias value
    BlankEnd,
}

#[derive(Clone, Debug)]
struct T {
    tok: Tok,
    inhibit: BTreeSet<String>,
}

fn tokenize(s: &str, inhibit: &BTreeSet<String>) -> Vec<T> {
    let mut out = vec![];
    let cs: Vec<char> = s.chars().collect();
    let mut i = 0;
    let push = |out: &mut Vec<T>, tok: Tok| out.push(T { tok, inhibit: inhibit.clone() });
    while i < cs.len() {
        let c = cs[i];
        if c == ' ' || c == '\t' {
            i += 1;
            continue;
        }
        if c == '\\' && i + 1 < cs.len() && cs[i + 1] == '\n' {
            i += 2; // line continuation disappears
            continue;
        }
        if c == '\n' {
            push(&mut out, Tok::Op("\n".into()));
            i += 1;
            continue;
        }
        let two: String = cs[i..(i + 2).min(cs.len())].iter().collect();
        if two == "&&" || two == "||" || two == ";;" {
            push(&mut out, Tok::Op(two));
            i += 2;
            continue;
        }
        if matches!(c, ';' | '|' | '&' | '(' | ')') {
            push(&mut out, Tok::Op(c.to_string()));
            i += 1;
            continue;
        }
        // redirection operators, possibly with an io number
        let mut j = i;
        while j < cs.len() && cs[j].is_ascii_digit() {
            j += 1;
        }
        if j < cs.len() && (cs[j] == '>' || cs[j] == '<') {
            let mut k = j + 1;
            while k < cs.len() && matches!(cs[k], '>' | '&' | '|') {
                k += 1;
            }
            push(&mut out, Tok::Redir(cs[i..k].iter().collect()));
            i = k;
            continue;
        }
        // a word
        let mut w = String::new();
        let mut quoted = false;
        while i < cs.len() {
            let c = cs[i];
            if c == '\\' && i + 1 < cs.len() && cs[i + 1] == '\n' {
                i += 2;
                continue;
            }
            // `$( … )`: part of the word up to the matching parenthesis (its text is parsed when the
            // substitution is performed, not now)
            if c == '$' && i + 1 < cs.len() && cs[i + 1] == '(' {
                quoted = true;
                let mut depth = 0;
                while i < cs.len() {
                    w.push(cs[i]);
                    if cs[i] == '(' {
                        depth += 1;
                    } else if cs[i] == ')' {
                        depth -= 1;
                        if depth == 0 {
                            i += 1;
                            break;
                        }
                    }
                    i += 1;
                }
                continue;
            }
            if matches!(c, ' ' | '\t' | '\n' | ';' | '|' | '&' | '(' | ')' | '<' | '>') {
                break;
            }
            if c == '\'' {
                quoted = true;
                w.push(c);
                i += 1;
                while i < cs.len() && cs[i] != '\'' {
                    w.push(cs[i]);
                    i += 1;
                }
                if i < cs.len() {
                    w.push('\'');
                    i += 1;
                }
                continue;
            }
            if c == '"' {
                quoted = true;
                w.push(c);
                i += 1;
                while i < cs.len() && cs[i] != '"' {
                    w.push(cs[i]);
                    i += 1;
                }
                if i < cs.len() {
                    w.push('"');
                    i += 1;
                }
                continue;
            }
            if c == '\\' {
                quoted = true;
                w.push(c);
                i += 1;
                if i < cs.len() {
                    w.push(cs[i]);
                    i += 1;
                }
                continue;
            }
            w.push(c);
            i += 1;
        }
        push(&mut out, Tok::Word(w, quoted));
    }
    out
}

fn is_assignment(w: &str) -> bool {
    w.split_once('=').is_some_and(|(n, _)| !n.is_empty() && n.chars().all(|c| c.is_ascii_alphanumeric() || c == '_') && !n.chars().next().unwrap().is_ascii_digit())
}

/// Performs POSIX 2.3.1 alias substitution by hand; returns the substituted text.
fn refalias(line: &str, table: &[Option<&str>; 3], c_is_global: bool) -> Option<String> {
    let lookup = |name: &str| NAMES.iter().position(|n| *n == name).and_then(|i| table[i]);
    // a global alias is substituted in any word of a command (not in redirection operands, which
    // the parser leaves alone)
    let global = |name: &str| c_is_global && name == "c";
    let mut toks: Vec<T> = tokenize(line, &BTreeSet::new());
    let mut out: Vec<String> = vec![];
    let mut i = 0;
    let mut cmd_pos = true;
    // true while nothing of the current command has been read: only then are reserved words recognised
    let mut at_start = true;
    let mut check_next = false;
    // 0 = not in a case command, 1 = subject / `in` expected, 2 = pattern list, 3 = item body
    let mut case_mode = 0u8;
    let mut steps = 0;
    while i < toks.len() {
        steps += 1;
        if steps > 10_000 {
            return None;
        }
        let t = toks[i].clone();
        match &t.tok {
            Tok::BlankEnd => {
                check_next = true;
                i += 1;
            }
            Tok::Op(op) => {
                out.push(op.clone());
                if case_mode == 2 {
                    // `(` and `|` belong to the pattern list; `)` ends it and the body begins
                    if op == ")" {
                        case_mode = 3;
                        cmd_pos = true;
                        at_start = true;
                    } else {
                        cmd_pos = false;
                        at_start = false;
                    }
                    check_next = false;
                    i += 1;
                    continue;
                }
                if case_mode == 3 && op == ";;" {
                    case_mode = 2;
                    cmd_pos = false;
                    at_start = false;
                    check_next = false;
                    i += 1;
                    continue;
                }
                cmd_pos = op != ")";
                at_start = cmd_pos;
                check_next = false;
                i += 1;
            }
            Tok::Redir(op) => {
                // operator and its operand. The operand is an ordinary word as far as "the next word after
                // an alias value ending in a blank" is concerned (dash, bash and yash agree): when the
                // operator was the last token of such a value, the operand is checked for aliases
                out.push(op.clone());
                i += 1;
                // (the first word of a replacement keeps the "to be checked" status of the word it replaces)
                let mut checked = false;
                loop {
                    while i < toks.len() && toks[i].tok == Tok::BlankEnd {
                        checked = true;
                        i += 1;
                    }
                    let Some(t2) = toks.get(i).cloned() else { break };
                    let Tok::Word(w, quoted) = &t2.tok else { break };
                    if checked && !quoted && !t2.inhibit.contains(w) && lookup(w).is_some() {
                        steps += 1;
                        if steps > 10_000 {
                            return None;
                        }
                        let val = lookup(w).unwrap();
                        let mut inh = t2.inhibit.clone();
                        inh.insert(w.clone());
                        let mut rep = tokenize(val, &inh);
                        if val.ends_with(' ') || val.ends_with('\t') {
                            rep.push(T { tok: Tok::BlankEnd, inhibit: BTreeSet::new() });
                        }
                        toks.splice(i..i + 1, rep);
                        continue;
                    }
                    out.push(w.clone());
                    i += 1;
                    break;
                }
                at_start = false;
                check_next = false;
            }
            Tok::Word(w, quoted) => {
                // case command: subject, `in`, patterns and `esac` are never in command position
                if case_mode == 1 || case_mode == 2 {
                    if !quoted && w == "in" && case_mode == 1 {
                        case_mode = 2;
                    } else if !quoted && w == "esac" && case_mode == 2 {
                        case_mode = 0;
                    }
                    out.push(w.clone());
                    cmd_pos = false;
                    at_start = false;
                    check_next = false;
                    i += 1;
                    continue;
                }
                if case_mode == 3 && at_start && !quoted && w == "esac" {
                    case_mode = 0;
                }
                if case_mode == 0 && at_start && !quoted && w == "case" {
                    case_mode = 1;
                    out.push(w.clone());
                    cmd_pos = false;
                    at_start = false;
                    check_next = false;
                    i += 1;
                    continue;
                }
                let eligible = !quoted && (cmd_pos || check_next || global(w)) && !t.inhibit.contains(w) && lookup(w).is_some();
                if eligible {
                    let val = lookup(w).unwrap();
                    let mut inh = t.inhibit.clone();
                    inh.insert(w.clone());
                    let mut rep = tokenize(val, &inh);
                    if val.ends_with(' ') || val.ends_with('\t') {
                        rep.push(T { tok: Tok::BlankEnd, inhibit: BTreeSet::new() });
                    }
                    toks.splice(i..i + 1, rep);
                    // the position keeps its command-position / check-next status for the first token of
                    // the replacement
                    continue;
                }
                out.push(w.clone());
                if cmd_pos && !quoted && is_assignment(w) {
                    // still command position, but no longer the first word
                    at_start = false;
                } else if at_start && !quoted && matches!(w.as_str(), "if" | "then" | "else" | "elif" | "do" | "while" | "until" | "{" | "!") {
                    cmd_pos = true;
                    at_start = true;
                } else if at_start && !quoted && matches!(w.as_str(), "fi" | "done" | "}" | "esac") {
                    cmd_pos = false;
                    at_start = false;
                } else {
                    cmd_pos = false;
                    at_start = false;
                }
                check_next = false;
                i += 1;
            }
        }
    }
    // join: operators and words separated by blanks (newline as is)
    let mut s = String::new();
    for t in out {
        if t == "\n" {
            s.push('\n');
        } else {
            if !s.is_empty() && !s.ends_with('\n') {
                s.push(' ');
            }
            s.push_str(&t);
        }
    }
    Some(s)
}

// ------------------------------------------------------------------ real side

fn parse_with(src: &str, aliases: &AliasSet) -> Result<Vec<List>, String> {
    let mut lexer = Lexer::with_code(src);
    let mut cfg = Parser::config();
    cfg.aliases(aliases);
    let mut parser = cfg.input(&mut lexer);
    let mut out = vec![];
    let mut guard = 0;
    loop {
        guard += 1;
        if guard > 10_000 {
            return Err("HANG".into());
        }
        match parser.command_line().now_or_never() {
            None => return Err("BLOCKED".into()),
            Some(Ok(Some(l))) => out.push(l),
            Some(Ok(None)) => return Ok(out),
            Some(Err(e)) => return Err(format!("syntax error: {e}")),
        }
    }
}

fn structure(lists: &[List]) -> String {
    let non_empty: Vec<&List> = lists.iter().filter(|l| !l.0.is_empty()).collect();
    erase_locations(&format!("{non_empty:?}"))
}

pub fn replay(case: &serde_json::Value) -> i32 {
    if let (Some(w), Some(h)) = (case["with_aliases"].as_str(), case["by_hand"].as_str()) {
        for (script, file) in [(w, case["file_with"].as_str().unwrap_or("")), (h, case["file_plain"].as_str().unwrap_or(""))] {
            let mut setup = crate::vsh::Setup::script(script);
            setup.files.push(("/tmp/al".into(), format!("{file}\n").into_bytes(), 0o644));
            let r = crate::vsh::run_once(&setup, &Default::default());
            println!("script:\n{script}\n--\nend={:?} stdout={:?}\ntrace={:?}\nstderr={}\n", r.end, r.stdout, r.trace_by_proc(), r.stderr);
        }
        return 1;
    }
    println!("{}", serde_json::to_string_pretty(case).unwrap());
    1
}

/// Through the whole shell: "the commands executed equal those obtained by performing these textual
/// substitutions by hand" wherever the command line happens to be parsed — by the shell itself, in a
/// forked child (`$( )`, back-quotes), by `eval` or `.` in the shell, in a subshell, a pipeline
/// element or an asynchronous list, in a function body. Differential: the script with `alias`
/// definitions on its first line against the script with the hand-substituted text in their place.
/// Returns (runs, pairs compared).
fn through_the_shell(ctx: &Ctx) -> (u64, u64) {
    use crate::vsh::{self, Setup};
    const VALS: [Option<&str>; 12] = [None, Some("p k"), Some("p k "), Some("b"), Some("b "), Some("a"), Some("p k; p m"), Some("! s 1"), Some("if s 0; then p t; fi"), Some("s 0 &&"), Some("p k >/dev/null"), Some("p k |")];
    const TEMPLATES: [&str; 17] = [
        "@",
        "echo $(@)",
        "echo \"$(@)\"",
        "echo `@`",
        "(@)",
        "@ | cat",
        "@ &\nwait",
        "eval '@'",
        "(eval '@')",
        "eval '@' | cat",
        "{ eval '@'; } &\nwait",
        "x=$(eval '@'); echo \"$x\"",
        ". /tmp/al",
        "(. /tmp/al)",
        "f() { @\n}; f",
        "(f() { @\n}; f)",
        "s 0 && (eval '@') || p no",
    ];
    let mut work: Vec<(usize, usize, &str, &str)> = vec![];
    for (ia, _) in VALS.iter().enumerate().skip(1) {
        for (ib, _) in VALS.iter().enumerate() {
            for piece in ["a", "a b", "a p z"] {
                for t in TEMPLATES {
                    work.push((ia, ib, piece, t));
                }
            }
        }
    }
    let runs = AtomicU64::new(0);
    let pairs = AtomicU64::new(0);
    work.par_iter().for_each(|(ia, ib, piece, template)| {
        let table: [Option<&str>; 3] = [VALS[*ia], VALS[*ib], None];
        let Some(by_hand) = refalias(piece, &table, false) else { return };
        // only texts that are complete commands on their own can be planted everywhere
        if parse_with(&by_hand, &AliasSet::new()).is_err() || by_hand.contains('\'') {
            return;
        }
        let defs: String = NAMES.iter().zip(table.iter()).filter_map(|(n, v)| v.map(|v| format!("alias {n}='{v}'\n"))).collect();
        let with_alias = format!("{defs}{}\np end\n", template.replace('@', piece));
        let plain = format!("{}\np end\n", template.replace('@', &by_hand));
        let run = |script: &str, file: &str| {
            let mut setup = Setup::script(script);
            setup.files.push(("/tmp/al".into(), format!("{file}\n").into_bytes(), 0o644));
            vsh::run_once(&setup, &Default::default())
        };
        let _g = case_guard(format!("alias through the shell: {with_alias}"));
        let a = run(&with_alias, piece);
        let b = run(&plain, &by_hand);
        runs.fetch_add(2, Relaxed);
        pairs.fetch_add(1, Relaxed);
        let obs = |r: &vsh::Run| (format!("{:?}", r.end), r.stdout.clone(), r.trace_by_proc(), r.stderr.is_empty(), r.panic.is_some());
        if obs(&a) != obs(&b) {
            ctx.violation(
                "c17:commands-executed-differ-from-hand-substitution",
                &format!("with the aliases defined: {with_alias:?} gave {:?}; substituted by hand: {plain:?} gave {:?}", obs(&a), obs(&b)),
                json!({"with_aliases": with_alias, "by_hand": plain, "file_with": piece, "file_plain": by_hand}),
            );
        }
    });
    (runs.load(Relaxed), pairs.load(Relaxed))
}

pub fn run(tier: Tier) -> i32 {
    let ctx = Ctx::new("C17", "exploration", tier);
    let nv = VALUES.len();
    let evals = AtomicU64::new(0);
    let substituted = AtomicU64::new(0);
    let unspec = AtomicU64::new(0);
    let samples = Samples::new(8);
    // (value of a, value of b, value of c, c is a global alias)
    let mut tables: Vec<([usize; 3], bool)> = (0..nv * nv * nv).map(|k| ([k % nv, (k / nv) % nv, k / (nv * nv)], false)).collect();
    let globals: Vec<([usize; 3], bool)> = tables.iter().filter(|(idx, _)| idx[2] != 0).map(|(idx, _)| (*idx, true)).collect();
    tables.extend(globals);
    let thin = tier.pick(1, 1);
    tables.par_iter().enumerate().for_each(|(ti, (idx, c_global))| {
        let table: [Option<&str>; 3] = [VALUES[idx[0]], VALUES[idx[1]], VALUES[idx[2]]];
        let mut set = AliasSet::new();
        for (n, v) in NAMES.iter().zip(table.iter()) {
            if let Some(v) = v {
                set.insert(HashEntry::new(n.to_string(), v.to_string(), *c_global && *n == "c", Location::dummy("alias")));
            }
        }
        for (li, line) in LINES.iter().enumerate() {
            if (ti + li) % thin != 0 {
                continue;
            }
            let _guard = case_guard(json!({"aliases": format!("{table:?}"), "c_global": c_global, "line": line}).to_string());
            evals.fetch_add(1, Relaxed);
            let describe = |extra: serde_json::Value| json!({"c_is_global_alias": c_global, "aliases": NAMES.iter().zip(table.iter()).map(|(n, v)| format!("{n}={v:?}")).collect::<Vec<_>>(), "line": line, "detail": extra});
            let got = catch(|| parse_with(line, &set));
            let got = match got {
                Err(p) => {
                    ctx.violation("c17:panic", &format!("panic: {p}"), describe(json!(null)));
                    continue;
                }
                Ok(Err(e)) if e == "HANG" || e == "BLOCKED" => {
                    ctx.violation("c17:hang", &format!("alias substitution does not terminate on {line:?}"), describe(json!(null)));
                    continue;
                }
                Ok(r) => r,
            };
            let Some(text) = refalias(line, &table, *c_global) else {
                unspec.fetch_add(1, Relaxed);
                continue;
            };
            if text != *line {
                substituted.fetch_add(1, Relaxed);
            }
            let want = parse_with(&text, &AliasSet::new());
            let same = match (&got, &want) {
                (Ok(a), Ok(b)) => structure(a) == structure(b),
                (Err(_), Err(_)) => true,
                _ => false,
            };
            if !same {
                let key = if *c_global {
                    "c17:global-alias"
                } else if LINES[li].contains("\\\n") {
                    "c17:line-continuation"
                } else if table.iter().flatten().any(|v| v.contains('>') || v.contains('|') || v.contains(';') || *v == "{" || *v == "!" || *v == "if") {
                    "c17:operator-or-keyword-from-alias"
                } else {
                    "c17:substitution"
                };
                ctx.violation(
                    key,
                    &format!(
                        "line {line:?} with aliases {:?}: by hand it reads {text:?} ({}), the parser produced {}",
                        NAMES.iter().zip(table.iter()).filter(|(_, v)| v.is_some()).map(|(n, v)| format!("{n}='{}'", v.unwrap())).collect::<Vec<_>>(),
                        match &want { Ok(l) => l.iter().map(|x| x.to_string()).collect::<Vec<_>>().join(" // "), Err(e) => e.clone() },
                        match &got { Ok(l) => l.iter().map(|x| x.to_string()).collect::<Vec<_>>().join(" // "), Err(e) => e.clone() },
                    ),
                    describe(json!({"hand_substituted": text})),
                );
            }
            if ti == 777 {
                samples.offer(|| describe(json!({"hand_substituted": text})));
            }
        }
    });
    let (shell_runs, shell_pairs) = through_the_shell(&ctx);
    let cov = json!({
        "through_the_shell_runs": shell_runs,
        "through_the_shell_pairs_compared": shell_pairs,
        "evaluations": evals.load(Relaxed) + shell_runs,
        "distinct_nontrivial": substituted.load(Relaxed),
        "rule": format!("every alias table over names a,b,c with each name undefined or one of {} values (empty, other names with and without trailing blank, itself, x, x y, if, !, {{, ;, | x, > f, 'b', \\b, 2>&1 x , values ending in a redirection operator and a blank, values starting / ending with a newline) = {} tables x {} command lines placing the names in command, argument, post-assignment, post-redirection, post-keyword, post-! | && ( positions, quoted, and across line continuations (quick: every second (table,line) pair), and the same tables with c marked as a global alias (substituted in any word of a command); the real parser with the alias table must terminate and produce the tree of the hand-substituted text parsed without aliases (Locations erased). Non-trivial = the hand substitution changed the line.", nv - 1, tables.len(), LINES.len()),
        "samples": samples.take(),
        "tables": tables.len(),
        "lines": LINES.len(),
        "skipped_unspecified": unspec.load(Relaxed),
        "exhaustive": true,
    });
    ctx.finish(cov, &["refalias (POSIX 2.3.1 on a tokenizer for this alphabet) trusted", "global aliases: only the rule 'substituted in any word of a simple command' is asserted (redirection operands and other word contexts are a TODO in the parser and undocumented)"])
}
