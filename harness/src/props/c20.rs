//! C20: built-ins accept every equivalent spelling of an invocation, and only
//! those. (a) the generic parser on every option-spec set × argument vector
//! against a transcription of the Utility Syntax Guidelines; start-up argument
//! parser under spelling rewrites; (b) every documented option of every
//! built-in in all equivalent spellings through the whole shell.

use crate::common::*;
use crate::vsh::{self, *};
use rayon::prelude::*;
use serde_json::json;
use std::collections::BTreeMap;
use std::sync::atomic::{AtomicU64, Ordering::Relaxed};
use yash_builtin::common::syntax::{Mode, OptionArgumentSpec, OptionSpec, ParseError, parse_arguments};
use yash_env::semantics::Field;

// ------------------------------------------------------------------ (a) generic parser

#[derive(Clone, Copy, Debug)]
struct Spec {
    short: Option<char>,
    long: Option<&'static str>,
    arg: bool,
}

const SPECS: [Spec; 7] = [
    Spec { short: Some('a'), long: None, arg: false },
    Spec { short: Some('b'), long: None, arg: false },
    Spec { short: Some('o'), long: None, arg: true },
    Spec { short: None, long: Some("long"), arg: false },
    Spec { short: None, long: Some("lone"), arg: false },
    Spec { short: None, long: Some("opt"), arg: true },
    Spec { short: Some('l'), long: Some("lo"), arg: false },
];

const ARGS: [&str; 19] = [
    "-", "--", "-a", "-ab", "-b", "-oX", "-o", "-aoX", "--long", "--lo", "--l", "--lon", "--opt=X", "--opt", "--opt=X=Y", "--opt=", "--long=X",
    "X", "-z",
];

#[derive(Debug, Clone, PartialEq, Eq)]
enum Out {
    Ok(Vec<(usize, Option<String>)>, Vec<String>),
    UnknownShort,
    UnknownLong,
    Ambiguous,
    Missing,
    Unexpected,
    NonPortable,
    Unseparated,
}

/// Transcription of the Utility Syntax Guidelines + the documented extensions.
fn refgetopt(specs: &[(usize, Spec)], args: &[&str], extensions: bool) -> Out {
    let mut opts = vec![];
    let mut i = 0;
    while i < args.len() {
        let a = args[i];
        if a == "--" {
            i += 1;
            break;
        }
        if let Some(body) = a.strip_prefix("--") {
            let (name, value) = match body.split_once('=') {
                Some((n, v)) => (n, Some(v)),
                None => (body, None),
            };
            let exact: Vec<&(usize, Spec)> = specs.iter().filter(|(_, s)| s.long == Some(name)).collect();
            let cands: Vec<&(usize, Spec)> = if !exact.is_empty() {
                exact
            } else {
                specs.iter().filter(|(_, s)| s.long.is_some_and(|l| l.starts_with(name))).collect()
            };
            if cands.is_empty() {
                return Out::UnknownLong;
            }
            if cands.len() > 1 {
                return Out::Ambiguous;
            }
            let (idx, spec) = *cands[0];
            if !extensions {
                return Out::NonPortable;
            }
            i += 1;
            match (spec.arg, value) {
                (false, None) => opts.push((idx, None)),
                (false, Some(_)) => return Out::Unexpected,
                (true, Some(v)) => opts.push((idx, Some(v.to_string()))),
                (true, None) => {
                    if i >= args.len() {
                        return Out::Missing;
                    }
                    opts.push((idx, Some(args[i].to_string())));
                    i += 1;
                }
            }
            continue;
        }
        if a.starts_with('-') && a.len() > 1 {
            let chars: Vec<char> = a.chars().skip(1).collect();
            let mut k = 0;
            i += 1;
            while k < chars.len() {
                let c = chars[k];
                let Some((idx, spec)) = specs.iter().find(|(_, s)| s.short == Some(c)).copied() else {
                    return Out::UnknownShort;
                };
                k += 1;
                if spec.arg {
                    if k < chars.len() {
                        if !extensions {
                            return Out::Unseparated;
                        }
                        opts.push((idx, Some(chars[k..].iter().collect())));
                    } else {
                        if i >= args.len() {
                            return Out::Missing;
                        }
                        opts.push((idx, Some(args[i].to_string())));
                        i += 1;
                    }
                    break;
                }
                opts.push((idx, None));
            }
            continue;
        }
        break; // first operand ends option parsing ("-" is an operand)
    }
    Out::Ok(opts, args[i..].iter().map(|s| s.to_string()).collect())
}

fn real_getopt(specs: &[(usize, Spec)], args: &[&str], extensions: bool) -> Result<Out, String> {
    let real_specs: Vec<OptionSpec> = specs
        .iter()
        .map(|(_, s)| {
            let mut o = OptionSpec::new();
            if let Some(c) = s.short {
                o = o.short(c);
            }
            if let Some(l) = s.long {
                o = o.long(l);
            }
            if s.arg {
                o = o.argument(OptionArgumentSpec::Required);
            }
            o
        })
        .collect();
    let mode = if extensions { Mode::with_extensions() } else { Mode::default() };
    let fields = Field::dummies(args.iter().copied());
    let r = catch(|| {
        parse_arguments(&real_specs, mode, fields).map(|(opts, operands)| {
            let o: Vec<(usize, Option<String>)> = opts
                .iter()
                .map(|occ| {
                    let pos = real_specs.iter().position(|s| std::ptr::eq(s, occ.spec)).unwrap();
                    (specs[pos].0, occ.argument.as_ref().map(|f| f.value.clone()))
                })
                .collect();
            (o, operands.into_iter().map(|f| f.value).collect::<Vec<_>>())
        }).map_err(|e| match e {
            ParseError::UnknownShortOption(..) => Out::UnknownShort,
            ParseError::UnknownLongOption(..) => Out::UnknownLong,
            ParseError::AmbiguousLongOption(..) => Out::Ambiguous,
            ParseError::MissingOptionArgument(..) => Out::Missing,
            ParseError::UnexpectedOptionArgument(..) => Out::Unexpected,
            ParseError::NonPortableShortOption(..) | ParseError::NonPortableLongOption(..) => Out::NonPortable,
            ParseError::UnseparatedOptionArgument(..) => Out::Unseparated,
            _ => Out::UnknownLong,
        })
    });
    match r {
        Err(p) => Err(p),
        Ok(Ok((o, ops))) => Ok(Out::Ok(o, ops)),
        Ok(Err(e)) => Ok(e),
    }
}

// ------------------------------------------------------------------ start-up arguments

fn startup_equivalences(ctx: &Ctx) -> u64 {
    use yash_cli::startup::args::parse;
    let p = |v: &[&str]| -> String {
        let mut a = vec!["yash"];
        a.extend_from_slice(v);
        format!("{:?}", catch(|| parse(a.iter().map(|s| s.to_string()))))
    };
    let mut n = 0;
    // groups of argument vectors that must parse identically
    let groups: Vec<Vec<Vec<&str>>> = vec![
        vec![vec!["-e", "-u", "script"], vec!["-eu", "script"], vec!["-o", "errexit", "-o", "nounset", "script"], vec!["-oerrexit", "-onounset", "script"],
             vec!["--errexit", "--nounset", "script"], vec!["-e", "-u", "--", "script"], vec!["-eu", "--", "script"]],
        vec![vec!["-c", "cmd", "name", "arg"], vec!["-c", "--", "cmd", "name", "arg"]],
        vec![vec!["-ec", "cmd"], vec!["-e", "-c", "cmd"], vec!["--errexit", "-c", "cmd"], vec!["-o", "errexit", "-c", "cmd"]],
        vec![vec!["-s", "arg"], vec!["-s", "--", "arg"]],
        vec![vec!["+e", "script"], vec!["+o", "errexit", "script"], vec!["++errexit", "script"]],
        vec![vec!["--noclobber", "script"], vec!["-C", "script"], vec!["--noclob", "script"], vec!["-o", "noclobber", "script"], vec!["-o", "no-clobber", "script"]],
        vec![vec!["script", "-e"], vec!["--", "script", "-e"]],
        vec![vec!["-", "arg"], vec!["--", "arg"]].into_iter().take(1).collect(),
    ];
    for g in groups {
        let first = p(&g[0]);
        for v in &g {
            n += 1;
            let r = p(v);
            if r != first {
                ctx.violation(
                    "c20:startup-args",
                    &format!("start-up arguments {v:?} parse as {r}, but the equivalent {:?} parses as {first}", g[0]),
                    json!({"argv": v, "equivalent": g[0]}),
                );
            }
        }
    }
    // malformed ones must be rejected
    for v in [vec!["-Z"], vec!["--nosuchoption"], vec!["-o"], vec!["-o", "nosuch"], vec!["--e"], vec!["-c"]] {
        n += 1;
        let r = p(&v);
        if !r.contains("Err") {
            ctx.violation("c20:startup-args", &format!("malformed start-up arguments {v:?} were accepted: {r}"), json!({"argv": v}));
        }
    }
    n
}

// ------------------------------------------------------------------ (b) documented built-in options

#[derive(Clone, Debug)]
struct DocOpt {
    short: char,
    long: String,
}

/// Reads docs/src/builtins/*.md: builtin name -> documented (-x, --long) pairs
fn catalogue() -> BTreeMap<String, Vec<DocOpt>> {
    let mut m: BTreeMap<String, Vec<DocOpt>> = BTreeMap::new();
    let dir = "/repo/docs/src/builtins";
    let Ok(rd) = std::fs::read_dir(dir) else {
        return m;
    };
    for e in rd.filter_map(|e| e.ok()) {
        let p = e.path();
        if p.extension().is_none_or(|x| x != "md") {
            continue;
        }
        let name = p.file_stem().unwrap().to_string_lossy().into_owned();
        let Ok(text) = std::fs::read_to_string(&p) else {
            continue;
        };
        let mut rest = text.as_str();
        while let Some(i) = rest.find("**`-") {
            let s = &rest[i + 4..];
            let mut chars = s.chars();
            let (Some(c), Some('`')) = (chars.next(), chars.next()) else {
                rest = &rest[i + 4..];
                continue;
            };
            let after = &s[c.len_utf8() + 1..];
            if let Some(tail) = after.strip_prefix("** (**`--") {
                if let Some(end) = tail.find('`') {
                    let long = tail[..end].to_string();
                    let v = m.entry(name.clone()).or_default();
                    if c.is_ascii_alphabetic() && !v.iter().any(|o| o.short == c && o.long == long) {
                        v.push(DocOpt { short: c, long });
                    }
                }
            }
            rest = &rest[i + 4..];
        }
    }
    m
}

struct Usage {
    prelude: &'static str,
    operands: &'static str,
    stdin: &'static str,
    /// options that take an argument: short char -> sample argument
    args: &'static [(char, &'static str)],
    /// operands to use instead when this option is present
    special_operands: &'static [(char, &'static str)],
}

fn usage(builtin: &str) -> Option<Usage> {
    let base = "v=0; w=1; f() { p f; }; alias a=b c=d; cd /tmp; export e=1; readonly r=2\n";
    Some(match builtin {
        "cd" => Usage { prelude: base, operands: "/tmp/d", stdin: "", args: &[], special_operands: &[] },
        "command" => Usage { prelude: base, operands: "args x", stdin: "", args: &[], special_operands: &[('v', "args"), ('V', "args")] },
        "export" | "readonly" | "trap" | "jobs" | "pwd" | "umask" => Usage { prelude: base, operands: "", stdin: "", args: &[], special_operands: &[] },
        "read" => Usage { prelude: base, operands: "x y", stdin: "foo:b\\ar baz\n", args: &[('d', ":")], special_operands: &[] },
        "return" => Usage { prelude: base, operands: "3", stdin: "", args: &[], special_operands: &[] },
        "typeset" => Usage { prelude: base, operands: "v", stdin: "", args: &[], special_operands: &[('f', "f")] },
        "ulimit" => Usage { prelude: base, operands: "", stdin: "", args: &[], special_operands: &[] },
        "unalias" => Usage { prelude: base, operands: "a", stdin: "", args: &[], special_operands: &[('a', "")] },
        "unset" => Usage { prelude: base, operands: "v", stdin: "", args: &[], special_operands: &[('f', "f")] },
        _ => return None,
    })
}

#[derive(Debug, Clone, PartialEq, Eq)]
struct Observed {
    stdout: String,
    stderr_empty: bool,
    status: String,
    snap: String,
}

fn run_invocation(u: &Usage, line: &str) -> Observed {
    let script = format!("{}snap before\n{line}\np st\nsnap after\n", u.prelude);
    let mut setup = Setup::script(&script);
    setup.dirs.push("/tmp/d".into());
    setup.cwd = Some("/".into());
    if !u.stdin.is_empty() {
        setup.stdin = Some(u.stdin.as_bytes().to_vec());
    }
    let r = vsh::run_once(&setup, &Default::default());
    let tr = r.all_trace();
    let status = tr.iter().find(|t| t.starts_with("st:")).cloned().unwrap_or_else(|| format!("{:?}", r.end));
    let snap = tr.iter().find(|t| t.starts_with("snap after ")).cloned().unwrap_or_default();
    // offsets of the standard error file move with the length of diagnostics: not part of the effect
    let mut sections = parse_snapshot(&snap.replace("snap after ", ""));
    if let Some(f) = sections.get_mut("fds") {
        *f = strip_offsets(f);
    }
    sections.remove("status");
    Observed { stdout: r.stdout, stderr_empty: r.stderr.is_empty(), status, snap: format!("{sections:?}") }
}

fn unchanged(u: &Usage, line: &str) -> (bool, Observed) {
    let script = format!("{}snap before\n{line}\np st\nsnap after\n", u.prelude);
    let mut setup = Setup::script(&script);
    setup.dirs.push("/tmp/d".into());
    setup.cwd = Some("/".into());
    let r = vsh::run_once(&setup, &Default::default());
    let tr = r.all_trace();
    let before = tr.iter().find(|t| t.starts_with("snap before ")).map(|s| parse_snapshot(&s["snap before ".len()..]));
    let after = tr.iter().find(|t| t.starts_with("snap after ")).map(|s| parse_snapshot(&s["snap after ".len()..]));
    let status = tr.iter().find(|t| t.starts_with("st:")).cloned().unwrap_or_else(|| format!("{:?}", r.end));
    let same = match (&before, &after) {
        (Some(b), Some(a)) => b.iter().all(|(k, v)| k == "status" || k == "fds" || a.get(k) == Some(v)),
        // a special built-in's usage error makes the shell exit: the state cannot have changed observably
        (Some(_), None) => true,
        _ => false,
    };
    (same, Observed { stdout: r.stdout, stderr_empty: r.stderr.is_empty(), status, snap: String::new() })
}

fn builtin_spellings(ctx: &Ctx, runs: &AtomicU64, groups: &AtomicU64, samples: &Samples) {
    let cat = catalogue();
    let items: Vec<(&String, &Vec<DocOpt>)> = cat.iter().collect();
    items.par_iter().for_each(|(name, opts)| {
        let Some(u) = usage(name) else {
            return;
        };
        let longs: Vec<&str> = opts.iter().map(|o| o.long.as_str()).collect();
        let operands_for = |set: &[&DocOpt]| -> String {
            for o in set {
                if let Some((_, ops)) = u.special_operands.iter().find(|(c, _)| *c == o.short) {
                    return ops.to_string();
                }
            }
            u.operands.to_string()
        };
        let arg_of = |o: &DocOpt| u.args.iter().find(|(c, _)| *c == o.short).map(|(_, a)| *a);
        // option sets: singles and ordered pairs
        let mut sets: Vec<Vec<&DocOpt>> = opts.iter().map(|o| vec![o]).collect();
        for a in opts.iter() {
            for b in opts.iter() {
                if a.short != b.short {
                    sets.push(vec![a, b]);
                }
            }
        }
        for set in sets {
            let ops = operands_for(&set);
            let mut spellings: Vec<String> = vec![];
            // separate shorts
            let shorts: Vec<String> = set
                .iter()
                .map(|o| match arg_of(o) {
                    Some(a) => format!("-{} {a}", o.short),
                    None => format!("-{}", o.short),
                })
                .collect();
            spellings.push(format!("{name} {} {ops}", shorts.join(" ")));
            spellings.push(format!("{name} {} -- {ops}", shorts.join(" ")));
            // attached short argument
            if set.iter().any(|o| arg_of(o).is_some()) {
                let attached: Vec<String> = set
                    .iter()
                    .map(|o| match arg_of(o) {
                        Some(a) => format!("-{}{a}", o.short),
                        None => format!("-{}", o.short),
                    })
                    .collect();
                spellings.push(format!("{name} {} {ops}", attached.join(" ")));
            }
            // grouped shorts (flags first, an option with argument last)
            if set.len() == 2 {
                let (flags, witharg): (Vec<&&DocOpt>, Vec<&&DocOpt>) = set.iter().partition(|o| arg_of(o).is_none());
                if witharg.len() <= 1 && set.iter().position(|o| arg_of(o).is_some()).is_none_or(|p| p == 1) {
                    let mut g = String::from("-");
                    for o in &flags {
                        g.push(o.short);
                    }
                    let mut s = format!("{name} {g}");
                    if let Some(o) = witharg.first() {
                        s = format!("{name} {g}{} {}", o.short, arg_of(o).unwrap());
                    }
                    spellings.push(format!("{s} {ops}"));
                }
            }
            // long names: full, `=`-attached argument, every unambiguous prefix (for single options)
            let full: Vec<String> = set
                .iter()
                .map(|o| match arg_of(o) {
                    Some(a) => format!("--{} {a}", o.long),
                    None => format!("--{}", o.long),
                })
                .collect();
            spellings.push(format!("{name} {} {ops}", full.join(" ")));
            spellings.push(format!("{name} {} -- {ops}", full.join(" ")));
            if set.iter().any(|o| arg_of(o).is_some()) {
                let eq: Vec<String> = set
                    .iter()
                    .map(|o| match arg_of(o) {
                        Some(a) => format!("--{}={a}", o.long),
                        None => format!("--{}", o.long),
                    })
                    .collect();
                spellings.push(format!("{name} {} {ops}", eq.join(" ")));
            }
            if set.len() == 1 {
                let o = set[0];
                for plen in 1..o.long.len() {
                    let prefix = &o.long[..plen];
                    if longs.iter().filter(|l| l.starts_with(prefix)).count() == 1 {
                        let s = match arg_of(o) {
                            Some(a) => format!("--{prefix}={a}"),
                            None => format!("--{prefix}"),
                        };
                        spellings.push(format!("{name} {s} {ops}"));
                    }
                }
                // mixed: short for one, long for the other is covered by pairs below
            } else {
                spellings.push(format!("{name} {} {} {ops}", shorts[0], full[1]));
                spellings.push(format!("{name} {} {} {ops}", full[0], shorts[1]));
            }
            groups.fetch_add(1, Relaxed);
            let base = run_invocation(&u, &spellings[0]);
            runs.fetch_add(1, Relaxed);
            for s in &spellings[1..] {
                let o = run_invocation(&u, s);
                runs.fetch_add(1, Relaxed);
                if o != base {
                    let what = if o.status != base.status || o.stderr_empty != base.stderr_empty { "status/diagnostic" } else if o.stdout != base.stdout { "output" } else { "effect" };
                    let key = if set.len() == 1 { format!("c20:spelling:{name}:{}", set[0].long) } else { format!("c20:spelling-pair:{name}") };
                    ctx.violation(
                        &key,
                        &format!("`{s}` and `{}` differ in {what}: {:?} / {:?} vs {:?} / {:?}", spellings[0], o.status, o.stderr_empty, base.status, base.stderr_empty),
                        json!({"builtin": name, "spelling": s, "reference_spelling": spellings[0], "stdout": o.stdout, "reference_stdout": base.stdout}),
                    );
                    break;
                }
            }
            samples.offer(|| json!({"builtin": name, "spellings": spellings}));
        }
        // malformed invocations: rejected with a diagnostic, non-zero status, no effect
        let mut bad: Vec<String> = vec![format!("{name} -Z {}", u.operands), format!("{name} --no-such-option {}", u.operands)];
        for o in opts.iter() {
            if arg_of(o).is_none() {
                bad.push(format!("{name} --{}=x {}", o.long, u.operands));
            } else {
                bad.push(format!("{name} -{}", o.short));
                bad.push(format!("{name} --{}", o.long));
            }
        }
        // a sign character where an option letter belongs (`-+x`, `-x+`; for the built-ins that
        // also take `+x` options: `+-x`, `-+`, `+-`)
        for o in opts.iter().filter(|o| arg_of(o).is_none()) {
            bad.push(format!("{name} -+{} {}", o.short, u.operands));
            bad.push(format!("{name} -{}+ {}", o.short, u.operands));
            if matches!(name.as_str(), "typeset" | "export" | "readonly" | "local" | "set") {
                bad.push(format!("{name} +-{} {}", o.short, u.operands));
                bad.push(format!("{name} -+ {}", u.operands));
                bad.push(format!("{name} +- {}", u.operands));
            }
        }
        // ambiguous prefixes
        for plen in 1..8 {
            let prefixes: std::collections::BTreeSet<&str> = longs.iter().filter(|l| l.len() > plen).map(|l| &l[..plen]).collect();
            for p in prefixes {
                if longs.iter().filter(|l| l.starts_with(p)).count() > 1 && !longs.contains(&p) {
                    bad.push(format!("{name} --{p} {}", u.operands));
                }
            }
        }
        for line in bad {
            let (same, o) = unchanged(&u, &line);
            runs.fetch_add(1, Relaxed);
            let rejected = o.status != "st:0" && !o.stderr_empty;
            if !rejected || !same {
                ctx.violation(
                    &format!("c20:malformed:{name}"),
                    &format!("malformed invocation `{line}`: status {:?}, diagnostic printed: {}, state unchanged: {same}", o.status, !o.stderr_empty),
                    json!({"builtin": name, "line": line}),
                );
            }
        }
    });
}

/// Built-ins with their own argument parsers (`set`, `kill`): documented equivalent spellings
/// must have identical output, status and effect.
fn bespoke_spellings(ctx: &Ctx, runs: &AtomicU64) {
    let u = usage("pwd").unwrap();
    // kill: every way of naming a signal x every way of passing it (documented in kill.md:
    // -s/-n with a separate or attached argument, the obsolete -SIGNAL form; names in any case,
    // with or without the SIG prefix, or the number)
    let mut kill_groups: Vec<Vec<String>> = vec![];
    for (prelude, name, num) in [("trap '' TERM", "TERM", "15"), ("trap 'p T' USR1", "USR1", "124"), ("trap 'p T' INT", "INT", "2")] {
        let names = [name.to_string(), name.to_lowercase(), format!("SIG{name}"), format!("sig{}", name.to_lowercase()), format!("Sig{}", name.to_lowercase()), num.to_string()];
        let mut g = vec![];
        for n in &names {
            for form in ["-s {}", "-s{}", "-n {}", "-n{}", "-{}", "-s {} --", "-n{} --"] {
                g.push(format!("{prelude}; kill {} $$", form.replace("{}", n)));
            }
        }
        kill_groups.push(g);
    }
    let kill_groups_ref: Vec<Vec<&str>> = kill_groups.iter().map(|g| g.iter().map(|s| s.as_str()).collect()).collect();
    let mut groups: Vec<Vec<&str>> = vec![
        vec!["set -e -u", "set -eu", "set -o errexit -o nounset", "set --errexit --nounset", "set -e -o nounset", "set -eu --", "set -ue"],
        vec!["set -C x y", "set -C -- x y", "set -o noclobber x y", "set --noclobber x y", "set --noclob x y", "set -C - x y"],
        vec!["set -e; set +e", "set -e; set +o errexit", "set -e; set ++errexit"],
        vec!["set -- -e", "set - -e"],
        // only alphanumeric characters matter in long option names, case-insensitively
        vec!["set -e", "set -o errexit", "set -o ErrExit", "set -o err-exit", "set -o err_exit", "set --err-exit", "set -o ERREXIT", "set -o 'err exit'"],
        vec!["set -e; set +o Err-Exit", "set -e; set ++ERREXIT", "set -e; set +e"],
        vec!["set -a -f", "set -af", "set -o allexport -o noglob", "set --allexport --noglob"],
        vec!["trap '' TERM; kill -s TERM $$", "trap '' TERM; kill -sTERM $$", "trap '' TERM; kill -TERM $$", "trap '' TERM; kill -n 15 $$", "trap '' TERM; kill -15 $$",
             "trap '' TERM; kill -s term $$", "trap '' TERM; kill -s SIGTERM $$", "trap '' TERM; kill $$", "trap '' TERM; kill -s TERM -- $$"],
        vec!["trap 'p T' USR1; kill -s USR1 $$", "trap 'p T' USR1; kill -USR1 $$", "trap 'p T' USR1; kill -s usr1 $$", "trap 'p T' USR1; kill -sUSR1 $$"],
        vec!["kill -l 15", "kill -l -- 15", "kill -l TERM", "kill -l 399"],
        vec!["kill -s 0 $$", "kill -0 $$", "kill -n 0 $$", "kill -s0 $$", "kill -n0 $$"],
        vec!["kill -l", "kill -l --"],
        vec!["kill -v 15", "kill -v TERM", "kill -lv 15", "kill -vl TERM", "kill -l -v 15"],
    ];
    groups.extend(kill_groups_ref);
    for g in groups {
        let base = run_invocation(&u, g[0]);
        runs.fetch_add(1, Relaxed);
        for s in &g[1..] {
            let o = run_invocation(&u, s);
            runs.fetch_add(1, Relaxed);
            if o != base {
                ctx.violation(
                    "c20:bespoke-spelling",
                    &format!("`{s}` and `{}` differ: {:?}/{:?}/{:?} vs {:?}/{:?}/{:?}", g[0], o.status, o.stderr_empty, o.stdout, base.status, base.stderr_empty, base.stdout),
                    json!({"builtin": "pwd", "spelling": s, "reference_spelling": g[0]}),
                );
            }
        }
    }
    // `set`: every sequence of up to three option arguments over the three styles (short cluster,
    // -o/+o name, --name/++name) in every order, against the obvious meaning (each argument sets or
    // clears its options, left to right; positional parameters and everything else untouched)
    {
        // (text, [(option name as listed by the snapshot, on?)])
        let toks: [(&str, &[(&str, bool)]); 14] = [
            ("-e", &[("errexit", true)]),
            ("+e", &[("errexit", false)]),
            ("-u", &[("unset", false)]),
            ("+u", &[("unset", true)]),
            ("-eu", &[("errexit", true), ("unset", false)]),
            ("-o errexit", &[("errexit", true)]),
            ("+o errexit", &[("errexit", false)]),
            ("-o nounset", &[("unset", false)]),
            ("--errexit", &[("errexit", true)]),
            ("++errexit", &[("errexit", false)]),
            ("--nounset", &[("unset", false)]),
            ("++nounset", &[("unset", true)]),
            ("--noclobber", &[("clobber", false)]),
            ("-C", &[("clobber", false)]),
        ];
        let n = toks.len();
        let mut seqs: Vec<Vec<usize>> = vec![];
        for a in 0..n {
            seqs.push(vec![a]);
            for b in 0..n {
                seqs.push(vec![a, b]);
                for c in 0..n {
                    seqs.push(vec![a, b, c]);
                }
            }
        }
        seqs.par_iter().for_each(|seq| {
            for tail in ["", " --", " -- x y", " x y"] {
                let line = format!("set {}{tail}", seq.iter().map(|i| toks[*i].0).collect::<Vec<_>>().join(" "));
                let script = format!("set -- p1 p2\n{line}\nsnap after\n");
                let r = vsh::run_once(&Setup::script(&script), &Default::default());
                runs.fetch_add(1, Relaxed);
                let tr = r.all_trace();
                let snap = tr.iter().find(|t| t.starts_with("snap after ")).cloned().unwrap_or_default();
                let sec = parse_snapshot(&snap.replace("snap after ", ""));
                let opts: Vec<&str> = sec.get("options").map(|s| s.split(',').collect()).unwrap_or_default();
                let mut want: BTreeMap<&str, bool> = [("errexit", false), ("unset", true), ("clobber", true)].into_iter().collect();
                for i in seq {
                    for (o, on) in toks[*i].1 {
                        want.insert(o, *on);
                    }
                }
                let params_want = match tail {
                    "" => "[\"p1\", \"p2\"]",
                    " --" => "[]",
                    _ => "[\"x\", \"y\"]",
                };
                let opts_ok = want.iter().all(|(o, on)| opts.contains(o) == *on);
                let params_ok = sec.get("params").map(|s| s.as_str()) == Some(params_want);
                if !opts_ok || !params_ok || !r.stderr.is_empty() || sec.get("status").map(|s| s.as_str()) != Some("0") {
                    ctx.violation(
                        "c20:set-option-sequence",
                        &format!("`{line}`: options {opts:?} (expected {want:?}), positional parameters {:?} (expected {params_want}), status {:?}, stderr {:?}", sec.get("params"), sec.get("status"), r.stderr),
                        json!({"builtin": "pwd", "spelling": line, "script": script}),
                    );
                }
            }
        });
        // an unknown option or a missing option name after a valid long option is still an error
        for bad in ["set --errexit -Z", "set --errexit -o", "set ++errexit -o nosuchoption", "set -e --nosuch", "set --errexit +Z"] {
            let (same, o) = unchanged(&u, bad);
            runs.fetch_add(1, Relaxed);
            if o.status == "st:0" || o.stderr_empty || !same {
                ctx.violation("c20:bespoke-malformed", &format!("malformed `{bad}`: status {:?}, diagnostic {}, unchanged {same}", o.status, !o.stderr_empty), json!({"line": bad}));
            }
        }
    }
    // every built-in: an invocation rejected for an unknown option has no effect, not even through
    // the redirections it carries (they last as long as the command, as for any other command)
    {
        let names: Vec<&'static str> = yash_builtin::iter::<VS>().map(|(n, _)| n).filter(|n| !matches!(*n, "exit" | "return" | "break" | "continue")).collect();
        for name in names {
            for line in [format!("command {name} --no-such-option-zz 7>/tmp/w"), format!("command {name} -Z >/tmp/w2 3<&0"), format!("command {name} --no-such-option-zz=1 2>>/tmp/w3 5>&1")] {
                let script = format!("{}snap before\n{line}\np st\nsnap after\n", u.prelude);
                let mut setup = Setup::script(&script);
                setup.dirs.push("/tmp/d".into());
                setup.cwd = Some("/".into());
                let r = vsh::run_once(&setup, &Default::default());
                runs.fetch_add(1, Relaxed);
                let tr = r.all_trace();
                let sec = |tag: &str| tr.iter().find(|t| t.starts_with(&format!("snap {tag} "))).map(|s| parse_snapshot(&s[format!("snap {tag} ").len()..]));
                let (Some(b), Some(a)) = (sec("before"), sec("after")) else { continue };
                let status = tr.iter().find(|t| t.starts_with("st:")).cloned().unwrap_or_default();
                // (the diagnostic may have gone to a redirected standard error)
                let rejected = status != "st:0";
                if !rejected {
                    continue;
                }
                let same = b.iter().all(|(k, v)| k == "status" || if k == "fds" { a.get(k).map(|x| strip_offsets(x)) == Some(strip_offsets(v)) } else { a.get(k) == Some(v) });
                if !same {
                    let diff: Vec<String> = b.iter().filter(|(k, v)| *k != "status" && a.get(*k) != Some(*v)).map(|(k, v)| format!("{k}: {v:?} -> {:?}", a.get(k))).collect();
                    ctx.violation("c20:rejected-invocation-has-an-effect", &format!("`{line}` is rejected ({status}) but changes the shell: {diff:?}"), json!({"line": line, "script": script}));
                }
            }
        }
    }
    for bad in [
        "set -Z", "set -o nosuchoption", "set --nosuch", "set -o", "kill -s NOSUCHSIG $$", "kill -s", "kill", "set --no",
        // letters and digits outside ASCII are alphanumeric too: these are not spellings of errexit / xtrace
        "set -o errexité", "set -o Errexité", "set -o err-exité", "set --Err-Exité", "set -o 'X-trace٣'", "set -o éerrexit", "set -o ERRｅXIT", "set +o Errexité",
        "kill -s TERMé $$", "kill -sSIGTERMé $$",
    ] {
        let (same, o) = unchanged(&u, bad);
        runs.fetch_add(1, Relaxed);
        let rejected = o.status != "st:0" && !o.stderr_empty;
        // `set -o` alone prints the options (valid); keep only genuinely malformed ones
        if bad == "set -o" {
            continue;
        }
        if !rejected || !same {
            ctx.violation("c20:bespoke-malformed", &format!("malformed `{bad}`: status {:?}, diagnostic {}, unchanged {same}", o.status, !o.stderr_empty), json!({"line": bad}));
        }
    }
}

pub fn replay(case: &serde_json::Value) -> i32 {
    println!("{}", serde_json::to_string_pretty(case).unwrap());
    if case["script"].is_string() && super::c20d::replay(case) {
        return 1;
    }
    if let (Some(b), Some(s)) = (case["builtin"].as_str(), case["spelling"].as_str()) {
        if let Some(u) = usage(b) {
            println!("{:?}", run_invocation(&u, s));
            if let Some(r) = case["reference_spelling"].as_str() {
                println!("{:?}", run_invocation(&u, r));
            }
        }
    }
    1
}

pub fn run(tier: Tier) -> i32 {
    let ctx = Ctx::new("C20", "exploration", tier);
    let samples = Samples::new(8);
    // (a) every subset of the specs x every vector up to the length bound x both modes
    let maxlen = tier.pick(4, 5);
    let evals = AtomicU64::new(0);
    let errors = AtomicU64::new(0);
    (0u32..(1 << SPECS.len())).into_par_iter().for_each(|mask| {
        // `--lo` exact name vs prefixes of long/lone: keep every subset
        let specs: Vec<(usize, Spec)> = (0..SPECS.len()).filter(|i| mask & (1 << i) != 0).map(|i| (i, SPECS[i])).collect();
        // thin the subsets for the longest vectors in the quick tier
        let mut idx: Vec<usize> = vec![];
        loop {
            let args: Vec<&str> = idx.iter().map(|i| ARGS[*i]).collect();
            for ext in [true, false] {
                let exp = refgetopt(&specs, &args, ext);
                let got = real_getopt(&specs, &args, ext);
                evals.fetch_add(1, Relaxed);
                if !matches!(exp, Out::Ok(..)) {
                    errors.fetch_add(1, Relaxed);
                }
                if got.as_ref() != Ok(&exp) {
                    let key = match (&exp, &got) {
                        (Out::Ok(..), Ok(Out::Ok(..))) => "c20:parse-result",
                        (Out::Ok(..), _) => "c20:valid-rejected",
                        (_, Ok(Out::Ok(..))) => "c20:malformed-accepted",
                        _ => "c20:error-class",
                    };
                    ctx.violation(
                        key,
                        &format!("specs {:?} args {args:?} extensions={ext}: got {got:?}, expected {exp:?}", specs.iter().map(|(_, s)| format!("{s:?}")).collect::<Vec<_>>()),
                        json!({"specs": format!("{specs:?}"), "args": args, "extensions": ext}),
                    );
                }
            }
            if mask == 0b0101101 && idx.len() == 3 {
                samples.offer(|| json!({"specs": format!("{specs:?}"), "args": args}));
            }
            // next vector
            if idx.len() < maxlen {
                idx.push(0);
            } else {
                loop {
                    let Some(last) = idx.last_mut() else {
                        return;
                    };
                    if *last + 1 < ARGS.len() {
                        *last += 1;
                        break;
                    }
                    idx.pop();
                    if idx.is_empty() {
                        return;
                    }
                }
            }
        }
    });
    let startup = startup_equivalences(&ctx);
    let runs = AtomicU64::new(0);
    let groups = AtomicU64::new(0);
    builtin_spellings(&ctx, &runs, &groups, &samples);
    bespoke_spellings(&ctx, &runs);
    let (g_runs, g_calls, g_errs) = super::c20d::sweep(&ctx, &samples);
    let cat = catalogue();
    let cov = json!({
        "evaluations": evals.load(Relaxed) + startup + runs.load(Relaxed) + g_runs,
        "distinct_nontrivial": errors.load(Relaxed) + groups.load(Relaxed) + g_errs,
        "rule": format!("(a) parse_arguments on every subset of 7 option specs (-a, -b, -o ARG, --long, --lone, --opt ARG, -l/--lo) x every argument vector of length <= {maxlen} over 19 arguments (-, --, -a, -ab, -b, -oX, -o, -aoX, --long, --lo, --l, --lon, --opt=X, --opt, --opt=X=Y, --opt=, --long=X, X, -z) x both modes, against refgetopt (options with arguments and operands, or the error class); start-up argument vectors under spelling rewrites; (b) for each of the {} built-ins with documented long options ({} pairs read mechanically from docs/src/builtins/*.md), every single option and ordered pair in all equivalent spellings (separate/grouped shorts, attached/detached arguments, -- before operands, full long names, every unambiguous prefix, = / separate long argument, mixed) must give identical stdout, diagnostics, status and state snapshot; malformed variants (unknown, ambiguous prefix, missing argument, argument to a flag) must be rejected with a diagnostic, non-zero status and unchanged state. (d) the getopts built-in: 10 option specifications (with and without the leading colon, options with arguments, a non-ASCII option letter, empty) x every argument vector of length <= {} over 17 arguments (grouped / attached / separate, unknown letters, `--`, `-`, empty, non-ASCII letters, `:`) parsed to the end by the usual loop, arguments given as operands, as the shell's positional parameters and as a function's; vectors <= 2 are followed by OPTIND=1 and one of 10 second vectors; option letter, OPTARG set/unset, status, diagnostic and OPTIND at every argument boundary compared with a transcription of POSIX getopts. Non-trivial = vectors whose expected result is an error + spelling groups + getopts runs containing an error step.", cat.len(), cat.values().map(|v| v.len()).sum::<usize>(), tier.pick(3, 4)),
        "samples": samples.take(),
        "generic_parser_evaluations": evals.load(Relaxed),
        "startup_vectors": startup,
        "builtin_runs": runs.load(Relaxed),
        "getopts_runs": g_runs,
        "getopts_calls_compared": g_calls,
        "spelling_groups": groups.load(Relaxed),
        "documented_option_pairs": cat.iter().map(|(k, v)| (k.clone(), v.iter().map(|o| format!("-{} --{}", o.short, o.long)).collect::<Vec<_>>())).collect::<BTreeMap<_, _>>(),
        "exhaustive": true,
    });
    ctx.finish(cov, &["refgetopt (Utility Syntax Guidelines + documented extensions) trusted", "the option catalogue is whatever the manual documents; operands per built-in are fixed by a small table"])
}
