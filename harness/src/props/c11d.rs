//! C11 part (d): the dispositions installed by a whole shell after every history of `set` and
//! `trap` commands. Every sequence of up to N commands over {`set` with `-m` / `+m` alone, before,
//! after and grouped with another option, by long name; `trap` command / ignore / reset on TSTP,
//! TTIN, INT, TERM} is fed to an interactive shell (`-i -s`, monitor on at start-up) and to a
//! non-interactive one; after every command the `snap` probe reads the dispositions installed in the
//! simulated process, its signal mask and the option set. Reference: installed = max(user's trap,
//! shell's own need) with need(INT) = catch, need(QUIT, TERM) = ignore iff interactive,
//! need(TSTP, TTIN, TTOU) = ignore iff interactive and monitor; caught <=> blocked.

use crate::common::*;
use crate::vsh::{self, *};
use rayon::prelude::*;
use serde_json::json;
use std::collections::BTreeMap;
use std::sync::atomic::{AtomicU64, Ordering::Relaxed};

#[derive(Clone, Copy, Debug, PartialEq, Eq, PartialOrd, Ord)]
enum D {
    Default,
    Ignore,
    Catch,
}

#[derive(Clone, Copy, Debug)]
enum Cmd {
    /// text, new monitor state (None = unchanged), new noclobber state (None = unchanged)
    Set(&'static str, Option<bool>, Option<bool>),
    /// signal, new user disposition
    Trap(&'static str, &'static str, D),
    /// `exec` of a program that does not exist: fails, and an interactive shell goes on as it was
    ExecFails,
}

const SETS: [Cmd; 12] = [
    Cmd::Set("set -m", Some(true), None),
    Cmd::Set("set +m", Some(false), None),
    Cmd::Set("set -mC", Some(true), Some(true)),
    Cmd::Set("set -Cm", Some(true), Some(true)),
    Cmd::Set("set -m +C", Some(true), Some(false)),
    Cmd::Set("set +m -C", Some(false), Some(true)),
    Cmd::Set("set +mC", Some(false), Some(false)),
    Cmd::Set("set -C +m", Some(false), Some(true)),
    Cmd::Set("set -o monitor -o noclobber", Some(true), Some(true)),
    Cmd::Set("set +o monitor +o noclobber", Some(false), Some(false)),
    Cmd::Set("set -C", None, Some(true)),
    Cmd::Set("set --monitor --noclobber", Some(true), Some(true)),
];

const SIGS: [&str; 6] = ["INT", "QUIT", "TERM", "TSTP", "TTIN", "TTOU"];

fn commands() -> Vec<Cmd> {
    let mut v = SETS.to_vec();
    for s in ["TSTP", "TTIN", "INT", "TERM"] {
        v.push(Cmd::Trap(s, "'p T'", D::Catch));
        v.push(Cmd::Trap(s, "''", D::Ignore));
        v.push(Cmd::Trap(s, "-", D::Default));
    }
    v.push(Cmd::ExecFails);
    v
}

fn text(c: &Cmd) -> String {
    match c {
        Cmd::Set(t, _, _) => t.to_string(),
        Cmd::Trap(s, a, _) => format!("trap {a} {s}"),
        Cmd::ExecFails => "exec /no/such/program".to_string(),
    }
}

struct Model {
    interactive: bool,
    monitor: bool,
    noclobber: bool,
    user: BTreeMap<&'static str, D>,
}

impl Model {
    fn need(&self, s: &str) -> D {
        match s {
            "INT" if self.interactive => D::Catch,
            "QUIT" | "TERM" if self.interactive => D::Ignore,
            "TSTP" | "TTIN" | "TTOU" if self.interactive && self.monitor => D::Ignore,
            _ => D::Default,
        }
    }
    fn installed(&self, s: &str) -> D {
        self.need(s).max(self.user.get(s).copied().unwrap_or(D::Default))
    }
}

/// Start-up arguments: `-i` for an interactive shell; monitor is on by default iff interactive,
/// `-m` / `+m` is given when the case wants it otherwise.
fn argv_for(interactive: bool, monitor: bool) -> Vec<String> {
    let mut v = vec!["yash".to_string()];
    if interactive {
        v.push("-i".into());
    }
    if monitor != interactive {
        v.push(if monitor { "-m".into() } else { "+m".into() });
    }
    v.push("-s".into());
    v
}

fn run_history(hist: &[Cmd], interactive: bool, monitor: bool) -> (String, vsh::Run) {
    let mut script = String::from("snap 0\n");
    for (i, c) in hist.iter().enumerate() {
        script.push_str(&format!("{}\nsnap {}\n", text(c), i + 1));
    }
    let mut setup = Setup::script("");
    setup.argv = argv_for(interactive, monitor);
    setup.stdin = Some(script.clone().into_bytes());
    let r = vsh::run_once(&setup, &Default::default());
    (script, r)
}

fn judge(ctx: &Ctx, hist: &[Cmd], interactive: bool, monitor_at_start: bool) -> bool {
    // a non-interactive shell exits when `exec` fails: nothing to compare afterwards
    if !interactive && hist.iter().any(|c| matches!(c, Cmd::ExecFails)) {
        return true;
    }
    let (script, r) = run_history(hist, interactive, monitor_at_start);
    let case = json!({"part": "d", "script": script, "interactive": interactive, "monitor_at_start": monitor_at_start});
    if r.panic.is_some() || !matches!(r.end, End::Exited(_)) {
        ctx.violation("c11:set-trap-history-abnormal-end", &format!("{:?} {:?}", r.end, r.panic), case);
        return false;
    }
    let tr = r.all_trace();
    let mut m = Model { interactive, monitor: monitor_at_start, noclobber: false, user: BTreeMap::new() };
    for step in 0..=hist.len() {
        if step > 0 {
            match hist[step - 1] {
                Cmd::Set(_, mon, nc) => {
                    if let Some(x) = mon {
                        m.monitor = x;
                    }
                    if let Some(x) = nc {
                        m.noclobber = x;
                    }
                }
                Cmd::Trap(s, _, d) => {
                    m.user.insert(s, d);
                }
                Cmd::ExecFails => {}
            }
        }
        let pfx = format!("snap {step} ");
        let Some(line) = tr.iter().find(|t| t.starts_with(&pfx)) else {
            ctx.violation("c11:set-trap-history-abnormal-end", &format!("no snapshot {step}; stderr={:?}", r.stderr), case);
            return false;
        };
        let sec = parse_snapshot(&line[pfx.len()..]);
        let opts: Vec<&str> = sec.get("options").map(|s| s.split(',').collect()).unwrap_or_default();
        if opts.contains(&"monitor") != m.monitor || opts.contains(&"clobber") == m.noclobber {
            ctx.violation(
                "c11:set-options",
                &format!("after {:?}: options {:?}, expected monitor={} noclobber={}", hist[..step].iter().map(text).collect::<Vec<_>>(), opts, m.monitor, m.noclobber),
                case,
            );
            return false;
        }
        let disp: BTreeMap<&str, &str> = sec.get("dispositions").map(|s| s.split(',').filter_map(|e| e.split_once(':')).collect()).unwrap_or_default();
        let blocked = sec.get("blocked").cloned().unwrap_or_default();
        let blocked: Vec<i32> = blocked.trim_matches(|c| c == '[' || c == ']').split(',').filter_map(|x| x.trim().parse().ok()).collect();
        for s in SIGS {
            let want = m.installed(s);
            let got = disp.get(s).copied().unwrap_or("?");
            if got != format!("{want:?}") {
                ctx.violation(
                    "c11:installed-disposition-after-set-trap-history",
                    &format!(
                        "{} shell after {:?}: SIG{s} is {got}, but the trap ({:?}) and the shell's own need ({:?}; monitor={}) imply {want:?}",
                        if interactive { "interactive" } else { "non-interactive" },
                        hist[..step].iter().map(text).collect::<Vec<_>>(),
                        m.user.get(s),
                        m.need(s),
                        m.monitor
                    ),
                    case,
                );
                return false;
            }
            let n = SIGNALS.iter().find(|(name, _)| *name == s).map(|x| x.1).unwrap_or(0);
            if blocked.contains(&n) != (want == D::Catch) {
                ctx.violation("c11:mask-after-set-trap-history", &format!("after {:?}: SIG{s} blocked={} although its disposition is {want:?}", hist[..step].iter().map(text).collect::<Vec<_>>(), blocked.contains(&n)), case);
                return false;
            }
        }
    }
    true
}

pub fn replay(case: &serde_json::Value) -> bool {
    let Some(script) = case["script"].as_str() else { return false };
    let interactive = case["interactive"].as_bool().unwrap_or(true);
    let mut setup = Setup::script("");
    setup.argv = argv_for(interactive, case["monitor_at_start"].as_bool().unwrap_or(interactive));
    setup.stdin = Some(script.as_bytes().to_vec());
    let r = vsh::run_once(&setup, &Default::default());
    println!("script (interactive={interactive}):\n{script}\nend={:?} stderr={:?}", r.end, r.stderr);
    for t in r.all_trace() {
        if let Some(rest) = t.strip_prefix("snap ") {
            let (tag, body) = rest.split_once(' ').unwrap_or((rest, ""));
            let sec = parse_snapshot(body);
            println!("  snap {tag}: options={:?} dispositions={:?} blocked={:?}", sec.get("options"), sec.get("dispositions"), sec.get("blocked"));
        }
    }
    true
}

/// Returns (histories run, commands compared).
pub fn part_d(ctx: &Ctx, samples: &Samples) -> (u64, u64) {
    let cmds = commands();
    let depth = ctx.tier.pick(3, 4);
    let runs = AtomicU64::new(0);
    let steps = AtomicU64::new(0);
    // all histories of exactly `depth` commands (their prefixes are judged on the way: every
    // snapshot is compared), the first command parallelised
    let firsts: Vec<usize> = (0..cmds.len()).collect();
    firsts.par_iter().for_each(|f| {
        let mut idx = vec![*f];
        idx.resize(depth, 0);
        loop {
            let hist: Vec<Cmd> = idx.iter().map(|i| cmds[*i]).collect();
            for (interactive, monitor) in [(true, true), (false, false), (false, true), (true, false)] {
                let _g = case_guard(format!("{:?} interactive={interactive} monitor={monitor}", hist.iter().map(text).collect::<Vec<_>>()));
                judge(ctx, &hist, interactive, monitor);
                runs.fetch_add(1, Relaxed);
                steps.fetch_add(depth as u64 + 1, Relaxed);
            }
            if *f == 2 && idx[1] == 5 && idx[2] == 13 {
                samples.offer(|| json!({"part_d_history": hist.iter().map(text).collect::<Vec<_>>()}));
            }
            // next history with the same first command
            let mut k = depth - 1;
            loop {
                if k == 0 {
                    return;
                }
                if idx[k] + 1 < cmds.len() {
                    idx[k] += 1;
                    break;
                }
                idx[k] = 0;
                k -= 1;
            }
        }
    });
    (runs.load(Relaxed), steps.load(Relaxed))
}
