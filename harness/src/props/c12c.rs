//! C12 part (c): the job numbers an *interactive* shell announces. Every history of up to N
//! commands over {start a job that never ends, start a job that finishes, remove job %k by
//! `kill -s KILL %k; wait %k`} in an interactive shell (`-i -s`, job control on). When an
//! asynchronous command is started the shell prints `[n] pid`; that n must be the number under
//! which the `jl` probe (and hence `jobs`, `%n`, `fg`, `bg`) lists the job with that process ID,
//! and it must not be the number of another job that still exists.

use crate::common::*;
use crate::vsh::{self, *};
use rayon::prelude::*;
use serde_json::json;
use std::sync::atomic::{AtomicU64, Ordering::Relaxed};

const OPS: [&str; 5] = ["hang &", "s 0 &", "kill -s KILL %1; wait %1", "kill -s KILL %2; wait %2", "kill -s KILL %3; wait %3"];

fn script_of(hist: &[usize]) -> String {
    let mut s = String::new();
    for (k, op) in hist.iter().enumerate() {
        s.push_str(&format!("{}\njl {k}\n", OPS[*op]));
    }
    // leave nothing behind
    s.push_str("kill -s KILL %1 %2 %3 %4 %5\ns 0\n");
    s
}

fn judge(ctx: &Ctx, hist: &[usize]) -> u64 {
    let script = script_of(hist);
    let mut setup = Setup::script("");
    setup.argv = vec!["yash".into(), "-i".into(), "-s".into()];
    setup.stdin = Some(script.clone().into_bytes());
    let r = vsh::run_once(&setup, &Default::default());
    let case = json!({"part": "c", "script": script});
    if r.panic.is_some() || matches!(r.end, End::Deadlock | End::Livelock) {
        ctx.violation("c12c:end", &format!("{:?} {:?}", r.end, r.panic), case);
        return 0;
    }
    // announcements in order
    let ann: Vec<(usize, i32)> = r
        .stderr
        .lines()
        .filter_map(|l| {
            // (the prompt is printed on the same stream)
            let l = l.rsplit("$ ").next().unwrap_or(l).trim();
            let rest = l.strip_prefix('[')?;
            let (n, pid) = rest.split_once("] ")?;
            Some((n.parse().ok()?, pid.parse().ok()?))
        })
        .collect();
    let starts: Vec<usize> = hist.iter().enumerate().filter(|(_, op)| **op < 2).map(|(k, _)| k).collect();
    if ann.len() != starts.len() {
        ctx.violation("c12c:announcements", &format!("{} asynchronous commands but {} announcements `[n] pid`: {ann:?}; stderr {:?}", starts.len(), ann.len(), r.stderr), case);
        return 0;
    }
    let tr = r.all_trace();
    let mut compared = 0;
    for ((n, pid), k) in ann.iter().zip(starts.iter()) {
        let pfx = format!("jl {k} ");
        let Some(dump) = tr.iter().find(|t| t.starts_with(&pfx)) else { continue };
        // entries: \x1e index \x1f pid \x1f ...
        let jobs: Vec<(usize, i32)> = dump
            .split('\x1e')
            .skip(1)
            .filter_map(|e| {
                let mut f = e.split('\x1f');
                Some((f.next()?.parse().ok()?, f.next()?.parse().ok()?))
            })
            .collect();
        compared += 1;
        match jobs.iter().find(|(_, p)| p == pid) {
            // (a job that has already finished and been reported may be gone from the list)
            None => {}
            Some((index, _)) => {
                if index + 1 != *n {
                    let other = jobs.iter().find(|(i, _)| i + 1 == *n).map(|(_, p)| *p);
                    ctx.violation(
                        "c12c:announced-job-number",
                        &format!("after {:?}: the shell announced `[{n}] {pid}`, but the job with process ID {pid} has number {} (job {n} is {})", hist[..=*k].iter().map(|o| OPS[*o]).collect::<Vec<_>>(), index + 1, other.map_or("absent".to_string(), |p| format!("process {p}"))),
                        case.clone(),
                    );
                    return compared;
                }
            }
        }
    }
    compared
}

pub fn replay(case: &serde_json::Value) -> bool {
    let Some(script) = case["script"].as_str() else { return false };
    let mut setup = Setup::script("");
    setup.argv = vec!["yash".into(), "-i".into(), "-s".into()];
    setup.stdin = Some(script.as_bytes().to_vec());
    if case["non_interactive"] == true {
        setup = Setup::script(script);
    }
    let r = vsh::run_once(&setup, &Default::default());
    println!("interactive script:\n{script}\nend={:?}\nstderr:\n{}", r.end, r.stderr);
    for t in r.all_trace() {
        println!("  {}", t.replace('\x1e', " | ").replace('\x1f', ","));
    }
    true
}

/// Returns (histories, announcements compared).
pub fn run(ctx: &Ctx) -> (u64, u64) {
    let depth = ctx.tier.pick(5, 6);
    let n = AtomicU64::new(0);
    let cmp = AtomicU64::new(0);
    let mut hists: Vec<Vec<usize>> = vec![];
    let mut frontier: Vec<Vec<usize>> = vec![vec![]];
    for _ in 0..depth {
        let mut next = vec![];
        for h in &frontier {
            // at most 4 live jobs are ever started
            for op in 0..OPS.len() {
                if op < 2 && h.iter().filter(|o| **o < 2).count() >= 4 {
                    continue;
                }
                let mut g = h.clone();
                g.push(op);
                next.push(g);
            }
        }
        hists.extend(next.iter().cloned());
        frontier = next;
    }
    // only histories that end with a start are interesting as a whole (their prefixes are judged too)
    let hists: Vec<Vec<usize>> = hists.into_iter().filter(|h| h.last().is_some_and(|o| *o < 2) && h.iter().any(|o| *o >= 2)).collect();
    hists.par_iter().for_each(|h| {
        let _g = case_guard(format!("{h:?}"));
        cmp.fetch_add(judge(ctx, h), Relaxed);
        n.fetch_add(1, Relaxed);
    });
    (n.load(Relaxed), cmp.load(Relaxed))
}

// ------------------------------------------------------------------------------------------------
// Part (d): "When a job is suspended, it becomes the current job, and the previous current job
// becomes the previous job" (docs/src/interactive/job_control.md) — whichever way the shell learns
// of the suspension: an asynchronous job that stops itself, or a *foreground* command that is
// stopped and thereby becomes a job. Every history of up to N commands in a `set -m` shell.

const DOPS: [&str; 6] = ["{ stopself; s 3; } &", "(stopself; s 4)", "{ stopself; stopself; s 5; } &", "kill -s KILL %1; wait %1", "kill -s KILL %2; wait %2", "bg %+"];

fn dump_of(t: &str) -> (Option<usize>, Option<usize>, Vec<(usize, bool)>) {
    // "jl TAG st=.. bang=.. cur=Some(0) prev=None |" + entries
    let field = |name: &str| -> Option<usize> {
        let i = t.find(&format!("{name}=Some("))?;
        t[i + name.len() + 6..].split(')').next()?.parse().ok()
    };
    let jobs = t
        .split('\x1e')
        .skip(1)
        .filter_map(|e| {
            let f: Vec<&str> = e.split('\x1f').collect();
            Some((f.first()?.parse().ok()?, f.get(2)?.contains("Stopped")))
        })
        .collect();
    (field("cur"), field("prev"), jobs)
}

fn judge_d(ctx: &Ctx, hist: &[usize]) {
    let mut script = String::from("set -m\njl init\n");
    for (k, op) in hist.iter().enumerate() {
        script.push_str(&format!("{}\njl {k}\n", DOPS[*op]));
    }
    script.push_str("kill -s KILL %1 %2 %3 %4 %5\ns 0\n");
    let mut setup = Setup::script(&script);
    setup.auto_continue = false;
    let r = vsh::run_once(&setup, &Default::default());
    let case = json!({"part": "c", "script": script, "non_interactive": true});
    if r.panic.is_some() || matches!(r.end, End::Deadlock | End::Livelock) {
        ctx.violation("c12d:end", &format!("{:?} {:?}", r.end, r.panic), case);
        return;
    }
    let tr = r.all_trace();
    let mut prev_dump: (Option<usize>, Option<usize>, Vec<(usize, bool)>) = (None, None, vec![]);
    for k in 0..hist.len() {
        let Some(t) = tr.iter().find(|t| t.starts_with(&format!("jl {k} "))) else { return };
        let d = dump_of(t);
        let newly: Vec<usize> = d.2.iter().filter(|(i, stopped)| *stopped && !prev_dump.2.iter().any(|(j, s)| j == i && *s)).map(|(i, _)| *i).collect();
        // exactly one job has become suspended since the last dump (and the command was not one that
        // chooses the current job itself)
        if newly.len() == 1 && hist[k] <= 2 {
            let j = newly[0];
            let old_cur = prev_dump.0.filter(|c| d.2.iter().any(|(i, _)| i == c) && *c != j);
            if d.0 != Some(j) || (old_cur.is_some() && d.1 != old_cur) {
                ctx.violation(
                    "c12d:newly-suspended-job-not-current",
                    &format!("after {:?}: job {} has just been suspended, but the current job is {:?} and the previous job {:?} (before: current {:?})", hist[..=k].iter().map(|o| DOPS[*o]).collect::<Vec<_>>(), j + 1, d.0.map(|x| x + 1), d.1.map(|x| x + 1), prev_dump.0.map(|x| x + 1)),
                    case,
                );
                return;
            }
        }
        prev_dump = d;
    }
}

/// Returns the number of histories.
pub fn run_d(ctx: &Ctx) -> u64 {
    let depth = ctx.tier.pick(4, 5);
    let mut hists: Vec<Vec<usize>> = vec![];
    let mut frontier: Vec<Vec<usize>> = vec![vec![]];
    for _ in 0..depth {
        let mut next = vec![];
        for h in &frontier {
            for op in 0..DOPS.len() {
                if op <= 2 && h.iter().filter(|o| **o <= 2).count() >= 3 {
                    continue;
                }
                let mut g = h.clone();
                g.push(op);
                next.push(g);
            }
        }
        hists.extend(next.iter().cloned());
        frontier = next;
    }
    let hists: Vec<Vec<usize>> = hists.into_iter().filter(|h| h.last().is_some_and(|o| *o <= 2)).collect();
    hists.par_iter().for_each(|h| {
        let _g = case_guard(format!("d {h:?}"));
        judge_d(ctx, h);
    });
    hists.len() as u64
}

// Part (e): `$!` after a `bg` that resumes nothing. "`$!` is the process ID of the last
// asynchronous command started *or resumed in the background*" (special.md, bg.md): a `bg` that
// fails before it resumes a job — the job is not job-controlled (started while `-m` was off),
// belongs to the parent of the current subshell, or the `[n] name` line cannot be written —
// leaves `$!` designating the job it designated before. Every scenario x job-ID form x number of
// jobs started afterwards.

fn bang_of(t: &str) -> Option<i64> {
    let i = t.find("bang=")?;
    t[i + 5..].split(' ').next()?.parse().ok()
}
fn status_of(t: &str) -> Option<i64> {
    let i = t.find("st=")?;
    t[i + 3..].split(' ').next()?.parse().ok()
}

/// Returns the number of scripts.
pub fn run_e(ctx: &Ctx) -> u64 {
    let mut scripts: Vec<(String, &'static str)> = vec![];
    for id in ["%1", "%-", "%?hang", "%hang"] {
        for later in ["{ stopself; s 3; } &", "hang2 &", "hang2 & hang2 &"] {
            // (1) the operand is a job started while job control was off
            scripts.push((format!("set +m\nhang &\nset -m\n{later}\njl before\nbg {id}\njl after\nkill -s KILL %1 %2 %3\ns 0\n"), "unmonitored"));
            // (2) the job list line cannot be written
            scripts.push((format!("set -m\n{{ stopself; hang; }} &\n{later}\njl before\nbg {id} >&-\njl after\nkill -s KILL %1 %2 %3\ns 0\n").replace("%?hang", "%?stopself").replace("%hang", "%{"), "output-error"));
            // (3) the job belongs to the parent of the subshell
            scripts.push((format!("set -m\nhang &\n{later}\n(jl before; bg {id}; jl after)\nkill -s KILL %1 %2 %3\ns 0\n"), "unowned"));
        }
    }
    scripts.par_iter().for_each(|(script, kind)| {
        let script = script.replace("hang2", "hang");
        let mut setup = Setup::script(&script);
        setup.auto_continue = false;
        let _g = case_guard(format!("bang after bg: {script}"));
        let r = vsh::run_once(&setup, &Default::default());
        let case = json!({"part": "c", "script": script, "non_interactive": true});
        if r.panic.is_some() || matches!(r.end, End::Deadlock | End::Livelock) {
            ctx.violation("c12e:end", &format!("{:?} {:?}", r.end, r.panic), case);
            return;
        }
        let tr = r.all_trace();
        let (Some(b), Some(a)) = (tr.iter().find(|t| t.starts_with("jl before ")), tr.iter().find(|t| t.starts_with("jl after "))) else {
            ctx.violation("c12e:end", &format!("the dumps are missing: {tr:?} stderr={:?}", r.stderr), case);
            return;
        };
        // the scenarios are built so that this `bg` fails; if it does not, nothing is judged
        if status_of(a) == Some(0) {
            return;
        }
        if bang_of(b) != bang_of(a) {
            ctx.violation(
                "c12e:bang-changed-by-failed-bg",
                &format!("({kind}) a `bg` that failed (status {:?}) and resumed nothing changed $! from {:?} to {:?}", status_of(a), bang_of(b), bang_of(a)),
                case,
            );
        }
    });
    scripts.len() as u64
}

// Part (f): every way of asking `jobs` for a report has the same effect on the job list. "When the
// built-in reports a finished job, it removes the job from the job list" (jobs.md) — whichever
// format the report has. Differential, no model: every history of up to N commands over {start a
// job that never ends, kill job 1 / 2 / 3, `jobs` (output discarded)} is run once with plain `jobs`
// and once with each of `jobs -p`, `jobs -l`, `jobs --pgid-only`, `jobs --verbose`, `jobs -r`,
// `jobs -s` … in its place; the job-list dumps after every command must be the same.

const FOPS: [&str; 5] = ["hang &", "kill -s KILL %1", "kill -s KILL %2", "kill -s KILL %3", "JOBS >/dev/null"];

fn dumps_with(hist: &[usize], jobs_cmd: &str) -> (Vec<String>, vsh::Run) {
    // job control on: `kill %n` needs a job-controlled job
    let mut script = String::from("set -m\n");
    for (k, op) in hist.iter().enumerate() {
        script.push_str(&format!("{} 2>/dev/null\njl {k}\n", FOPS[*op].replace("JOBS", jobs_cmd)));
    }
    script.push_str("kill -s KILL %1 %2 %3 %4 2>/dev/null\ns 0\n");
    let mut setup = Setup::script(&script);
    setup.auto_continue = false;
    let r = vsh::run_once(&setup, &Default::default());
    // the dump without `$?` (a kill of a job that is gone fails in both runs alike, but keep it simple)
    let d = r.all_trace().into_iter().filter(|t| t.starts_with("jl ")).collect();
    (d, r)
}

/// Returns the number of runs.
pub fn run_f(ctx: &Ctx) -> u64 {
    let depth = ctx.tier.pick(5, 6);
    let mut hists: Vec<Vec<usize>> = vec![];
    let mut frontier: Vec<Vec<usize>> = vec![vec![]];
    for _ in 0..depth {
        let mut next = vec![];
        for h in &frontier {
            for op in 0..FOPS.len() {
                if op == 0 && h.iter().filter(|o| **o == 0).count() >= 3 {
                    continue;
                }
                let mut g = h.clone();
                g.push(op);
                next.push(g);
            }
        }
        hists.extend(next.iter().cloned());
        frontier = next;
    }
    // only histories in which `jobs` runs at least once and something follows or precedes it
    let hists: Vec<Vec<usize>> = hists.into_iter().filter(|h| h.contains(&4) && h.contains(&0)).collect();
    let n = AtomicU64::new(0);
    hists.par_iter().for_each(|h| {
        let _g = case_guard(format!("jobs variants {h:?}"));
        let (reference, r0) = dumps_with(h, "jobs");
        n.fetch_add(1, Relaxed);
        if r0.panic.is_some() || matches!(r0.end, End::Deadlock | End::Livelock) {
            ctx.violation("c12f:end", &format!("{:?} {:?}", r0.end, r0.panic), json!({"part": "f", "history": h, "jobs": "jobs"}));
            return;
        }
        for variant in ["jobs -p", "jobs -l", "jobs --pgid-only", "jobs --verbose", "jobs --pgid"] {
            let (d, r) = dumps_with(h, variant);
            n.fetch_add(1, Relaxed);
            if d != reference || r.panic.is_some() {
                let k = d.iter().zip(reference.iter()).position(|(a, b)| a != b).unwrap_or(d.len().min(reference.len()));
                ctx.violation(
                    "c12f:report-format-changes-the-job-list",
                    &format!(
                        "history {:?}: with `{variant}` the job list after command {k} is {:?}, with plain `jobs` {:?}",
                        h.iter().map(|o| FOPS[*o]).collect::<Vec<_>>(),
                        d.get(k).map(|t| t.replace('\x1e', " | ").replace('\x1f', ",")),
                        reference.get(k).map(|t| t.replace('\x1e', " | ").replace('\x1f', ","))
                    ),
                    json!({"part": "f", "history": h, "jobs": variant}),
                );
                return;
            }
        }
    });
    n.load(Relaxed)
}

pub fn replay_f(case: &serde_json::Value) -> bool {
    let Some(h) = case["history"].as_array() else { return false };
    let h: Vec<usize> = h.iter().map(|x| x.as_u64().unwrap() as usize).collect();
    for cmd in ["jobs", case["jobs"].as_str().unwrap_or("jobs -p")] {
        let (d, r) = dumps_with(&h, cmd);
        println!("with `{cmd}`: end={:?}", r.end);
        for t in d {
            println!("  {}", t.replace('\x1e', " | ").replace('\x1f', ","));
        }
    }
    true
}
