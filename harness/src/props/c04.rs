//! C04: pattern matching accepts exactly the strings the POSIX notation denotes.
//! All (pattern, string) pairs over small alphabets against a naive backtracking
//! reference matcher, in every anchoring/greediness configuration the shell
//! uses, plus `case` and trim forms through the whole shell with every quoting
//! style.

use crate::common::*;
use crate::vsh::{self, Setup};
use rayon::prelude::*;
use serde_json::json;
use std::sync::atomic::{AtomicU64, Ordering::Relaxed};
use yash_fnmatch::{Config, Pattern, PatternChar};

#[derive(Debug, Clone)]
pub enum Item {
    Ch(char),
    Range(char, char),
    Class(String),
}
#[derive(Debug, Clone)]
pub enum At {
    Lit(char),
    Any,
    Star,
    Br { neg: bool, items: Vec<Item> },
}

/// (char, literal?)
pub type PC = (char, bool);

fn to_pattern_chars(pc: &[PC]) -> Vec<PatternChar> {
    pc.iter()
        .map(|(c, lit)| if *lit { PatternChar::Literal(*c) } else { PatternChar::Normal(*c) })
        .collect()
}

/// Splits a pattern text with backslash escapes; None = trailing lone backslash (unspecified).
pub fn pchars(p: &str) -> Option<Vec<PC>> {
    let mut v = vec![];
    let mut it = p.chars();
    while let Some(c) = it.next() {
        if c == '\\' {
            match it.next() {
                Some(d) => v.push((d, true)),
                None => return None,
            }
        } else {
            v.push((c, false));
        }
    }
    Some(v)
}

pub enum Parsed {
    Ok(Vec<At>),
    Unspecified,
}

pub fn parse(pc: &[PC]) -> Parsed {
    let mut out = vec![];
    let mut i = 0;
    while i < pc.len() {
        let (c, lit) = pc[i];
        if lit {
            out.push(At::Lit(c));
            i += 1;
            continue;
        }
        match c {
            '?' => {
                out.push(At::Any);
                i += 1;
            }
            '*' => {
                out.push(At::Star);
                i += 1;
            }
            '[' => match parse_bracket(pc, i + 1) {
                Some(Ok((b, j))) => {
                    out.push(b);
                    i = j;
                }
                Some(Err(())) => return Parsed::Unspecified,
                None => {
                    out.push(At::Lit('['));
                    i += 1;
                }
            },
            _ => {
                out.push(At::Lit(c));
                i += 1;
            }
        }
    }
    Parsed::Ok(out)
}

const CLASSES: [&str; 12] = ["alnum", "alpha", "blank", "cntrl", "digit", "graph", "lower", "print", "punct", "space", "upper", "xdigit"];

/// None = no closing bracket (the `[` is literal); Some(Err) = unspecified by POSIX
fn parse_bracket(pc: &[PC], mut i: usize) -> Option<Result<(At, usize), ()>> {
    #[derive(Clone, Debug)]
    enum A {
        C(char),
        Cls(String),
        Multi,
    }
    let mut neg = false;
    let mut unspec = false;
    if i < pc.len() && !pc[i].1 && (pc[i].0 == '!' || pc[i].0 == '^') {
        neg = true;
        i += 1;
    }
    let mut atoms: Vec<(A, bool)> = vec![];
    let mut quoted_hyphen_at: Vec<usize> = vec![];
    let mut first = true;
    loop {
        if i >= pc.len() {
            return None;
        }
        let (c, lit) = pc[i];
        if !lit && c == ']' && !first {
            i += 1;
            break;
        }
        first = false;
        if !lit && c == '[' && i + 1 < pc.len() && !pc[i + 1].1 && matches!(pc[i + 1].0, '.' | '=' | ':') {
            let d = pc[i + 1].0;
            let mut j = i + 2;
            let mut found = None;
            while j + 1 < pc.len() {
                if !pc[j].1 && pc[j].0 == d && !pc[j + 1].1 && pc[j + 1].0 == ']' {
                    found = Some(j);
                    break;
                }
                j += 1;
            }
            if let Some(j) = found {
                let val: String = pc[i + 2..j].iter().map(|x| x.0).collect();
                if d == ':' {
                    atoms.push((A::Cls(val), false));
                } else if val.chars().count() == 1 {
                    atoms.push((A::C(val.chars().next().unwrap()), false));
                } else {
                    atoms.push((A::Multi, false));
                    unspec = true;
                }
                i = j + 2;
                continue;
            }
        }
        atoms.push((A::C(c), !lit && c == '-'));
        // a *quoted* hyphen between two elements: dash, bash and yash still form a range while
        // XCU 2.14 can be read either way (same decision as in C05's refglob) -> unspecified
        if lit && c == '-' && atoms.len() >= 2 {
            quoted_hyphen_at.push(atoms.len() - 1);
        }
        i += 1;
    }
    if quoted_hyphen_at.iter().any(|k| k + 1 < atoms.len()) {
        unspec = true;
    }
    let mut items = vec![];
    let mut k = 0;
    while k < atoms.len() {
        if k + 2 < atoms.len() && atoms[k + 1].1 {
            match (&atoms[k].0, &atoms[k + 2].0) {
                (A::C(a), A::C(b)) => {
                    if a > b {
                        unspec = true;
                    }
                    items.push(Item::Range(*a, *b));
                }
                _ => unspec = true,
            }
            k += 3;
        } else {
            match &atoms[k].0 {
                A::C(c) => items.push(Item::Ch(*c)),
                A::Cls(s) => {
                    if !CLASSES.contains(&s.as_str()) {
                        unspec = true;
                    }
                    items.push(Item::Class(s.clone()));
                }
                A::Multi => {}
            }
            k += 1;
        }
    }
    if unspec {
        return Some(Err(()));
    }
    Some(Ok((At::Br { neg, items }, i)))
}

pub fn class(s: &str, c: char) -> bool {
    match s {
        "alnum" => c.is_ascii_alphanumeric(),
        "alpha" => c.is_ascii_alphabetic(),
        "blank" => c == ' ' || c == '\t',
        "cntrl" => c.is_ascii_control(),
        "digit" => c.is_ascii_digit(),
        "graph" => c.is_ascii_graphic(),
        "lower" => c.is_ascii_lowercase(),
        "print" => c.is_ascii_graphic() || c == ' ',
        "punct" => c.is_ascii_punctuation(),
        "space" => c.is_ascii_whitespace() || c == '\x0b',
        "upper" => c.is_ascii_uppercase(),
        "xdigit" => c.is_ascii_hexdigit(),
        _ => false,
    }
}

fn m(p: &[At], s: &[char]) -> bool {
    match p.first() {
        None => s.is_empty(),
        Some(At::Star) => (0..=s.len()).any(|k| m(&p[1..], &s[k..])),
        Some(a) => {
            if s.is_empty() {
                return false;
            }
            let c = s[0];
            let ok = match a {
                At::Lit(l) => *l == c,
                At::Any => true,
                At::Br { neg, items } => {
                    items.iter().any(|it| match it {
                        Item::Ch(x) => *x == c,
                        Item::Range(a, b) => *a <= c && c <= *b,
                        Item::Class(n) => class(n, c),
                    }) != *neg
                }
                At::Star => unreachable!(),
            };
            ok && m(&p[1..], &s[1..])
        }
    }
}

/// Reference `find`/`rfind`: byte range of the chosen matching substring.
pub fn ref_find(ast: &[At], s: &[char], ab: bool, ae: bool, shortest: bool, rightmost: bool) -> Option<(usize, usize)> {
    let n = s.len();
    let starts: Vec<usize> = if ab { vec![0] } else if rightmost { (0..=n).rev().collect() } else { (0..=n).collect() };
    for st in starts {
        let ends: Vec<usize> = if ae { vec![n] } else if shortest { (st..=n).collect() } else { (st..=n).rev().collect() };
        for en in ends {
            if m(ast, &s[st..en]) {
                let b = |k: usize| s[..k].iter().map(|c| c.len_utf8()).sum::<usize>();
                return Some((b(st), b(en)));
            }
        }
    }
    None
}

struct Counters {
    pairs: AtomicU64,
    unspec: AtomicU64,
    nontrivial: AtomicU64,
}

fn classify(pat: &str) -> &'static str {
    if pat.contains("[.") || pat.contains("[=") {
        "collating-or-equivalence"
    } else {
        "match"
    }
}

fn check_pattern(ctx: &Ctx, pc: &[PC], text: &str, strings: &[String], counters: &Counters, find_too: bool) {
    let ast = match parse(pc) {
        Parsed::Ok(a) => a,
        Parsed::Unspecified => {
            counters.unspec.fetch_add(1, Relaxed);
            return;
        }
    };
    if ast.iter().any(|a| !matches!(a, At::Lit(_))) {
        counters.nontrivial.fetch_add(1, Relaxed);
    }
    let chars = to_pattern_chars(pc);
    for (ab, ae) in [(true, true), (true, false), (false, true), (false, false)] {
        for shortest in [false, true] {
            if !find_too && (shortest || !(ab && ae)) {
                continue;
            }
            let mut cfg = Config::default();
            cfg.anchor_begin = ab;
            cfg.anchor_end = ae;
            cfg.shortest_match = shortest;
            let pat = match catch(|| Pattern::parse_with_config(chars.iter().copied(), cfg)) {
                Ok(Ok(p)) => p,
                Ok(Err(e)) => {
                    ctx.violation(
                        &format!("c04:{}-compile-error", classify(text)),
                        &format!("pattern {text:?} is valid POSIX notation but was rejected: {e}"),
                        json!({"pattern": text, "literal_mask": pc.iter().map(|p| p.1).collect::<Vec<_>>()}),
                    );
                    return;
                }
                Err(p) => {
                    ctx.violation("c04:panic", &format!("panic compiling {text:?}: {p}"), json!({"pattern": text}));
                    return;
                }
            };
            for s in strings {
                let sc: Vec<char> = s.chars().collect();
                counters.pairs.fetch_add(1, Relaxed);
                let describe = || json!({"pattern": text, "literal_mask": pc.iter().map(|p| p.1).collect::<Vec<_>>(), "string": s,
                                        "anchor_begin": ab, "anchor_end": ae, "shortest": shortest});
                // is_match: some substring satisfying the anchors matches
                let exp_match = ref_find(&ast, &sc, ab, ae, false, false).is_some();
                let got = pat.is_match(s);
                if got != exp_match {
                    ctx.violation(
                        &format!("c04:{}", classify(text)),
                        &format!("pattern {text:?} on {s:?} (anchors {ab}/{ae}): is_match = {got}, POSIX says {exp_match}"),
                        describe(),
                    );
                    return;
                }
                if !find_too {
                    continue;
                }
                // the four combinations the shell uses for # ## % %% (and whole-string matching)
                let used = (ab && !ae) || (ae && !ab) || (ab && ae);
                let exp_find = ref_find(&ast, &sc, ab, ae, shortest, false);
                let got_find = pat.find(s).map(|r| (r.start, r.end));
                let find_is_used = used && !(ae && !ab && shortest);
                if got_find != exp_find && (find_is_used || got_find.is_some() != exp_find.is_some()) {
                    ctx.violation(
                        &format!("c04:{}-find", classify(text)),
                        &format!("pattern {text:?} on {s:?} (anchors {ab}/{ae}, shortest={shortest}): find = {got_find:?}, expected {exp_find:?}"),
                        describe(),
                    );
                    return;
                }
                if ae && !ab && shortest {
                    let exp_r = ref_find(&ast, &sc, ab, ae, shortest, true);
                    let got_r = pat.rfind(s).map(|r| (r.start, r.end));
                    if got_r != exp_r {
                        ctx.violation(
                            &format!("c04:{}-rfind", classify(text)),
                            &format!("pattern {text:?} on {s:?}: rfind (shortest suffix) = {got_r:?}, expected {exp_r:?}"),
                            describe(),
                        );
                        return;
                    }
                }
            }
        }
    }
}

fn all_strings(alphabet: &[char], max: usize) -> Vec<String> {
    let mut out = vec![String::new()];
    let mut cur = vec![String::new()];
    for _ in 0..max {
        let next: Vec<String> = cur.iter().flat_map(|s| alphabet.iter().map(move |c| format!("{s}{c}"))).collect();
        out.extend(next.iter().cloned());
        cur = next;
    }
    out
}

// ------------------------------------------------------------------ through the shell

/// Quoting styles for one pattern character / the whole pattern in `case` and trims.
fn shell_cases(tier: Tier) -> Vec<(String, Vec<String>)> {
    let mut v: Vec<(String, Vec<String>)> = vec![];
    let mut add = |script: String, expect: &[&str]| v.push((script, expect.iter().map(|s| s.to_string()).collect()));
    // every special character, quoted in every style, must match only itself
    for c in ['*', '?', '[', ']', '\\', '$', '"', '\'', '`', '-', '!', '^', 'a'] {
        let subject_lit = match c {
            '\'' => "\"'\"".to_string(),
            _ => format!("'{c}'"),
        };
        let mut styles: Vec<String> = vec![];
        if c != '\'' {
            styles.push(format!("'{c}'"));
        }
        styles.push(format!("\\{c}"));
        if matches!(c, '$' | '"' | '\\' | '`') {
            styles.push(format!("\"\\{c}\""));
        } else {
            styles.push(format!("\"{c}\""));
        }
        styles.push("\"$v\"".into());
        for st in &styles {
            let assign = match c {
                '\'' => "v=\"'\"".to_string(),
                _ => format!("v='{c}'"),
            };
            // matches itself
            add(format!("{assign}; case {subject_lit} in ({st}) p yes;; (*) p no;; esac"), &["yes:0"]);
            // does not match another single character or the empty string
            add(format!("{assign}; case x in ({st}) p yes;; (*) p no;; esac"), &["no:0"]);
            add(format!("{assign}; case '' in ({st}) p yes;; (*) p no;; esac"), &["no:0"]);
            // quoted pattern characters in trims remove only themselves
            add(format!("{assign}; w=xx; args \"${{w#{st}}}\" \"${{w%{st}}}\""), &["args[xx][xx]"]);
            let val = match c {
                '\'' => "\"'y'\"".to_string(),
                _ => format!("'{c}y{c}'"),
            };
            add(format!("{assign}; w={val}; args \"${{w#{st}}}\" \"${{w%%{st}}}\""), &[&format!("args[y{c}][{c}y]")]);
        }
    }
    // a quoted backslash-escape inside double quotes together with wildcards
    add("x='a$b/c'; args \"${x##\"a\\$\"*/}\" \"${x%\"\\$\"*}\"".into(), &["args[c][a]"]);
    add("case 'a\\b' in (\"a\\\\b\") p yes;; (*) p no;; esac".into(), &["yes:0"]);
    add("case 'a\\$' in (\"a\\$\") p yes;; (*) p no;; esac".into(), &["no:0"]);
    // first matching item wins
    add("case ab in (a) p 1;; (a?|zz) p 2;; (ab) p 3;; (*) p 4;; esac".into(), &["2:0"]);
    add("case ab in (b*) p 1;; (*b) p 2;; (a*) p 3;; esac".into(), &["2:0"]);
    // Alternatives of one item are tried one after the other: whatever a malformed or
    // non-matching alternative means, a later alternative that matches selects the item, and an
    // item none of whose alternatives matches is skipped.
    for odd in ["[z-b]", "[[:nothing:]]", "[[..]]", "[[==]]", "[[:alpha:]-9]", "[b-", "[", "b", "''", "[!a]", "?x"] {
        add(format!("case a in ({odd}|a) p first;; (*) p second;; esac"), &["first:0"]);
        add(format!("case a in (b|{odd}|a|c) p first;; (*) p second;; esac"), &["first:0"]);
        add(format!("case a in ({odd}|b) p first;; (a) p second;; (*) p third;; esac"), &["second:0"]);
        add(format!("case a in (b) p first;; ({odd}|[a]) p second;; (*) p third;; esac"), &["second:0"]);
    }
    add("case '' in (?) p 1;; ('') p 2;; (*) p 3;; esac".into(), &["2:0"]);
    add("case x in ([!a-w]) p 1;; (x) p 2;; esac".into(), &["1:0"]);
    // unquoted expansion results are patterns, quoted ones are literal
    add("p='*'; case abc in ($p) p yes;; (*) p no;; esac".into(), &["yes:0"]);
    add("p='*'; case abc in (\"$p\") p yes;; (*) p no;; esac".into(), &["no:0"]);
    add("p='a*'; x=aXbXc; args \"${x#$p}\" \"${x##$p}\" \"${x#\"$p\"}\"".into(), &["args[XbXc][][aXbXc]"]);
    // a backslash that comes out of an unquoted expansion escapes the next character of the pattern
    // (XCU 2.13.1), in `case` and in all four trims alike
    for c in ['*', '?', '[', '\\', 'a'] {
        let y = format!("y='\\{c}'");
        let lit = if c == '\\' { "'\\'".to_string() } else { format!("'{c}'") };
        add(format!("{y}; case {lit} in ($y) p yes;; (*) p no;; esac"), &["yes:0"]);
        if c != 'a' {
            add(format!("{y}; case x in ($y) p yes;; (*) p no;; esac"), &["no:0"]);
            add(format!("{y}; w=xx; args \"${{w#$y}}\" \"${{w##$y}}\" \"${{w%$y}}\" \"${{w%%$y}}\""), &["args[xx][xx][xx][xx]"]);
        }
        let w = if c == '\\' { "'\\Z\\'".to_string() } else { format!("'{c}Z{c}'") };
        add(format!("{y}; w={w}; args \"${{w#$y}}\" \"${{w##$y}}\" \"${{w%$y}}\" \"${{w%%$y}}\""), &[&format!("args[Z{c}][Z{c}][{c}Z][{c}Z]")]);
        add(format!("{y}; w={w}; args \"${{w#$y*}}\" \"${{w%%Z$y}}\" \"${{w##*$y}}\""), &[&format!("args[Z{c}][{c}][]")]);
    }
    // shortest / longest prefix / suffix
    add("x=aXbXc; args \"${x#*X}\" \"${x##*X}\" \"${x%X*}\" \"${x%%X*}\"".into(), &["args[bXc][c][aXb][a]"]);
    add("x=abcabc; args \"${x#a*c}\" \"${x##a*c}\" \"${x%a*c}\" \"${x%%a*c}\"".into(), &["args[abc][][abc][]"]);
    add("x='[a]b'; args \"${x#[[]}\" \"${x#[}\" \"${x%[!a]}\" \"${x#?a]}\"".into(), &["args[a]b][a]b][[a]][b]"]);
    // Which of `#` `##` `%` `%%` a modifier is: every text of an operator symbol followed by up to
    // three (thorough: four) units over {# % a * ? \# \% '#' "%"}, read by the rule of XCU 2.6.2
    // (the first symbol selects the side; the same symbol, unquoted, right after it selects the
    // longest match; everything after that is the pattern), on every subject of up to three
    // characters over {a # %}; the expected remainder comes from the reference matcher.
    {
        let units: [(&str, PC); 9] = [
            ("#", ('#', false)),
            ("%", ('%', false)),
            ("a", ('a', false)),
            ("*", ('*', false)),
            ("?", ('?', false)),
            ("\\#", ('#', true)),
            ("\\%", ('%', true)),
            ("'#'", ('#', true)),
            ("\"%\"", ('%', true)),
        ];
        let subjects = all_strings(&['a', '#', '%'], 3);
        let mut seqs: Vec<Vec<usize>> = vec![vec![]];
        let mut frontier: Vec<Vec<usize>> = vec![vec![]];
        for _ in 0..tier.pick(3, 4) {
            let next: Vec<Vec<usize>> = frontier.iter().flat_map(|f| (0..units.len()).map(move |u| { let mut g = f.clone(); g.push(u); g })).collect();
            seqs.extend(next.iter().cloned());
            frontier = next;
        }
        for sym in ['#', '%'] {
            for seq in &seqs {
                let longest = seq.first().is_some_and(|u| units[*u].0.len() == 1 && units[*u].1 .0 == sym);
                let pat: Vec<PC> = seq[usize::from(longest)..].iter().map(|u| units[*u].1).collect();
                let Parsed::Ok(ast) = parse(&pat) else { continue };
                let text: String = std::iter::once(sym.to_string()).chain(seq.iter().map(|u| units[*u].0.to_string())).collect();
                let mut script = String::from("for x in");
                let mut expect = vec![];
                for s in &subjects {
                    script.push_str(&format!(" '{s}'"));
                    let sc: Vec<char> = s.chars().collect();
                    let rest = if sym == '#' {
                        match ref_find(&ast, &sc, true, false, !longest, false) {
                            Some((_, e)) => s[e..].to_string(),
                            None => s.clone(),
                        }
                    } else {
                        match ref_find(&ast, &sc, false, true, true, !longest) {
                            Some((b, _)) => s[..b].to_string(),
                            None => s.clone(),
                        }
                    };
                    expect.push(format!("args[{rest}]"));
                }
                script.push_str(&format!("; do args \"${{x{text}}}\"; done"));
                v.push((script, expect));
            }
        }
    }
    // every sequence of up to four items, each with a pattern that matches the subject or not
    // and one of the four terminators (docs/src/language/commands/case.md): the first matching
    // item runs; after `;&` the next item runs whatever its pattern; after `;;&` / `;|` matching
    // goes on with the following items; `;;` ends the command
    {
        let terms = [";;", ";&", ";;&", ";|"];
        let mut seqs: Vec<Vec<(bool, usize)>> = vec![vec![]];
        let mut frontier: Vec<Vec<(bool, usize)>> = vec![vec![]];
        for _ in 0..4 {
            let mut next = vec![];
            for f in &frontier {
                for m in [true, false] {
                    for t in 0..4 {
                        let mut g = f.clone();
                        g.push((m, t));
                        next.push(g);
                    }
                }
            }
            seqs.extend(next.iter().cloned());
            frontier = next;
        }
        for seq in seqs {
            if seq.is_empty() {
                continue;
            }
            let mut script = String::from("case a in ");
            let mut expect: Vec<String> = vec![];
            let mut falling = false;
            let mut done = false;
            for (k, (m, t)) in seq.iter().enumerate() {
                script.push_str(&format!("({}) p i{k} ", if *m { "a" } else { "b" }));
                // the terminator of the last item may be left out; keep it for uniformity
                script.push_str(terms[*t]);
                script.push(' ');
                if !done && (falling || *m) {
                    expect.push(format!("i{k}:0"));
                    match *t {
                        0 => done = true,
                        1 => falling = true,
                        _ => falling = false,
                    }
                }
            }
            script.push_str("esac");
            v.push((script, expect));
        }
    }

    v
}

pub fn replay(case: &serde_json::Value) -> i32 {
    if let Some(s) = case["script"].as_str() {
        let r = vsh::run_once(&Setup::script(s), &Default::default());
        println!("{s}\n=> {:?} stderr={}", r.all_trace(), r.stderr);
        return 1;
    }
    let text = case["pattern"].as_str().unwrap();
    let mask: Vec<bool> = case["literal_mask"].as_array().map(|a| a.iter().map(|b| b.as_bool().unwrap()).collect()).unwrap_or_default();
    let pc: Vec<PC> = text.chars().zip(mask.into_iter().chain(std::iter::repeat(false))).collect();
    let s = case["string"].as_str().unwrap_or("");
    let mut cfg = Config::default();
    cfg.anchor_begin = case["anchor_begin"].as_bool().unwrap_or(true);
    cfg.anchor_end = case["anchor_end"].as_bool().unwrap_or(true);
    cfg.shortest_match = case["shortest"].as_bool().unwrap_or(false);
    let pat = Pattern::parse_with_config(to_pattern_chars(&pc).into_iter(), cfg);
    println!("pattern {text:?} string {s:?}: {:?}", pat.as_ref().map(|p| (p.is_match(s), p.find(s), p.rfind(s))));
    1
}

pub fn run(tier: Tier) -> i32 {
    let ctx = Ctx::new("C04", "exploration", tier);
    let counters = Counters { pairs: AtomicU64::new(0), unspec: AtomicU64::new(0), nontrivial: AtomicU64::new(0) };
    let samples = Samples::new(8);
    let palpha: Vec<char> = "ab.-*?[]!^\\:=".chars().collect();
    let salpha: Vec<char> = "ab.-][^\\:é".chars().collect();
    let strings = all_strings(&salpha, 3);
    let short_strings = all_strings(&salpha, 2);

    // (i) every character sequence up to length P, written with backslash escapes
    let pmax = tier.pick(4, 5);
    let pats = all_strings(&palpha, pmax);
    pats.par_iter().for_each(|p| {
        let Some(pc) = pchars(p) else {
            counters.unspec.fetch_add(1, Relaxed);
            return;
        };
        let find_too = p.chars().count() <= 3;
        let strs = if p.chars().count() >= 5 { &short_strings } else { &strings };
        check_pattern(&ctx, &pc, p, strs, &counters, find_too);
        samples.offer(|| json!({"pattern": p}));
    });
    // (i') every literal mask for sequences up to length 3
    let pats3 = all_strings(&palpha, 3);
    pats3.par_iter().for_each(|p| {
        let cs: Vec<char> = p.chars().collect();
        for mask in 1..(1u32 << cs.len()) {
            let pc: Vec<PC> = cs.iter().enumerate().map(|(i, c)| (*c, mask & (1 << i) != 0)).collect();
            check_pattern(&ctx, &pc, p, &short_strings, &counters, false);
        }
    });
    // (i'') one complete bracket expression `[` body `]` with every body of length <= 4 (thorough
    // 5) over the characters that are special inside brackets, alone and followed by `*`
    {
        let balpha: Vec<char> = "ab-[]!^.:=\\é".chars().collect();
        let bodies = all_strings(&balpha, tier.pick(4, 5));
        let bstrings = all_strings(&"ab-[]^!.:é\\".chars().collect::<Vec<_>>(), 2);
        bodies.par_iter().for_each(|b| {
            for p in [format!("[{b}]"), format!("[{b}]*")] {
                let Some(pc) = pchars(&p) else {
                    counters.unspec.fetch_add(1, Relaxed);
                    continue;
                };
                check_pattern(&ctx, &pc, &p, &bstrings, &counters, false);
            }
        });
    }
    // (ii) unit sequences: characters plus whole inner bracket elements
    let mut units: Vec<String> = palpha.iter().map(|c| c.to_string()).collect();
    for c in "a.-]^[\\!:=*?&~é".chars() {
        units.push(format!("[.{c}.]"));
        units.push(format!("[={c}=]"));
    }
    units.push("[:alpha:]".into());
    units.push("[:punct:]".into());
    let umax = tier.pick(3, 4);
    let mut upats: Vec<String> = vec![];
    let mut cur = vec![String::new()];
    for _ in 0..umax {
        let next: Vec<String> = cur.iter().flat_map(|s| units.iter().map(move |u| format!("{s}{u}"))).collect();
        upats.extend(next.iter().filter(|p| p.contains("[.") || p.contains("[=") || p.contains("[:")).cloned());
        cur = next;
    }
    // every inner element inside a complemented / plain bracket with a neighbour
    {
        let inner: Vec<String> = units.iter().filter(|u| u.starts_with("[.") || u.starts_with("[=") || u.starts_with("[:")).cloned().collect();
        let forms = ["[!E]", "[!Ea]", "[!aE]", "[E]", "[Ea]", "[!E]*", "[^E]", "[!EE]", "[!E-]", "[a-bE]"];
        for e in &inner {
            for f in forms {
                upats.push(f.replace('E', e));
            }
        }
        upats.sort();
        upats.dedup();
    }
    let ustrings = all_strings(&"a.-]^[\\!:=*?&~bé".chars().collect::<Vec<_>>(), tier.pick(1, 2));
    upats.par_iter().for_each(|p| {
        // written without escapes: every backslash is a normal character here
        let pc: Vec<PC> = p.chars().map(|c| (c, false)).collect();
        if p.contains('\\') {
            // a normal backslash escapes the next char in POSIX notation: use the with-escape reading
            if let Some(pc2) = pchars(p) {
                check_pattern(&ctx, &pc2, p, &ustrings, &counters, false);
            }
            return;
        }
        check_pattern(&ctx, &pc, p, &ustrings, &counters, false);
    });

    // through the whole shell
    let sc = shell_cases(tier);
    let shell_runs = sc.len() as u64;
    sc.par_iter().for_each(|(script, expect)| {
        let r = vsh::run_once(&Setup::script(script), &Default::default());
        if &r.all_trace() != expect || r.panic.is_some() {
            ctx.violation(
                "c04:shell",
                &format!("{script}: got {:?}, expected {expect:?}; stderr={:?}", r.all_trace(), r.stderr),
                json!({"script": script, "expected": expect}),
            );
        }
    });

    let cov = json!({
        "evaluations": counters.pairs.load(Relaxed) + shell_runs,
        "distinct_nontrivial": counters.nontrivial.load(Relaxed),
        "rule": format!("(i) every character sequence of length <= {pmax} over {{a b . - * ? [ ] ! ^ \\ : =}} read with backslash escapes, and every Literal/Normal marking of sequences <= 3, x every string of length <= 3 (2 for the longest patterns) over {{a b . - ] [ ^ \\ : é}}, in all four anchorings; for patterns <= 3 also find/rfind with shortest/longest in the combinations # ## % %% use; (i'') every complete bracket expression with a body of <= 4/5 characters over {{a b - [ ] ! ^ . : = \\ é}}, alone and followed by *; (ii) every sequence of <= {umax} units (those characters plus [.c.] [=c=] for 14 characters, [:alpha:], [:punct:]) containing an inner bracket element; oracle = own parser of XCU 2.14 + naive backtracking; (iii) case and trim forms through the whole shell with each special character quoted in every style; every case command of <= 4 items x {{matching, non-matching pattern}} x the four terminators ;; ;& ;;& ;| against the documented item selection. Non-trivial = pattern with at least one non-literal atom; distinct by (pattern, literal mask)."),
        "samples": samples.take(),
        "patterns_char_sequences": pats.len(),
        "patterns_unit_sequences": upats.len(),
        "patterns_skipped_unspecified": counters.unspec.load(Relaxed),
        "shell_scripts": shell_runs,
        "exhaustive": true,
    });
    ctx.finish(cov, &["reference parser/matcher trusted; reversed ranges, classes or multi-character symbols as range endpoints, undefined class names and a trailing lone backslash are skipped as unspecified"])
}
