#!/bin/bash
# usage: runall.sh [quick|thorough]  -- runs every registered check once and prints one line per check
tier=${1:-quick}
for id in C01 C02 C03 C04 C05 C06 C07 C08 C09 C10 C11 C12 C13 C14 C15 C16 C17 C18 C19 C20; do
  s=$(date +%s.%N)
  out=$(cd /verif && timeout 3000 ./check $id --tier $tier 2>&1); rc=$?
  e=$(date +%s.%N)
  printf "%s rc=%s %5.1fs %s\n" $id $rc $(echo "$e - $s" | bc) "$(echo "$out" | grep -c '^VIOLATION') violations; $(echo "$out" | grep -c '^KNOWN-FINDING') known"
done
