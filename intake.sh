#!/bin/bash
# usage: intake.sh <worktree> <seed name> "<nextest args of the demonstration>" <round> "<needs to manifest>"
# Copies a sub-agent's SEEDED/ directory into /verif/seeded/<name>/, registers its demonstration in
# verify_seeds.sh, and removes the scratch worktree with its build output.
set -eu
wt=$1; name=$2; demo=$3; round=$4; needs=$5
d=/verif/seeded/$name
mkdir -p $d
cp -r $wt/SEEDED/. $d/
[ -f $d/patch.diff ] || { echo "no patch.diff"; exit 2; }
git -C /repo apply --check $d/patch.diff || { echo "patch does not apply to /repo"; exit 2; }
grep -q "^ \[$name\]=" /verif/verify_seeds.sh || sed -i "s|^declare -A DEMO=(|declare -A DEMO=(\n [$name]=\"$demo\"|" /verif/verify_seeds.sh
python3 - "$d" "$name" "$round" "$needs" <<'PY'
import json,sys,os
d,name,rnd,needs=sys.argv[1:5]
m={}
if os.path.exists(d+'/meta.json'): m=json.load(open(d+'/meta.json'))
m.update({"property":name[:3],"name":name,"round":int(rnd),"needs_to_manifest":needs,
 "what_i_ran":["verify_seeds.sh: pinned suite with the change in a scratch worktree of /repo HEAD (baseline tests missing must be 0), demonstration with and without the change",
               "seed_matrix.sh: git -C /repo apply patch.diff; ./check <property> --tier quick; git -C /repo checkout -- ."]})
json.dump(m,open(d+'/meta.json','w'),indent=1)
PY
git -C /repo worktree remove --force $wt
echo "intake of $name done"
