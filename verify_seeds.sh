#!/bin/bash
# Re-confirms every seeded change in a scratch worktree of /repo (outside /repo and /verif):
#  (1) with the change the pinned suite still passes, (2) the demonstration fails with the change,
#  (3) the demonstration passes without it. Writes seeded/<name>/meta.json. Removes the worktree afterwards.
set -u
WT=/tmp/vs_worktree
export CARGO_NET_OFFLINE=true CARGO_BUILD_JOBS=8
git -C /repo worktree remove --force $WT 2>/dev/null
git -C /repo worktree add -q --detach $WT HEAD || exit 2
declare -A DEMO=(
 [C16h_declaration_operand_split_at_last_equals]="-p yash-builtin --test c16h_declaration_value"
 [C04h_star_run_swallows_quoted_star]="-p yash-fnmatch -p yash-semantics -E test(c04h)"
 [C19h_wait_any_skips_stopped_children]="-p yash-builtin --test c19h_wait_stopped_child"
 [C18h_verbose_echo_decided_at_startup]="-p yash-cli --test c18h_verbose_option"
 [C20h_long_match_stops_after_first_run]="-p yash-builtin --test c20h_ambiguous_long_option"
 [C07h_array_element_keyword_rejected]="-p yash-builtin --test c07h_set_listing_roundtrip"
 [C05h_leading_period_flag_from_any_atom]="-p yash-semantics --test c05h_leading_period"
 [C11h_startup_ignores_stoppers_without_interactive]="-p yash-cli --test c11h_startup_dispositions"
 [C08h_subshell_runs_parents_exit_trap]="-p yash-semantics --test c08h_exit_trap_in_subshell"
 [C10h_postfix_on_readonly_ignored]="-p yash-semantics --test c10h_arith_readonly"
 [C12h_jobs_p_does_not_remove_reported_jobs]="-p yash-builtin --test c12h_jobs_pgid_only"
 [C13h_plain_assignment_erases_substitution_status]="-p yash-semantics --test c13h_assign_cmdsubst_status"
 [C06h_function_body_display_drops_redirections]="-p yash-builtin --test c06h_typeset_f_body_redirs"
 [C09h_real_tmpfile_keeps_cloexec]="-p yash-env -p yash-cli -E test(c09h)"
 [C20g_typeset_strips_all_leading_signs]="-p yash-builtin --test c20g_typeset_sign_cluster"
 [C16g_source_registered_as_regular_builtin]="-p yash-builtin --test c16g_assignment_prefix_source_alias"
 [C19g_physical_path_resolves_rest_before_link_target]="-p yash-env -p yash-builtin -E binary(~c19g)"
 [C18g_read_overreads_after_invalid_utf8]="-p yash-builtin --test c18g_read_invalid_utf8"
 [C15g_finished_task_sweep_drops_task_being_polled]="-p yash-executor --test c15g_nested_step_wake"
 [C17g_forked_child_starts_without_aliases]="-p yash-semantics --test c17g_alias_in_command_subst"
 [C14g_nonblocking_guard_restores_seen_mode]="-p yash-env --test c14g_shared_pipe_nonblocking"
 [C13g_wait_returns_at_unknown_operand]="-p yash-builtin --test c13g_wait_unknown_then_known"
 [C12g_bg_sets_bang_before_validation]="-p yash-builtin --test c12g_bg_last_async_pid"
 [C11g_trap_stops_at_refused_condition]="-p yash-builtin --test c11g_trap_multi_condition"
 [C10g_no_exit_trap_after_shell_error]="-p yash-cli -E binary(c10g_exit_trap_on_shell_error)"
 [C09g_failed_exec_undoes_redirections]="-p yash-builtin --test c09g_exec_failed_interactive"
 [C08g_nonblocking_guard_restores_seen_mode]="-p yash-builtin --test c08g_subshell_nonblocking_leak"
 [C07g_typeset_separator_tests_quoted_name]="-p yash-builtin --test c07g_typeset_listing"
 [C06g_async_job_name_first_pipeline]="-p yash-semantics --test c06g_async_job_name"
 [C05g_tilde_result_soft_when_slash_stripped]="-p yash-semantics --test c05g_tilde_trailing_slash"
 [C03g_decimal_fast_path_signed_octal]="-p yash-semantics --test c03g_signed_octal_constant"
 [C02g_pipefail_max_status]="-p yash-builtin --test c02g_pipefail_status"
 [C01g_append_glues_to_first_field]="-p yash-semantics --test c01g_adjacent_at"
 [C04g_trim_second_symbol_either]="-p yash-semantics --test c04g_trim_operator"
 [C07f_ineffective_trap_keeps_parent_listing]="-p yash-builtin --test c07f_trap_listing_after_ineffective_trap"
 [C06f_inner_program_end_by_source_position]="-p yash-syntax -E binary(c06f_alias_then_command_subst)"
 [C02f_blank_line_clears_executed_flag]="-p yash-semantics --test c02f_status_after_trailing_blank_line"
 [C05f_stat_failure_counts_as_existing]="-p yash-semantics --test c05f_glob_unsearchable_dir"
 [C03f_short_circuit_only_on_computed_left_operand]="-p yash-arith --test c03f_short_circuit_variable_operand"
 [C04f_case_continue_keeps_fall_through]="-p yash-semantics --test c04f_case_fall_through_then_continue"
 [C01f_read_at_eof_keeps_old_values]="-p yash-builtin --test c01f_read_at_eof"
 [C16f_get_scalar_skips_valueless_local]="-p yash-builtin --test c16f_scalar_lookup"
 [C18f_async_keeps_stdin_when_devnull_fails]="-p yash-semantics --test c18f_async_stdin"
 [C19f_group_kill_dedups_sigchld]="-p yash-builtin --test c19f_group_kill_sigchld"
 [C17f_newline_skip_hoisted_out_of_retry_loop]="-p yash-syntax -p yash-semantics -E binary(~c17f)"
 [C15f_spawn_enqueues_at_front]="-p yash-executor --test c15f_spawn_fairness"
 [C20f_rejected_exec_retains_redirections]="-p yash-builtin --test c20f_exec_rejected_invocation"
 [C14f_undo_redirs_first_to_last]="-p yash-semantics c14f"
 [C08f_stop_ends_wait_requested_job_control]="-p yash-semantics --test c08f_stopped_subshell"
 [C11f_wait_batch_marks_in_loop]="-p yash-builtin --test c11f_wait_two_traps"
 [C10f_wait_trap_batch_keeps_last_result]="-p yash-builtin --test c10f_wait_trap_abort"
 [C13f_pipeset_shift_keeps_old_reader]="-p yash-semantics --test c13f_pipeline_middle_exits_early"
 [C12f_announced_job_number_is_len]="-p yash-semantics --test c12f_async_job_number"
 [C20e_set_short_after_long]="-p yash-builtin --test c20e_set_mixed_option_styles"
 [C18e_stop_counts_as_done]="-p yash-env -p yash-semantics c18e"
 [C19e_pipe_emfile_leaks_reader]="-p yash-env -p yash-semantics c19e"
 [C17e_redir_operand_not_alias_checked]="-p yash-syntax --test c17e_redir_operand_alias"
 [C16e_assign_switch_local_scope]="-p yash-semantics --test c16e_assign_switch_in_function"
 [C15e_wake_by_value_during_poll]="-p yash-executor --test c15e_wake_by_value_during_poll"
 [C14e_heredoc_rewind_by_chars]="-p yash-semantics c14e"
 [C13e_sigchld_handler_after_poll]="-p yash-env -p yash-semantics --test c13e_sigchld_race --test c13e_subshell_sigchld_race"
 [C12e_job_number_is_position]="-p yash-env -p yash-builtin -E binary(~c12e)"
 [C11e_set_monitor_not_last]="-p yash-builtin c11e"
 [C10e_dot_not_found_not_special]="-p yash-builtin --test c10e_dot_script_not_found"
 [C09e_backup_fd_failure_ignored]="-p yash-semantics --test c09e_save_fd_exhaustion"
 [C08e_fork_drops_umask]="-p yash-builtin --test c08e_umask_seen_by_subshell"
 [C06e_heredoc_empty_delimiter]="-p yash-syntax --test c06e_heredoc_empty_delimiter"
 [C02e_stop_ends_wait_without_job_control]="-p yash-semantics --test c02e_stopped_subshell"
 [C07e_clause_delimiter_command_name]="-p yash-builtin --test c07e_typeset_fp_roundtrip"
 [C04e_trim_pattern_unescaped]="-p yash-semantics --test c04e_trim_escape"
 [C05e_nonascii_collating_in_complement]="-p yash-semantics --test c05e_nonascii_bracket"
 [C01e_ifs_read_before_expansion]="-p yash-semantics --test c01e_ifs_after_expansion"
 [C03e_unicode_space_tokenizer]="-p yash-arith -p yash-semantics -E test(c03e)"
 [C01_read_escaped_trailing]="-p yash-builtin --test seeded_c01"
 [C02_for_resets_status]="-p yash-semantics c02_demo"
 [C03_shl_overflow]="-p yash-arith --test seeded_c03_shift_left_overflow"
 [C04_dquote_backslash_pattern]="-p yash-semantics --test c04_quoted_backslash_in_pattern"
 [C05_componentwise_sort]="-p yash-semantics --test c05_glob_sorted"
 [C06_display_drops_assigns]="-p yash-syntax --test c06_keyword_after_assignment"
 [C07_backquote_in_dquote]="-p yash-builtin --test c07_quote_roundtrip"
 [C08_pipeline_parent_fd_leak]="-p yash-semantics c08_demo"
 [C09_undo_order]="-p yash-semantics --test c09_redir_undo_order"
 [C10_errexit_monitor_pipeline]="-p yash-semantics --test c10_errexit_monitor_pipeline"
 [C11_subshell_ignore_record]="-p yash-env c11_demo"
 [C12_stopped_to_dead]="-p yash-env --test job_table_consistency"
 [C13_wait_all_slab_hole]="-p yash-builtin --test wait_all_jobs"
 [C14_cmdsubst_closed_stdout]="-p yash-semantics --test c14_command_subst_closed_stdout"
 [C15_dedup_last_only]="-p yash-executor --test wake_dedup"
 [C16_volatile_reuse]="-p yash-env -p yash-semantics -E test(c16_seeded_demo)|test(nested_temporary_assignment)"
 [C17_alias_nonword_replacement]="-p yash-syntax --test c17_alias_nonword_replacement"
 [C18_heredoc_overread]="-p yash-syntax --test c18_heredoc_overread"
 [C19_sigmask_sigchld_target]="-p yash-builtin --test c19_sigmask_sigchld"
 [C20_long_option_rfind_eq]="-p yash-builtin --test c20_read_delimiter_spellings"
 [C01b_nounset_length]="-p yash-semantics --test c01b_nounset_length"
 [C02b_return_status_dropped]="-p yash-builtin --test c02b_return_status_in_subshell"
 [C03b_signed_octal_variable]="-p yash-arith -p yash-semantics -E test(c03b)"
 [C04b_rfind_multibyte]="-p yash-fnmatch -p yash-semantics -E test(c04b)"
 [C05b_literal_backslash_arms_escape]="-p yash-semantics --test c05b_glob_escaped_backslash"
 [C06b_nonascii_digit_param]="-p yash-syntax --test c06b_parser_totality"
 [C07b_rtmax_offset]="-p yash-builtin --test c07b_trap_realtime_roundtrip"
 [C08b_subshell_signal_to_group]="-p yash-semantics c08b"
 [C09b_noclobber_fd_leak]="-p yash-semantics --test c09b_noclobber_fd_leak"
 [C10b_trap_divert_overrides_abort]="-p yash-semantics --test c10b_errexit_vs_trap_divert"
 [C11b_sigint_batch_drops_signal]="-p yash-semantics --test c11b_signal_batch_with_sigint"
 [C12b_same_pid_insert]="-p yash-env --test c12b_pid_reuse"
 [C13b_stopped_foreground_child]="-p yash-semantics --test c13b_stopped_foreground_child"
 [C14b_all_newline_output]="-p yash-semantics --test c14b_command_subst_newlines"
 [C15b_step_stops_at_finished_task]="-p yash-executor --test c15b_finished_task_in_queue"
 [C16b_env_hidden_exported]="-p yash-builtin --test c16b_export_scope"
 [C17b_tab_ending_alias]="-p yash-syntax -p yash-semantics -E binary(c17b_alias_tab_ending)|test(c17b)"
 [C18b_parse_mode_hoisted]="-p yash-builtin --test c18b_option_change_takes_effect_on_next_line"
 [C19b_stopped_killed_keeps_fds]="-p yash-builtin --test c19b_stopped_child_pipe_eof"
 [C20b_double_separator]="-p yash-builtin --test c20b_separator_operand"
 [C05c_quoted_leading_period]="-p yash-semantics --test c05c_quoted_leading_period"
 [C07c_umask_symbolic_clauses]="-p yash-builtin --test c07c_umask_symbolic_listing"
 [C08c_async_ignore_not_installed]="-p yash-semantics --test c08c_async_after_trap_reset"
 [C10c_errexit_exemption_stops_at_subshell]="-p yash-semantics --test c10c_errexit_subshell_in_condition"
 [C11c_stale_pending_kept]="-p yash-builtin --test c11c_stale_pending"
 [C13c_bang_reset_on_empty_joblist]="-p yash-builtin --test c13c_async_pid_after_wait"
 [C15c_batch_run_until_stalled]="-p yash-executor --test c15c_run_until_stalled"
 [C06c_global_alias_recursion]="-p yash-syntax --test c06c_global_alias_totality"
 [C12c_remove_current_fallback]="-p yash-env --test c12c_remove_current_job"
 [C14c_pipe_reader_on_fd1]="-p yash-semantics --test c14c_pipeline_closed_stdout"
 [C17c_negation_lost_before_alias]="-p yash-syntax --test c17c_negated_alias"
 [C18c_line_chunk_splits_utf8]="-p yash-semantics --test c18c_long_line_chunking"
 [C19c_append_after_truncate]="-p yash-builtin --test c19c_append_after_truncate"
 [C01c_nested_quote_resets_will_split]="-p yash-semantics --test c01c_nested_quote_asterisk"
 [C02c_loop_status_after_continue]="-p yash-builtin --test c02c_loop_status_after_continue"
 [C03c_shift_additive_precedence]="-p yash-arith --test c03c_shift_additive_precedence"
 [C04c_case_broken_alternative]="-p yash-semantics --test c04c_case_broken_pattern"
 [C09c_dot_script_fd_not_cloexec]="-p yash-builtin --test c09c_dot_script_fd_cloexec"
 [C01d_trim_pattern_escapes_dropped]="-p yash-semantics --test c01d_trim_backslash"
 [C02d_negation_lost_before_alias]="-p yash-builtin --test c02d_negated_alias"
 [C03d_arith_assign_local_scope]="-p yash-semantics --test c03d_arith_assign_in_function"
 [C04d_range_ending_with_bracket]="-p yash-fnmatch -p yash-semantics --test c04d_range_ending_with_bracket"
 [C05d_glob_interrupted_by_any_signal]="-p yash-semantics --test c05d_glob_other_signal"
 [C06d_redirected_word_as_function_name]="-p yash-syntax --test c06d_redirected_word_before_parens"
 [C07d_export_p_array_attribute]="-p yash-builtin --test c07d_export_p_array"
 [C08d_cmdsubst_interrupt_leaks_reader]="-p yash-semantics --test c08d_command_subst_interrupt"
 [C09d_move_fd_internal_leaks_on_failure]="-p yash-env -p yash-builtin --test c09d_move_fd_internal --test c09d_dot_fd_exhaustion"
 [C10d_errexit_skipped_without_command_name]="-p yash-semantics --test c10d_errexit_without_command_name"
 [C11d_wait_trap_runs_twice]="-p yash-builtin --test c11d_wait_trap_once"
 [C12d_set_current_accepts_finished_job]="-p yash-builtin --test c12d_bg_finished_job"
 [C13d_cmdsubst_waits_before_reading]="-p yash-semantics --test c13d_command_subst_long_output"
 [C14d_heredoc_dash_counts_all_tabs]="-p yash-semantics --test c14d_here_doc_tabs"
 [C15d_receiver_keeps_first_waker]="-p yash-executor --test c15d_receiver_handover"
 [C16d_unset_local_only]="-p yash-builtin --test c16d_unset_hidden_variable"
 [C17d_alias_in_noncommand_words]="-p yash-syntax --test c17d_alias_compound_headers"
 [C18d_undo_redirs_oldest_first]="-p yash-semantics c18d"
 [C19d_fork_inherits_pending_signals]="-p yash-builtin --test c19d_fork_pending_signals"
 [C20d_set_option_name_nonascii]="-p yash-builtin --test c20d_set_option_name_spelling"
 [C16c_readonly_local_in_function]="-p yash-builtin --test c16c_readonly_in_function"
 [C20c_kill_attached_sig_prefix]="-p yash-builtin --test c20c_kill_attached_signal"
)
suite() { # runs the pinned suite in $WT, prints number of baseline tests missing
  (cd $WT && cargo nextest run --workspace --no-fail-fast --tool-config-file pb:/w/lib/nextest.toml --profile pb --test-threads 8 --offline >/dev/null 2>&1
   python3 - <<'PY'
import json,xml.etree.ElementTree as ET
want=set(json.load(open('/root/.vp/BASELINE.json'))['stable_pass'])
p=set();f=set()
for tc in ET.parse('/tmp/vs_worktree/target/nextest/pb/junit.xml').getroot().iter('testcase'):
    t=(tc.get('classname') or '')+'::'+(tc.get('name') or '')
    (f if (tc.find('failure') is not None or tc.find('error') is not None) else p).add(t)
print(len(want-(p-f)))
PY
  )
}
demo() { # $1 = args; prints "pass" or "fail"
  (cd $WT && cargo nextest run --offline --no-fail-fast $1 >/tmp/vs_demo.log 2>&1 && echo pass || echo fail)
}
for name in "${!DEMO[@]}"; do
  d=/verif/seeded/$name
  [ -n "${1:-}" ] && [[ "$name" != $1 ]] && continue   # $1 may be a glob, e.g. 'C0?b_*'
  git -C $WT checkout -q -- . ; git -C $WT clean -fdq -e target
  if ! git -C $WT apply $d/patch.diff 2>/tmp/vs_apply.err; then echo "$name: patch does not apply: $(cat /tmp/vs_apply.err | head -2)"; continue; fi
  missing=$(suite)
  # demonstration
  if [ -f $d/demo.diff ]; then git -C $WT apply $d/demo.diff 2>/dev/null || echo "$name: demo.diff did not apply cleanly"; fi
  with=$(demo "${DEMO[$name]}")
  git -C $WT apply -R $d/patch.diff
  without=$(demo "${DEMO[$name]}")
  echo "$name: suite_missing_with_change=$missing demo_with_change=$with demo_without_change=$without"
  python3 - "$name" "$missing" "$with" "$without" "${DEMO[$name]}" <<'PY'
import json,sys,os,subprocess
name,missing,w,wo,args=sys.argv[1:6]
d=f'/verif/seeded/{name}'
meta={}
if os.path.exists(d+'/meta.json'): meta=json.load(open(d+'/meta.json'))
meta.update({"property":name.split('_')[0],"name":name,
 "verified_on_repo_commit":subprocess.check_output(['git','-C','/repo','log','--format=%h','-1']).decode().strip(),
 "pinned_suite_with_change":{"command":"cargo nextest run --workspace --no-fail-fast --profile pb --offline (in a scratch worktree)","baseline_tests_missing":int(missing)},
 "demonstration":{"command":f"cargo nextest run --offline --no-fail-fast {args}","with_change":w,"without_change":wo},
 "confirmed": missing=="0" and w=="fail" and wo=="pass"})
json.dump(meta,open(d+'/meta.json','w'),indent=1)
PY
done
git -C /repo worktree remove --force $WT
