#!/bin/bash
# Runs every seeded change against the quick check of its property and records the verdict in meta.json.
cd /verif
# optional argument: a glob on the seed name, e.g. 'C??c_*'
for d in seeded/*/; do
  name=$(basename $d); [ -n "${1:-}" ] && [[ "$name" != $1 ]] && continue; id=${name%%_*}; id=${id:0:3}
  [ -z "$(git -C /repo status --porcelain)" ] || { echo "/repo not clean"; exit 2; }
  git -C /repo apply /verif/$d/patch.diff || { echo "$name: patch does not apply"; continue; }
  # a seed whose mechanism belongs to a neighbouring property names the check that decides it
  [ -f /verif/$d/detect_with ] && id=$(cat /verif/$d/detect_with)
  out=$(./check $id --tier quick 2>&1); rc=$?
  git -C /repo checkout -- .; (cd /verif/harness && CARGO_NET_OFFLINE=true cargo build --release --quiet 2>/dev/null)
  keys=$(echo "$out" | grep -o 'key=[^ ]*' | sort -u | head -5 | tr '\n' ' ')
  echo "$name: check $id exit=$rc $keys"
  python3 - "$d" "$id" "$rc" "$keys" <<'PY'
import json,sys
d,id,rc,keys=sys.argv[1:5]
m=json.load(open(d+'meta.json'))
m['detected_by']={"check":id,"tier":"quick","exit_code":int(rc),"violation_keys":keys.split()}
json.dump(m,open(d+'meta.json','w'),indent=1)
PY
done
