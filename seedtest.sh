#!/bin/bash
# usage: seedtest.sh <seeded dir name> <tier> <property id>...   -- applies the seeded change to /repo, runs the checks, reverts.
set -u
d=/verif/seeded/$1; tier=$2; shift 2
[ -z "$(git -C /repo status --porcelain)" ] || { echo "/repo not clean"; exit 2; }
git -C /repo apply "$d/patch.diff" || { echo "patch does not apply"; exit 2; }
for id in "$@"; do
  out=$(cd /verif && ./check $id --tier $tier 2>&1); rc=$?
  echo "== $(basename $d) vs $id ($tier): exit=$rc $(echo "$out" | grep -c '^VIOLATION') violation lines"
  echo "$out" | grep -A1 '^VIOLATION' | head -4
done
git -C /repo checkout -- . 
# leave /verif/target/release/yv built from the clean tree again (a later direct use of the binary
# must not be the seeded build)
(cd /verif/harness && CARGO_NET_OFFLINE=true cargo build --release --quiet 2>/dev/null)
