#!/usr/bin/env python3
"""Generates /verif/MANIFEST.json from the table below (single source of truth)."""
import json, subprocess

HOOK_COMMITS = ["f409468"]

# id -> (category, design_ref, technique, level text, level note)
CHECKS = {
 "C12": ("model_checking", "DESIGN.md §3 C12",
   "explicit-state BFS over the real JobList object (every transition executed on the implementation), invariant checked in every state",
   "Breadth-first exploration of every history of job-table operations (insert running/suspended with fresh pid or pid of a finished job, update status, set current, remove, remove-if, report, extract) over up to 4 jobs, to depth 6 (quick) / 9 (thorough), with the five invariants of the statement, find_by_pid/iter agreement, per-operation postconditions and job-index stability evaluated after every transition. The property is an inductive invariant of a small state machine, so explicit-state exploration of the real object is the right level.",
   "Alphabet restricted as in the statement (re-insert only pids of finished jobs); states merged by visible content plus the slab's next free indices."),
 "C13": ("model_checking", "DESIGN.md §3 C13",
   "stateless deviation-bounded DFS over schedules of the real shell on the simulated OS under a controlled executor (choice of next runnable process at every blocking point; nested-poll preemption at syscall taps), oracle = reference interpreter",
   "About 280 (quick) / 360 (thorough) race-free programs (pipelines of 2-4 stages with and without data, pipefail, async lists with wait/wait $!/saved pids/unknown pid, waits inside subshells and command substitutions, background job concurrent with a foreground pipeline) are each executed under every cooperative schedule (every choice of the next runnable simulated process at every blocking point; if the per-program cap is hit the run falls back to deviation bound 2 and says so) and additionally with preemption at every simulated system call up to deviation bound 1 (quick) / 2 (thorough). Every execution must terminate (no deadlock/livelock), show exactly the markers and $? values the reference interpreter predicts per process, exit with the predicted status, leave no zombie and no live process. Schedule bugs are interleaving bugs, so exhaustive schedule enumeration within a deviation bound is the fitting level.",
   "Schedules are those of the simulator (poll order of virtual processes; syscalls atomic); refsh and the probe built-ins are trusted; programs whose outcome legitimately depends on a race (EPIPE) are excluded by the generator."),
 "C14": ("model_checking", "DESIGN.md §3 C14",
   "stateless deviation-bounded DFS over schedules of writer/reader processes of the real shell on the simulated OS (controlled executor + syscall-tap preemption), byte-exact oracle at the consumer",
   "Payload sizes around every buffer boundary of the simulator (0,1,511..513,1023..1025,1536,2047..2049,4096; PIPE_BUF 512, capacity 1024) x trailing/embedded newline shapes x 2-4 stage pipelines, command substitutions (plain, piped, nested, concatenated) and here-documents x reader buffer sizes; every case runs under all cooperative schedules when the payload is <= 1025 bytes (falling back to a completed deviation bound 2 if the cap is hit, reported) or under deviation bound 2/3 above, plus preemption at syscall taps with deviation bound 1. The consumer's length+hash must equal the payload, $( ) must strip exactly the trailing newlines, the shell must exit 0 with no deadlock, zombie or diagnostic.",
   "Simulator pipe semantics; probe built-ins gen/cat/hsink/chk trusted."),
 "C16": ("model_checking", "DESIGN.md §3 C16",
   "explicit-state BFS by history replay over the real VariableSet in lock-step with a stack-of-maps reference model (every return value and read compared after every operation), plus scripts through the whole shell",
   "Every history up to depth 5 (quick) / 7 (thorough) over {push regular/volatile context, pop, get_or_new in Global/Local/Volatile scope followed by touch/assign/export/make read-only, unset in each scope} on names {x,y} with up to 3 contexts above the base is replayed on a fresh real VariableSet (contexts pushed and popped through the public RAII guards) in lock-step with a naive stack-of-maps model that encodes the documented semantics (volatile-to-regular migration, hiding, read-only); after every operation get, get_scoped x3, iter x3, env_c_strings and positional_params are compared. About 55 scripts run through the whole shell cover prefix assignments to each command kind, locals, read-only and the environment received by executed programs. The property is equivalence with a simple scoping model over all histories, which lock-step exploration decides directly.",
   "Names {x,y}, <=3 extra contexts, Scope::Volatile only when the topmost context is volatile (documented precondition). States merged on (model state, canonicalised Debug rendering of the implementation)."),
 "C09": ("fault_enumeration", "DESIGN.md §3 C09",
   "bounded-exhaustive enumeration of redirection lists x command kinds x noclobber on the real shell over the simulated OS, repeated under every descriptor limit 5..14 (fault enumeration of each descriptor allocation), oracle = POSIX descriptor-table model + before/after table equality",
   "Every redirection list of length <= 2 (thorough: larger target-fd alphabet and a length-3 slice) over {< > >> >| <> <& >& <<} x target fd {default,3,5(closed),...} x operand {existing, missing, other file, open/closed/internal fd, -, non-numeric} on 11 command kinds (regular built-in, special built-in eval / :, function, brace group, subshell, external, not found, empty command, exec, command exec), with noclobber where relevant, is run through the whole shell. A descriptor-table model predicts the table the command must see (description identity, access mode, inode identity), the files created/truncated, whether the command runs, and what happens after an error; the real table (all descriptors, read from the simulator's process state) must be identical before and after every non-exec command, at EXIT, every descriptor >= 10 must be close-on-exec. Fault enumeration: the same lists under `ulimit -n N` for every N in 5..14, so each internal allocation fails at some N; then only the invariants are judged.",
   "Offsets are not compared; directories/missing parents as write targets are left to C19; under descriptor limits only restoration/close-on-exec invariants and the inside-table (when the command ran) are judged."),
 "C08": ("model_checking", "DESIGN.md §3 C08",
   "stateless schedule exploration (all cooperative schedules + syscall-tap preemption, deviation bound 1) of mutator programs in every subshell kind on the real shell, oracle = full-state snapshots taken inside the shell",
   "30 state mutators (assign, unset, export, readonly, typeset, function define/undefine/redefine, alias/unalias/global alias, six `set` options, set --, shift, cd, umask, trap set/reset/ignore/EXIT, exec redirections opening/closing/appending, ulimit), singly and in ordered pairs (quick: a 1/5 slice of pairs), are placed inside each of `( )`, `$( )`, first and last element of a pipeline and an asynchronous list, after each of 3 preludes that put the parent into a non-initial state; every program runs under every cooperative schedule of its processes and (single mutators; thorough: all) with preemption at every simulated syscall at deviation bound 1. A snapshot probe serialises variables with attributes, positional parameters, functions, aliases, options, traps, installed dispositions, signal mask, umask, cwd and the descriptor table by open-file-description identity. Oracle: the parent's snapshot is identical before and after (except $?, $!, jobs and the internal SIGCHLD handler); the child's snapshot on entry equals the parent's except command traps reset to default (ignored stay ignored, INT/QUIT ignored in async lists); the body ran in another process.",
   "Snapshot probe trusted; descriptor table compared only for `( )` on entry (other kinds legitimately replace stdin/stdout)."),
 "C02": ("exploration", "DESIGN.md §3 C02",
   "bounded-exhaustive enumeration of programs (all ASTs up to a size bound x surface-syntax variants) executed by the real shell and compared with a reference interpreter; exhaustive command-search table",
   "Every AST of at most 4 (quick, 12k programs / 50k runs) or 5 (thorough, 223k programs / 890k runs) nodes over the core command language (probes with status 0/1, sequential lists, &&/|| chains, !, two-stage pipelines, brace groups, subshells, if/else, while/until, for with 0/2 items, case with 1-2 arms, function definition+call, break/continue [n], return [n], exit [n]) is printed in 16 (size <= 3) or 4 orthogonal surface variants (newline vs `;`, extra blanks, comments, backslash-newline) and executed to completion by the whole shell; the per-process sequence of markers with the $? each saw, the final exit status and stderr emptiness must equal the reference interpreter refsh for every variant (so variants also agree with each other). Cases POSIX leaves unspecified are skipped and counted. The command-search order is checked on the full table builtin kind {none, special, mandatory, elective, substitutive} x function x executable in PATH dir 1 / dir 2 (40 cases).",
   "refsh is trusted (cross-checked against dash/bash during development); pipelines run under the default schedule here (C13 covers schedules)."),
 "C10": ("exploration", "DESIGN.md §3 C10",
   "bounded-exhaustive enumeration: every program of the C02 generator with each failure category planted at every probe position x errexit on/off (+ job control, + syntax error on a later line, + errexit toggled mid-script), executed by the real shell and compared with the reference interpreter extended by the documented shell-error table",
   "Every C02 program of at most 3 (quick, 12.6k cases) / 4 (thorough, 370k cases) nodes is run (a) unchanged with errexit off and on, with `set -m` when it contains a pipeline, and with a syntax error on a later line; (b) with each of 13 failure categories (command not found; redirection error on regular built-in, function, compound command, special built-in, command-wrapped special built-in; read-only assignment prefixed to a special built-in, a regular built-in, nothing; ${u?}; unset variable under nounset; special built-in usage error directly and via `command`) planted at every probe position, errexit off and on; (c) with errexit toggled mid-script. Every script installs an EXIT trap and ends with a final probe. The reference interpreter tracks the dynamic condition-context depth (if/while/until conditions, non-final and-or elements, `!`, through function calls) and the manual's consequences-of-shell-errors table; the markers with their $?, the absence of anything after the abort point, the exit status (exact where documented, non-zero where the manual only says so) and exactly one EXIT-trap execution are compared.",
   "refsh + docs/src/termination.md table trusted; default schedule on the simulated OS; the private glue yash_cli::run_as_shell_process is reproduced from its public pieces in the harness."),
 "C18": ("model_checking", "DESIGN.md §3 C18",
   "exhaustive enumeration of input feeds (file, pipe in every chunking with <= 2 cuts x explored schedules of writer vs shell, -c, dot script, eval) x syntax-error positions on the real shell; oracle = line-consumption unit model + descriptor offsets",
   "14 scripts built from units (command lines plus exactly the data lines they consume: read with 1-2 variables, grouped reads, read in a loop / subshell / pipeline stage, alias and option changes affecting later lines only, multi-line compound commands, here-documents incl. a here-document followed by a stdin reader on the same line, cat swallowing the rest, line continuations, exit) with a syntax error planted before every unit (67 cases). Each case is fed (i) as a regular file on descriptor 0 with a `pos` probe after every unit — the descriptor offset must be exactly the end of that line; (ii) through a pipe written by a separate simulated process in every chunking with <= 1 (quick) / <= 2 (thorough) cuts at positions around every newline and mid-line, under every schedule of writer and shell with <= 1 / <= 2 deviations (thorough: + syscall-tap preemption); (iii)-(v) as -c string, dot script and eval when the script does not read its own input. All feeds must give the unit model's markers, stdout bytes and exit-status class; lines before a syntax error have run, nothing after it.",
   "Unit expectations hand-written from the line-by-line rules; simulator pipe semantics."),
 "C15": ("model_checking", "DESIGN.md §3 C15",
   "explicit-state BFS over driver choice sequences for every small task system, each history replayed on the real yash_executor::Executor with instrumented futures in lock-step with a FIFO reference model",
   "Task systems: 2 tasks with scripts of <= 2 actions over 11 actions (self-wake+yield, duplicate self-wake, wait on channel 0 / 1 / either, signal a channel by consuming wake / wake_by_ref, clone-and-drop the waker, spawn a child through the Spawner), 3 tasks over a 6-action alphabet (thorough: scripts <= 2; plus 2 tasks with scripts <= 3). For each system a BFS over driver choices {step, run_until_stalled, signal channel 0/1 from outside, spawn another task} to depth 5 (quick) / 7 (thorough), states merged on the reference model's state. Every history runs on a fresh real Executor; after every driver operation the poll log of the instrumented futures must equal the model's (so FIFO order, no lost wake-up, no starvation by self-wakers), wake_count must equal the model queue length (a task queued at most once), step/run_until_stalled return values must agree, no future is polled after Ready or re-entrantly, each Receiver yields its value exactly once as soon as its task finished, at stall every unfinished task is registered on a channel not signalled since, and every future is dropped exactly once at tear-down.",
   "Reference FIFO model trusted; wakers exercised through std::task::Waker (raw vtable) only."),
 "C11": ("model_checking", "DESIGN.md §3 C11",
   "(a) explicit-state BFS by history replay over the real TrapSet bound to the real simulated system against a reference merge model; (b) exhaustive signal injection at every simulated system call index (and pairs) of scripts with traps",
   "(a) For each signal class {INT, QUIT, TERM, CHLD, TSTP, USR1, KILL, STOP} x initial disposition {default, ignored} and 4 signal pairs, every history up to depth 5 (quick) / 8 (thorough) over {set_action Default/Ignore/Command with and without override, peek_state, enable/disable each internal-disposition group, enter_subshell with each option pair} is replayed on a fresh TrapSet + Concurrent<VirtualSystem>; after every operation the disposition actually installed in the simulated process and its signal mask are read back and must equal max(internal, user action) with caught <=> blocked, return values (InitiallyIgnored, SIGKILL/SIGSTOP refusal) must agree, and the trap set's recorded action must match. (b) 8 scripts (straight-line, loops, functions, command substitution, subshell, pipeline, case, multi-command trap action, EXIT trap): the trapped signal is raised on the shell at every system-call index after the trap is installed, and at pairs of indices; the markers outside the trap with their $? and the exit status must equal the undisturbed run, and the trap must run exactly once per delivery (1..n when n deliveries may coalesce; 0..1 once no command boundary is left).",
   "Reference merge model trusted; injection points are the simulator's syscall boundaries (complete because caught signals are blocked outside select); injections before the trap is installed are excluded (default action + a simulator limitation covered under C19)."),
 "C03": ("exploration", "DESIGN.md §3 C03",
   "bounded-exhaustive enumeration of expression trees on boundary operands (each printed with minimal parentheses and fully parenthesised) against an exact i128 evaluator; exhaustive enumeration of all short strings for totality",
   "All expression trees of depth <= 1 over 18 binary value operators, 11 assignment forms, 4 prefix operators, prefix/postfix ++/--, and ?: on 20 boundary operands (0,1,2,3,5,61..65,2^31,2^32+1,2^62,2^63-1,2^63,-1,-(2^63-1), variables a,b in 5 environments, unset u), a depth-2 slice (thorough: all depth-1 trees as operands; plus a pruned depth 3), and all pairs of binary operators in both association shapes; each tree is evaluated by yash_arith::eval once with the minimal parentheses C precedence/associativity requires and once fully parenthesised. The exact i128 model decides the value, or that the result must be an error (overflow, /0, %0, MIN/-1, MIN%-1, shift count <0 or >=64, shifting a negative value or into the sign bit); short-circuit operands are planted with assignments and 1/0 and must leave no trace; variable side effects are compared. $((x)) and $(($x)) are compared for decimal/octal/hex/signed spellings, also through the whole shell. Every string of length <= 4 over 26 token characters (475k) must not panic; lengths <= 2 (quick) / 3 (thorough) also go through the whole shell, whose error path slices the source by byte ranges.",
   "i128 evaluator trusted; right shift of negatives and unsequenced modify+read are skipped as unspecified."),
 "C04": ("exploration", "DESIGN.md §3 C04",
   "bounded-exhaustive enumeration of (pattern, string) pairs in every anchoring/greediness configuration against a naive backtracking matcher with its own XCU 2.14 parser; case/trim forms through the whole shell in every quoting style",
   "(i) every character sequence of length <= 4 (quick) / 5 (thorough) over {a b . - * ? [ ] ! ^ \\ : =} read with backslash escapes, and every Literal/Normal marking of sequences of length <= 3, against every string of length <= 3 over {a b . - ] [ ^ \\ : é}, in all four anchorings (is_match) and, for patterns <= 3, find/rfind with shortest/longest in the combinations # ## % %% use; (ii) every sequence of <= 3 (quick) / 4 (thorough) units where a unit is one of those characters or a whole inner bracket element [.c.] / [=c=] for 14 characters (incl. all regex-special ones), [:alpha:], [:punct:] — needed because the shortest pattern with a collating symbol already has 7 characters; (iii) 268 scripts through the whole shell: each special character quoted as 'c', \\c, \"c\" / \"\\c\", \"$v\" in case patterns and in # % ## %% trims must match only itself, first-match rule of case, quoted vs unquoted expansion results, shortest/longest prefix/suffix. 52M (quick) pairs; the reference matcher decides by brute force over substrings.",
   "Reference parser/matcher trusted; reversed ranges, classes/multi-character symbols as range endpoints, undefined classes and a trailing lone backslash are unspecified and skipped."),
 "C01": ("exploration", "DESIGN.md §3 C01",
   "bounded-exhaustive enumeration of words x variable states x positional parameters x IFS x nounset on the real expander against an independent reference expander over attributed characters; exhaustive `read` lines",
   "Every word of <= 2 (quick, 7.8k words) / 3 (thorough) units over 88 units (literal; quoting forms ' ' '' \" \" \"\" \\<blank> \\:; $x ${x} \"$x\" \"${x}\" ${#x}; the eight switch forms - :- = := ? :? + :+ with inner words a, \"b c\", $y, bare b c, also inside double quotes; the four trims with four patterns; $@ \"$@\" $* \"$*\" $# $1 \"$1\") is expanded by yash_semantics::expansion::expand_words on a real Env in each of 560 configurations (x in {unset, empty, a, 'a b', ' a  b ', a:b, :a::b:, 'a: b'} x 5 positional-parameter lists x IFS in {unset, default, empty, ':', ': ', ' :', 'a'} x nounset) — 4.3M expansions in the quick tier — and compared with refexp: field list, error class (unset parameter, ${x?}), and the value assigned by = forms. Every 64th case also runs through the whole shell (`args WORD`). `read` is checked on every line of length <= 4/5 over {a, blank, :, backslash} x 4 IFS values x 1-3 variables x -r, including backslash-escaped delimiters at the end of the remainder.",
   "refexp trusted (cross-validated against dash and bash during design); skipped as unspecified: unquoted $@/$* with empty or IFS-edged parameters, unquoted $* with empty IFS, read with several delimiters left plus a trailing non-whitespace one."),
}

NOT_YET = {
}

def main():
    props = [json.loads(l)["id"] for l in open("/verif/properties.jsonl")]
    checks = []
    for pid in props:
        if pid not in CHECKS: continue
        cat, ref, tech, text, note = CHECKS[pid]
        checks.append({
            "property_id": pid,
            "quick_cmd": f"./check {pid} --tier quick",
            "thorough_cmd": f"./check {pid} --tier thorough",
            "evidence_file": f"/verif/evidence/{pid}.json",
            "replay_cmd_template": f"./check {pid} --replay {{path}}",
            "engine": "yv",
            "level_claimed": {"category": cat, "text": text, "design_ref": ref},
            "level_note": note,
            "technique": tech,
        })
    na = [{"property_id": p, "reason": NOT_YET.get(p, "check not built yet in this snapshot (work in progress; see DESIGN.md for the planned exploration)")}
          for p in props if p not in CHECKS]
    m = {
        "version": 1,
        "setup_cmd": "cd /verif/harness && CARGO_NET_OFFLINE=true cargo build --release",
        "hooks": {
            "guard": "cargo feature `verif-hooks` of crate yash-env (off by default; nothing in the workspace enables it)",
            "enable": "the harness crate /verif/harness depends on yash-env by path with features [\"test-helper\", \"verif-hooks\"]; `./check` runs `cargo build --release` there, which rebuilds the changed /repo crates",
            "baseline_off_cmd": "/verif/baseline.sh",
            "source_commits": HOOK_COMMITS,
            "add_only": True,
        },
        "engines": [{
            "name": "yv",
            "path": "/verif/harness",
            "serves_properties": sorted(CHECKS),
            "kind_free_text": "Rust harness linking the real yash-rs crates: deviation-bounded stateless schedule exploration with a controlled executor for the simulated OS, explicit-state BFS over real objects, bounded-exhaustive input sweeps against reference models",
        }],
        "checks": checks,
        "not_applicable": na,
        "notes": "All checks explore the real implementation (no separate TLA+/Promela model). Known findings: /verif/known_findings.json.",
    }
    json.dump(m, open("/verif/MANIFEST.json", "w"), indent=1)
    try:
        import jsonschema
        jsonschema.validate(m, json.load(open("/root/.vp/MANIFEST.schema.json")))
        print("MANIFEST valid;", len(checks), "checks,", len(na), "not claimed")
    except ImportError:
        print("jsonschema not importable; wrote MANIFEST unvalidated")

main()
