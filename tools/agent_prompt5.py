import sys,subprocess,json
pid=sys.argv[1]; wt=sys.argv[2]
avoid={
 "C01": [
  "the trailing-blank handling of `read` (yash-builtin/src/read/assigning.rs)",
  "the nounset check of ParamRef::expand (yash-semantics/src/expansion/initial/param.rs)",
  "the DoubleQuote arm / will_split handling in yash-semantics/src/expansion/initial/word.rs",
  "the apply_escapes step of trim patterns (yash-semantics/src/expansion/initial/param/trim.rs)"
 ],
 "C02": [
  "for_loop.rs (exit status at loop start)",
  "Divert::exit_status in yash-env/src/semantics.rs",
  "Loop::iterate in while_loop.rs (status after continue)",
  "the `!` branch of Parser::pipeline (alias after `!`)"
 ],
 "C03": [
  "the ShiftLeft arm of binary_result",
  "parsing of variable values as numbers",
  "Operator::precedence in yash-arith/src/ast.rs",
  "VarEnv::assign_variable scope in yash-semantics/src/expansion/initial/arith.rs"
 ],
 "C04": [
  "to_pattern_chars in attr_fnmatch.rs",
  "the rfind search in yash-fnmatch",
  "matches() in compound_command/case.rs",
  "Bracket::parse in yash-fnmatch/src/ast/parse.rs (range ending in `[`)"
 ],
 "C05": [
  "sorting of results in glob.rs",
  "handling of literal backslashes in pattern construction",
  "the `.`/`..` skip in SearchEnv::search_dir",
  "the SIGINT/interrupt check in SearchEnv::search_dir"
 ],
 "C06": [
  "Display for SimpleCommand",
  "the digit guard of Lexer::raw_param",
  "the recursion guard of Parser::substitute_alias",
  "SimpleCommand::is_one_word in yash-syntax/src/syntax.rs"
 ],
 "C07": [
  "Display for Quoted in yash-quote",
  "Signals::str2sig real-time names",
  "new_mask in yash-builtin/src/umask/eval.rs",
  "PRINT_CONTEXT of the export built-in (yash-builtin/src/export.rs)"
 ],
 "C08": [
  "PipeSet::shift",
  "exit_or_raise",
  "the disposition update condition in GrandState::enter_subshell",
  "closing of the pipe reader in expand_common of command substitution"
 ],
 "C09": [
  "RedirGuard::undo_redirs",
  "open_file_noclobber",
  "open_file of the `.` built-in (CLOEXEC)",
  "move_fd_internal in yash-env/src/io.rs"
 ],
 "C10": [
  "apply_errexit placement in pipeline.rs",
  "the main/trap divert combination in Command::execute",
  "Env::errexit_is_applicable",
  "the placement of apply_errexit in SimpleCommand::execute (simple_command.rs)"
 ],
 "C11": [
  "GrandState::enter_subshell",
  "the SIGINT helper in execute_builtin",
  "GrandState::set_action (pending flag)",
  "run_trap_if_caught in yash-semantics/src/trap/signal.rs"
 ],
 "C12": [
  "JobList::update_status",
  "JobList::insert",
  "JobList::remove",
  "JobList::set_current_job"
 ],
 "C13": [
  "any_job_is_running in wait/status.rs",
  "Config::start_and_wait",
  "JobList::remove resetting last_async_pid",
  "the wait/read order in expand_common of command substitution"
 ],
 "C14": [
  "subshell_body of command substitution",
  "trailing-newline removal in expand_common",
  "PipeSet::move_to_stdin_stdout",
  "leading_tabs in yash-syntax/src/parser/lex/heredoc.rs"
 ],
 "C15": [
  "Task::wake duplicate check",
  "Executor::step",
  "Executor::run_until_stalled",
  "Receiver::poll in yash-executor/src/forwarder.rs"
 ],
 "C16": [
  "VariableSet::get_or_new_impl (Volatile)",
  "VariableSet::env_c_strings",
  "readonly::main scope",
  "unset_variables in yash-builtin/src/unset/semantics.rs"
 ],
 "C17": [
  "alias step of Parser::simple_command",
  "LexerCore::is_after_blank_ending_alias",
  "the `!` branch of Parser::pipeline",
  "Parser::take_token_auto in yash-syntax/src/parser/core.rs"
 ],
 "C18": [
  "Lexer::here_doc_content",
  "set_mode placement in read_eval_loop_impl",
  "FdReader2::next_line chunking",
  "the restore order in RedirGuard::undo_redirs"
 ],
 "C19": [
  "Sigmask for VirtualSystem",
  "Process::set_state",
  "OpenFileDescription::poll_write (O_APPEND)",
  "Process::fork_from in yash-env/src/system/virtual/process.rs"
 ],
 "C20": [
  "parse_long_option",
  "the `--` handling at the end of parse_arguments",
  "the attached-signal branch of kill/syntax.rs",
  "canonicalize in yash-env/src/option.rs"
 ]
}
base=subprocess.check_output(['python3','/verif/tools/agent_prompt.py',pid,wt]).decode()
a=avoid[pid]
extra=f"""

ADDITIONAL CONSTRAINT: four other contributors have already produced changes in (1) {a[0]}, (2) {a[1]}, (3) {a[2]} and (4) {a[3]}. Produce a DIFFERENT change: a different function and, if at all possible, a different file and crate; a different mechanism of failure; and a clause or situation of the property statement that none of those touches. Do not touch that code. Use `{pid.lower()}e` instead of `{pid.lower()}` in the names of any demonstration files you add (e.g. tests/{pid.lower()}e_*.rs) so that they do not clash. Prefer a change that needs a multi-step history, a particular interleaving, an unusual-but-legal combination of features, or an input from an unusual class (non-ASCII text, very long input, many descriptors, deep nesting, empty values, interactive mode, job control) to manifest. Before settling on a change, check that no existing unit test exercises the path (run the crate's tests early). If you notice a behaviour of the UNCHANGED code that already seems to violate the property, mention it at the end of your final message (do not fix it).
"""
print(base+extra)
