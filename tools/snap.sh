#!/bin/bash
# Runs long jobs from a `vp run --with-repo` snapshot without touching /repo or /verif:
#   vp run --with-repo --timeout 4h -- tools/snap.sh thorough [ids...]
#   vp run --with-repo --timeout 4h -- tools/snap.sh matrix ['glob']
# cwd = snapshot of /verif, $VP_RUN_REPO = snapshot of /repo's HEAD. The harness copy in the snapshot
# is re-pointed at the repository snapshot; evidence, replays and build output stay in the snapshot.
# Results are for information only (registered evidence always comes from ./check in /verif).
set -u
HERE=$PWD; REPO=${VP_RUN_REPO:-/repo}
sed -i "s|\"/repo/|\"$REPO/|g" harness/Cargo.toml
export YV_DIR=$HERE CARGO_TARGET_DIR=$HERE/target CARGO_NET_OFFLINE=true
build() { (cd $HERE/harness && cargo build --release --quiet 2>$HERE/build.log) || { echo "BUILD FAILED"; tail -20 $HERE/build.log; return 2; }; }
YV=$HERE/target/release/yv
verb=$1; shift
case $verb in
thorough)
  build || exit 2
  ids=${*:-C01 C02 C03 C04 C05 C06 C07 C08 C09 C10 C11 C12 C13 C14 C15 C16 C17 C18 C19 C20}
  for id in $ids; do
    s=$(date +%s); out=$($YV $id --tier thorough 2>&1); rc=$?; e=$(date +%s)
    echo "$id thorough rc=$rc $((e-s))s $(echo "$out" | grep -c '^VIOLATION') violations; $(echo "$out" | grep -c '^KNOWN-FINDING') known"
    echo "$out" | grep -A1 '^VIOLATION' | head -6
  done ;;
matrix)
  pat=${1:-*}
  for d in $HERE/seeded/*/; do
    name=$(basename $d); [[ "$name" != $pat ]] && continue
    id=${name:0:3}; [ -f $d/detect_with ] && id=$(cat $d/detect_with)
    (cd $REPO && git apply $d/patch.diff) || { echo "$name: patch does not apply"; continue; }
    if build; then out=$($YV $id --tier quick 2>&1); rc=$?; else rc=2; out=""; fi
    (cd $REPO && git apply -R $d/patch.diff)
    echo "$name: check $id exit=$rc $(echo "$out" | grep -o 'key=[^ ]*' | sort -u | head -4 | tr '\n' ' ')"
  done ;;
esac
