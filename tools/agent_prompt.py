import sys
pid=sys.argv[1]; wt=sys.argv[2]
prop=open(f"/tmp/prop_{pid}.txt").read()
print(f"""You are helping test a verification framework by writing a *seeded defect* for the Rust project magicant/yash-rs (a POSIX shell reimplementation). You work ONLY inside your own scratch git worktree at {wt} (a checkout of the repository). Do not read or touch /repo, /verif, or any other directory outside {wt} (other than /tmp/{pid.lower()}_demo for your demonstration if you need a separate crate; prefer putting the demonstration inside the worktree as a new test file). There is no network; cargo must be run with --offline (CARGO_NET_OFFLINE=true).

The semantic property under test:

---
{prop}---

Your task: produce ONE small source change to the yash-rs code in {wt} (not to its tests) that BREAKS this property while
 (a) still compiling,
 (b) still passing the repository's existing test suite. Run it in the worktree with:
       cd {wt} && CARGO_NET_OFFLINE=true cargo nextest run --workspace --no-fail-fast --offline 2>&1 | tail -30
     NOTE: about 99 tests named `yash-cli::scripted_test ...` already fail in this sandbox WITHOUT any change (they need a pty); they are not part of the suite and can be ignored. Every other test (2995 of them) must still pass with your change. If your change makes any other test fail, pick a different change.
 (c) being realistic: the kind of slip a maintainer could make in a refactor (an off-by-one, a swapped condition, a missing step on an error path, a reordering of two operations, state kept where it should be copied, ...), not an obviously malicious edit, and
 (d) needing something SPECIFIC to manifest: a particular interleaving of processes, a failure at a particular point, a multi-step sequence of operations, an unusual input or combination, or two cooperating sites that each look fine alone. It must NOT be something that ordinary everyday use of the shell would expose at once (e.g. do not break `echo a | cat` in general).

Also produce a DEMONSTRATION: a new Rust test (e.g. a new `#[test]` in a new file or appended test module in the relevant crate, using the crate's existing test helpers such as the virtual system / `in_virtual_system`, or a direct API call sequence) that FAILS with your change and PASSES without it. Verify both directions yourself (apply/revert your patch with `git apply` / `git apply -R`; do NOT use `git stash` — the stash is shared between all worktrees of the repository and other agents are working in sibling worktrees) and report the exact commands and observed results.

Deliver, in {wt}/SEEDED/ (create it):
  - patch.diff : the source change only (output of `git diff` restricted to the non-test source files you changed), applicable with `git apply` to a clean checkout;
  - demo.diff or demo files : the demonstration test (as a patch adding the test, or a standalone file with instructions);
  - NOTES.md : which code you changed and why it breaks the property, what exactly is needed for it to manifest, the commands you ran (test suite with the change: pass count; demo with and without the change) and their results.
Leave the worktree with the source change APPLIED (so I can inspect it), but make sure patch.diff alone reproduces it.

Keep the change minimal (a few lines). Read the relevant code first to find a good spot. Building takes a few minutes; the machine is shared, so please use `-j 6` for cargo builds (e.g. `cargo nextest run -j 6 --build-jobs 6 ...`, or set CARGO_BUILD_JOBS=6). Your final message should summarise: the change, what it needs to manifest, and the verification results.""")
