import sys,subprocess,json
pid=sys.argv[1]; wt=sys.argv[2]
avoid={
 "C01": [
  "the trailing-blank handling of `read` (yash-builtin/src/read/assigning.rs)",
  "the nounset check of ParamRef::expand (yash-semantics/src/expansion/initial/param.rs)",
  "the DoubleQuote arm / will_split handling in yash-semantics/src/expansion/initial/word.rs",
  "the apply_escapes step of trim patterns (yash-semantics/src/expansion/initial/param/trim.rs)",
  "the point where expand_word_multiple reads $IFS (yash-semantics/src/expansion.rs)",
  "the end-of-input path of read::main (yash-builtin/src/read.rs)",
  "Phrase::append (yash-semantics/src/expansion/phrase.rs)"
 ],
 "C02": [
  "for_loop.rs (exit status at loop start)",
  "Divert::exit_status in yash-env/src/semantics.rs",
  "Loop::iterate in while_loop.rs (status after continue)",
  "the `!` branch of Parser::pipeline (alias after `!`)",
  "the re-wait loop of Config::start_and_wait for stopped children (yash-env/src/subshell/config.rs)",
  "the `executed` flag of read_eval_loop_impl (yash-semantics/src/runner.rs)",
  "the pipefail status loop of execute_multi_command_pipeline (yash-semantics/src/command/pipeline.rs)"
 ],
 "C03": [
  "the ShiftLeft arm of binary_result",
  "parsing of variable values as numbers",
  "Operator::precedence in yash-arith/src/ast.rs",
  "VarEnv::assign_variable scope in yash-semantics/src/expansion/initial/arith.rs",
  "white-space skipping in Tokens::next_token (yash-arith/src/token.rs)",
  "the LogicalOr/LogicalAnd arms of eval (yash-arith/src/eval.rs)",
  "the expand function of yash-semantics/src/expansion/initial/arith.rs"
 ],
 "C04": [
  "to_pattern_chars in attr_fnmatch.rs",
  "the rfind search in yash-fnmatch",
  "matches() in compound_command/case.rs",
  "Bracket::parse in yash-fnmatch/src/ast/parse.rs (range ending in `[`)",
  "apply_escapes in trim.rs (again) and BracketAtom::matches_multi_character in yash-fnmatch/src/ast/regex.rs",
  "the continuation handling of the item loop in compound_command/case.rs",
  "Lexer::trim in yash-syntax/src/parser/lex/modifier.rs",
  "the `*` arm of Atom::parse (yash-fnmatch/src/ast/parse.rs)"
 ],
 "C05": [
  "sorting of results in glob.rs",
  "handling of literal backslashes in pattern construction",
  "the `.`/`..` skip in SearchEnv::search_dir",
  "the SIGINT/interrupt check in SearchEnv::search_dir",
  "BracketAtom::matches_multi_character in yash-fnmatch/src/ast/regex.rs",
  "SearchEnv::file_exists in yash-semantics/src/expansion/glob.rs",
  "the finish function of yash-semantics/src/expansion/initial/tilde.rs",
  "Ast::starts_with_literal_dot (yash-fnmatch/src/ast.rs)"
 ],
 "C06": [
  "Display for SimpleCommand",
  "the digit guard of Lexer::raw_param",
  "the recursion guard of Parser::substitute_alias",
  "SimpleCommand::is_one_word in yash-syntax/src/syntax.rs",
  "the delimiter-line test of Lexer::here_doc_content (yash-syntax/src/parser/lex/heredoc.rs)",
  "Lexer::inner_program (yash-syntax/src/parser/lex/core.rs)",
  "the job name in execute_async (yash-semantics/src/command/item.rs)",
  "Display for BodyImpl (yash-semantics/src/command/function_definition.rs)"
 ],
 "C07": [
  "Display for Quoted in yash-quote",
  "Signals::str2sig real-time names",
  "new_mask in yash-builtin/src/umask/eval.rs",
  "PRINT_CONTEXT of the export built-in (yash-builtin/src/export.rs)",
  "SimpleCommand::first_word_is_keyword (yash-syntax/src/syntax.rs)",
  "TrapSet::set_action_impl / clear_parent_states (yash-env/src/trap.rs)",
  "print_one in yash-builtin/src/typeset/print_variables.rs",
  "Parser::array_values (yash-syntax/src/parser/simple_command.rs)"
 ],
 "C08": [
  "PipeSet::shift",
  "exit_or_raise",
  "the disposition update condition in GrandState::enter_subshell",
  "closing of the pipe reader in expand_common of command substitution",
  "Process::fork_from (umask) in yash-env/src/system/virtual/process.rs",
  "the stopped-child test of Config::start_and_wait (yash-env/src/subshell/config.rs)",
  "TemporaryNonBlockingGuard in yash-env/src/system/concurrency.rs",
  "run_exit_trap (yash-semantics/src/trap/exit.rs)"
 ],
 "C09": [
  "RedirGuard::undo_redirs",
  "open_file_noclobber",
  "open_file of the `.` built-in (CLOEXEC)",
  "move_fd_internal in yash-env/src/io.rs",
  "the saving dup in `perform` of yash-semantics/src/redir.rs",
  "the handles_signals_internally marks in yash-builtin/src/lib.rs",
  "retain_redirs in exec::main (yash-builtin/src/exec.rs)",
  "RealSystem::open_tmpfile (yash-env/src/system/real.rs)"
 ],
 "C10": [
  "apply_errexit placement in pipeline.rs",
  "the main/trap divert combination in Command::execute",
  "Env::errexit_is_applicable",
  "the placement of apply_errexit in SimpleCommand::execute (simple_command.rs)",
  "prepare_report_message_and_divert in yash-builtin/src/common/report.rs",
  "the trap loop of wait_for_any_job_or_trap (yash-builtin/src/wait/core.rs)",
  "the match on the read-eval loop result in run_as_shell_process (yash-cli/src/lib.rs)",
  "apply_postfix in yash-arith/src/eval.rs"
 ],
 "C11": [
  "GrandState::enter_subshell",
  "the SIGINT helper in execute_builtin",
  "GrandState::set_action (pending flag)",
  "run_trap_if_caught in yash-semantics/src/trap/signal.rs",
  "the monitor_changed flag in yash-builtin/src/set.rs",
  "signal marking in wait_for_any_job_or_trap (yash-builtin/src/wait/core.rs)",
  "the condition loop of Command::execute in yash-builtin/src/trap.rs",
  "the stopper-signal block of configure_environment (yash-cli/src/startup.rs)"
 ],
 "C12": [
  "JobList::update_status",
  "JobList::insert",
  "JobList::remove",
  "JobList::set_current_job",
  "the JobNumber arm of JobId::find (yash-env/src/job/id.rs)",
  "the job number announced by execute_async (yash-semantics/src/command/item.rs)",
  "resume_job_by_index in yash-builtin/src/bg.rs",
  "Accumulator::add (yash-env/src/job/fmt.rs)"
 ],
 "C13": [
  "any_job_is_running in wait/status.rs",
  "Config::start_and_wait",
  "JobList::remove resetting last_async_pid",
  "the wait/read order in expand_common of command substitution",
  "the placement of enable_internal_disposition_for_sigchld in Env::wait_for_subshell",
  "PipeSet::shift (yash-semantics/src/command/pipeline.rs)",
  "Command::await_jobs in yash-builtin/src/wait.rs",
  "perform_assignments (yash-semantics/src/assign.rs)"
 ],
 "C14": [
  "subshell_body of command substitution",
  "trailing-newline removal in expand_common",
  "PipeSet::move_to_stdin_stdout",
  "leading_tabs in yash-syntax/src/parser/lex/heredoc.rs",
  "fill_content / the rewind in yash-semantics/src/redir/here_doc.rs",
  "RedirGuard::undo_redirs (yash-semantics/src/redir.rs)",
  "TemporaryNonBlockingGuard in yash-env/src/system/concurrency.rs"
 ],
 "C15": [
  "Task::wake duplicate check",
  "Executor::step",
  "Executor::run_until_stalled",
  "Receiver::poll in yash-executor/src/forwarder.rs",
  "the by-value wake function of the waker vtable (yash-executor/src/waker.rs)",
  "ExecutorState::enqueue (yash-executor/src/executor.rs)",
  "Task::poll in yash-executor/src/task.rs"
 ],
 "C16": [
  "VariableSet::get_or_new_impl (Volatile)",
  "VariableSet::env_c_strings",
  "readonly::main scope",
  "unset_variables in yash-builtin/src/unset/semantics.rs",
  "the scope used by the assign switch (yash-semantics/src/expansion/initial/param/switch.rs)",
  "VariableSet::get_scalar (yash-env/src/variable.rs)",
  "the built-in registry iter() in yash-builtin/src/lib.rs",
  "SetVariables::execute (yash-builtin/src/typeset/set_variables.rs)"
 ],
 "C17": [
  "alias step of Parser::simple_command",
  "LexerCore::is_after_blank_ending_alias",
  "the `!` branch of Parser::pipeline",
  "Parser::take_token_auto in yash-syntax/src/parser/core.rs",
  "Parser::redirection_operand (yash-syntax/src/parser/redir.rs)",
  "the newline skipping of Parser::and_or_list (yash-syntax/src/parser/and_or.rs)",
  "ForkEnvState::into_env_with_system in yash-env/src/fork.rs"
 ],
 "C18": [
  "Lexer::here_doc_content",
  "set_mode placement in read_eval_loop_impl",
  "FdReader2::next_line chunking",
  "the restore order in RedirGuard::undo_redirs",
  "Config::start_and_wait (stopped children) in yash-env/src/subshell/config.rs",
  "nullify_stdin (yash-semantics/src/command/item.rs)",
  "read_char in yash-builtin/src/read/input.rs",
  "prepare_fd_input (yash-cli/src/startup/input.rs)"
 ],
 "C19": [
  "Sigmask for VirtualSystem",
  "Process::set_state",
  "OpenFileDescription::poll_write (O_APPEND)",
  "Process::fork_from in yash-env/src/system/virtual/process.rs",
  "the EMFILE path of VirtualSystem::pipe",
  "send_signal_to_processes (yash-env/src/system/virtual.rs)",
  "VirtualSystem::physical_path in yash-env/src/system/virtual.rs",
  "SystemState::child_to_wait_for (yash-env/src/system/virtual.rs)"
 ],
 "C20": [
  "parse_long_option",
  "the `--` handling at the end of parse_arguments",
  "the attached-signal branch of kill/syntax.rs",
  "canonicalize in yash-env/src/option.rs",
  "the short/long alternation loop of yash-builtin/src/set/syntax.rs",
  "the error path of exec::main (yash-builtin/src/exec.rs)",
  "try_parse_short in yash-builtin/src/typeset/syntax.rs",
  "long_match in yash-builtin/src/common/syntax.rs"
 ]
}
base=subprocess.check_output(['python3','/verif/tools/agent_prompt.py',pid,wt]).decode()
a=avoid[pid]
lst='; '.join(f"({i+1}) {x}" for i,x in enumerate(a))
extra=f"""

ADDITIONAL CONSTRAINT: several other contributors have already produced changes in {lst}. Produce a DIFFERENT change: a different function and, if at all possible, a different file and crate; a different mechanism of failure. Do not touch that code. Use `{pid.lower()}i` instead of `{pid.lower()}` in the names of any demonstration files you add (e.g. tests/{pid.lower()}i_*.rs) so that they do not clash.

THIS ROUND'S EMPHASIS: COVERAGE OF THE STATEMENT. Go through the property statement clause by clause and phrase by phrase, and list for yourself which clauses the earlier changes (named above) relate to. Then pick a clause, a listed construct, a named built-in, an operator or an option that NONE of them relates to, find the code that implements it (it may live in a crate or file none of them touched: yash-builtin, yash-cli, yash-env, yash-prompt, yash-quote, ...), and break THAT. State in NOTES.md which clause you picked and why you believe it was untouched. As before the change must need something specific to manifest (a multi-step history, an interaction of two features, an error path, an unusual-but-legal input) and must not be caught by the existing tests. If you notice a behaviour of the UNCHANGED code that already seems to violate the property, mention it at the end of your final message (do not fix it).
"""
print(base+extra)
