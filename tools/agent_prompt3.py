import sys,subprocess
pid=sys.argv[1]; wt=sys.argv[2]
avoid={
"C05":["the sorting of results in yash-semantics/src/expansion/glob.rs","the handling of a literal backslash in to_pattern / pattern construction for pathname expansion (yash-semantics/src/expansion/glob.rs)"],
"C06":["Display for SimpleCommand in yash-syntax/src/syntax/impl_display.rs","the digit guard of Lexer::raw_param in yash-syntax/src/parser/lex/raw_param.rs"],
"C07":["the double-quoting branch of Display for Quoted in yash-quote/src/lib.rs","Signals::str2sig real-time signal names in yash-env/src/system/signal.rs"],
"C08":["PipeSet::shift in yash-semantics/src/command/pipeline.rs","exit_or_raise in yash-env/src/semantics.rs"],
"C10":["the placement of apply_errexit in yash-semantics/src/command/pipeline.rs","the combination of main and trap results in Command::execute (yash-semantics/src/command.rs)"],
"C11":["GrandState::enter_subshell in yash-env/src/trap/state.rs","the SIGINT helper of execute_builtin in yash-semantics/src/command/simple_command/builtin.rs"],
"C13":["any_job_is_running in yash-builtin/src/wait/status.rs","Config::start_and_wait in yash-env/src/subshell/config.rs"],
"C15":["the duplicate check in Task::wake in yash-executor/src/task.rs","Executor::step in yash-executor/src/executor.rs"],
"C17":["the alias substitution step of Parser::simple_command in yash-syntax/src/parser/simple_command.rs","LexerCore::is_after_blank_ending_alias in yash-syntax/src/parser/lex/core.rs"],
"C18":["Lexer::here_doc_content in yash-syntax/src/parser/lex/heredoc.rs","the placement of lexer.set_mode in read_eval_loop_impl (yash-semantics/src/runner.rs)"],
"C19":["the Sigmask implementation in yash-env/src/system/virtual.rs","Process::set_state in yash-env/src/system/virtual/process.rs"],
"C12":["the was_suspended branch of JobList::update_status in yash-env/src/job.rs","JobList::insert in yash-env/src/job.rs"],
"C14":["subshell_body in yash-semantics/src/expansion/initial/command_subst.rs","the trailing-newline removal of expand_common in yash-semantics/src/expansion/initial/command_subst.rs"],
"C01":["yash-builtin/src/read/assigning.rs","the nounset check of ParamRef::expand in yash-semantics/src/expansion/initial/param.rs"],
"C02":["yash-semantics/src/command/compound_command/for_loop.rs","Divert::exit_status in yash-env/src/semantics.rs"],
"C09":["RedirGuard::undo_redirs in yash-semantics/src/redir.rs","open_file_noclobber in yash-semantics/src/redir.rs"],
"C16":["the Scope::Volatile branch of VariableSet::get_or_new_impl in yash-env/src/variable.rs","VariableSet::env_c_strings in yash-env/src/variable.rs"],
"C20":["parse_long_option in yash-builtin/src/common/syntax.rs","the `--` separator handling at the end of parse_arguments in yash-builtin/src/common/syntax.rs"],
"C03":["the ShiftLeft arm of binary_result in yash-arith/src/eval.rs","the parsing of variable values as numbers in yash-arith"],
"C04":["to_pattern_chars in yash-semantics/src/expansion/attr_fnmatch.rs","the rfind (longest suffix) search in yash-fnmatch"],
}
base=subprocess.check_output(['python3','/tmp/agent_prompt.py',pid,wt]).decode()
a=avoid[pid]
extra=f"""

ADDITIONAL CONSTRAINT: two other contributors have already produced changes in (1) {a[0]} and (2) {a[1]}. Produce a DIFFERENT change: a different function, a different mechanism of failure and, ideally, a different clause of the property statement than either of them. Do not touch that code. Use `{pid.lower()}c` instead of `{pid.lower()}` in the names of any demonstration files you add (e.g. tests/{pid.lower()}c_*.rs) so that they do not clash. Prefer a change that needs a multi-step history, a particular interleaving, or an unusual-but-legal combination of features to manifest.
"""
print(base+extra)
