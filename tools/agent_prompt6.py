import sys,subprocess,json
pid=sys.argv[1]; wt=sys.argv[2]
avoid={
 "C01": [
  "the trailing-blank handling of `read` (yash-builtin/src/read/assigning.rs)",
  "the nounset check of ParamRef::expand (yash-semantics/src/expansion/initial/param.rs)",
  "the DoubleQuote arm / will_split handling in yash-semantics/src/expansion/initial/word.rs",
  "the apply_escapes step of trim patterns (yash-semantics/src/expansion/initial/param/trim.rs)",
  "the point where expand_word_multiple reads $IFS (yash-semantics/src/expansion.rs)"
 ],
 "C02": [
  "for_loop.rs (exit status at loop start)",
  "Divert::exit_status in yash-env/src/semantics.rs",
  "Loop::iterate in while_loop.rs (status after continue)",
  "the `!` branch of Parser::pipeline (alias after `!`)",
  "the re-wait loop of Config::start_and_wait for stopped children (yash-env/src/subshell/config.rs)"
 ],
 "C03": [
  "the ShiftLeft arm of binary_result",
  "parsing of variable values as numbers",
  "Operator::precedence in yash-arith/src/ast.rs",
  "VarEnv::assign_variable scope in yash-semantics/src/expansion/initial/arith.rs",
  "white-space skipping in Tokens::next_token (yash-arith/src/token.rs)"
 ],
 "C04": [
  "to_pattern_chars in attr_fnmatch.rs",
  "the rfind search in yash-fnmatch",
  "matches() in compound_command/case.rs",
  "Bracket::parse in yash-fnmatch/src/ast/parse.rs (range ending in `[`)",
  "apply_escapes in trim.rs (again) and BracketAtom::matches_multi_character in yash-fnmatch/src/ast/regex.rs"
 ],
 "C05": [
  "sorting of results in glob.rs",
  "handling of literal backslashes in pattern construction",
  "the `.`/`..` skip in SearchEnv::search_dir",
  "the SIGINT/interrupt check in SearchEnv::search_dir",
  "BracketAtom::matches_multi_character in yash-fnmatch/src/ast/regex.rs"
 ],
 "C06": [
  "Display for SimpleCommand",
  "the digit guard of Lexer::raw_param",
  "the recursion guard of Parser::substitute_alias",
  "SimpleCommand::is_one_word in yash-syntax/src/syntax.rs",
  "the delimiter-line test of Lexer::here_doc_content (yash-syntax/src/parser/lex/heredoc.rs)"
 ],
 "C07": [
  "Display for Quoted in yash-quote",
  "Signals::str2sig real-time names",
  "new_mask in yash-builtin/src/umask/eval.rs",
  "PRINT_CONTEXT of the export built-in (yash-builtin/src/export.rs)",
  "SimpleCommand::first_word_is_keyword (yash-syntax/src/syntax.rs)"
 ],
 "C08": [
  "PipeSet::shift",
  "exit_or_raise",
  "the disposition update condition in GrandState::enter_subshell",
  "closing of the pipe reader in expand_common of command substitution",
  "Process::fork_from (umask) in yash-env/src/system/virtual/process.rs"
 ],
 "C09": [
  "RedirGuard::undo_redirs",
  "open_file_noclobber",
  "open_file of the `.` built-in (CLOEXEC)",
  "move_fd_internal in yash-env/src/io.rs",
  "the saving dup in `perform` of yash-semantics/src/redir.rs"
 ],
 "C10": [
  "apply_errexit placement in pipeline.rs",
  "the main/trap divert combination in Command::execute",
  "Env::errexit_is_applicable",
  "the placement of apply_errexit in SimpleCommand::execute (simple_command.rs)",
  "prepare_report_message_and_divert in yash-builtin/src/common/report.rs"
 ],
 "C11": [
  "GrandState::enter_subshell",
  "the SIGINT helper in execute_builtin",
  "GrandState::set_action (pending flag)",
  "run_trap_if_caught in yash-semantics/src/trap/signal.rs",
  "the monitor_changed flag in yash-builtin/src/set.rs"
 ],
 "C12": [
  "JobList::update_status",
  "JobList::insert",
  "JobList::remove",
  "JobList::set_current_job",
  "the JobNumber arm of JobId::find (yash-env/src/job/id.rs)"
 ],
 "C13": [
  "any_job_is_running in wait/status.rs",
  "Config::start_and_wait",
  "JobList::remove resetting last_async_pid",
  "the wait/read order in expand_common of command substitution",
  "the placement of enable_internal_disposition_for_sigchld in Env::wait_for_subshell"
 ],
 "C14": [
  "subshell_body of command substitution",
  "trailing-newline removal in expand_common",
  "PipeSet::move_to_stdin_stdout",
  "leading_tabs in yash-syntax/src/parser/lex/heredoc.rs",
  "fill_content / the rewind in yash-semantics/src/redir/here_doc.rs"
 ],
 "C15": [
  "Task::wake duplicate check",
  "Executor::step",
  "Executor::run_until_stalled",
  "Receiver::poll in yash-executor/src/forwarder.rs",
  "the by-value wake function of the waker vtable (yash-executor/src/waker.rs)"
 ],
 "C16": [
  "VariableSet::get_or_new_impl (Volatile)",
  "VariableSet::env_c_strings",
  "readonly::main scope",
  "unset_variables in yash-builtin/src/unset/semantics.rs",
  "the scope used by the assign switch (yash-semantics/src/expansion/initial/param/switch.rs)"
 ],
 "C17": [
  "alias step of Parser::simple_command",
  "LexerCore::is_after_blank_ending_alias",
  "the `!` branch of Parser::pipeline",
  "Parser::take_token_auto in yash-syntax/src/parser/core.rs",
  "Parser::redirection_operand (yash-syntax/src/parser/redir.rs)"
 ],
 "C18": [
  "Lexer::here_doc_content",
  "set_mode placement in read_eval_loop_impl",
  "FdReader2::next_line chunking",
  "the restore order in RedirGuard::undo_redirs",
  "Config::start_and_wait (stopped children) in yash-env/src/subshell/config.rs"
 ],
 "C19": [
  "Sigmask for VirtualSystem",
  "Process::set_state",
  "OpenFileDescription::poll_write (O_APPEND)",
  "Process::fork_from in yash-env/src/system/virtual/process.rs",
  "the EMFILE path of VirtualSystem::pipe"
 ],
 "C20": [
  "parse_long_option",
  "the `--` handling at the end of parse_arguments",
  "the attached-signal branch of kill/syntax.rs",
  "canonicalize in yash-env/src/option.rs",
  "the short/long alternation loop of yash-builtin/src/set/syntax.rs"
 ]
}
base=subprocess.check_output(['python3','/verif/tools/agent_prompt.py',pid,wt]).decode()
a=avoid[pid]
lst='; '.join(f"({i+1}) {x}" for i,x in enumerate(a))
extra=f"""

ADDITIONAL CONSTRAINT: five other contributors have already produced changes in {lst}. Produce a DIFFERENT change: a different function and, if at all possible, a different file and crate; a different mechanism of failure; and a clause or situation of the property statement that none of those touches. Do not touch that code. Use `{pid.lower()}f` instead of `{pid.lower()}` in the names of any demonstration files you add (e.g. tests/{pid.lower()}f_*.rs) so that they do not clash.

THIS ROUND'S EMPHASIS: changes whose effect depends on an INTERACTION rather than on one unusual input: (i) two sites that each look fine alone (state written in one function and consumed in another; a flag set on one path and tested on another), (ii) a multi-step HISTORY (the third operation of a sequence goes wrong only because of what the first two left behind; an operation repeated twice; set-then-reset-then-set), (iii) an ERROR PATH (what happens to state, descriptors, the job table, the variable stack when a step in the middle fails or is interrupted by a signal), or (iv) an INTERLEAVING of processes / wake-ups. Read the statement's clauses again and pick one that is about state over time. Before settling on a change, check that no existing unit test exercises the path (run the crate's tests early). If you notice a behaviour of the UNCHANGED code that already seems to violate the property, mention it at the end of your final message (do not fix it).
"""
print(base+extra)
