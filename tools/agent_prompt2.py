import sys,subprocess
pid=sys.argv[1]; wt=sys.argv[2]
avoid={
"C01":"yash-builtin/src/read/assigning.rs (trailing-whitespace trimming of the last variable in `read`)",
"C02":"yash-semantics/src/command/compound_command/for_loop.rs (exit status reset at the start of a for loop)",
"C03":"the ShiftLeft arm of binary_result in yash-arith/src/eval.rs",
"C04":"to_pattern_chars in yash-semantics/src/expansion/attr_fnmatch.rs",
"C05":"the sorting of results in yash-semantics/src/expansion/glob.rs",
"C06":"Display for SimpleCommand in yash-syntax/src/syntax/impl_display.rs",
"C07":"the double-quoting branch of Display for Quoted in yash-quote/src/lib.rs",
"C08":"PipeSet::shift in yash-semantics/src/command/pipeline.rs",
"C09":"RedirGuard::undo_redirs in yash-semantics/src/redir.rs",
"C10":"the placement of apply_errexit in yash-semantics/src/command/pipeline.rs",
"C11":"GrandState::enter_subshell in yash-env/src/trap/state.rs",
"C12":"the was_suspended branch of JobList::update_status in yash-env/src/job.rs",
"C13":"any_job_is_running in yash-builtin/src/wait/status.rs",
"C14":"subshell_body in yash-semantics/src/expansion/initial/command_subst.rs",
"C15":"the duplicate check in Task::wake in yash-executor/src/task.rs",
"C16":"the Scope::Volatile branch of VariableSet::get_or_new_impl in yash-env/src/variable.rs",
"C17":"the alias substitution step of Parser::simple_command in yash-syntax/src/parser/simple_command.rs",
"C18":"Lexer::here_doc_content in yash-syntax/src/parser/lex/heredoc.rs",
"C19":"the Sigmask implementation in yash-env/src/system/virtual.rs",
"C20":"parse_long_option in yash-builtin/src/common/syntax.rs",
}
base=subprocess.check_output(['python3','/tmp/agent_prompt.py',pid,wt]).decode()
extra=f"""

ADDITIONAL CONSTRAINT: another contributor has already produced a change in {avoid[pid]}. Produce a DIFFERENT change: a different function and a different mechanism of failure (ideally a different aspect of the property statement). Do not touch that code. Use `{pid.lower()}b` instead of `{pid.lower()}` in the names of any demonstration files you add (e.g. tests/{pid.lower()}b_*.rs) so that they do not clash.
"""
print(base+extra)
